#!/bin/sh
# Build the overlay virtualenv /verif/.venv (offline): /venv's packages (breezy's own
# dependencies and compiled extensions) + z3-solver / crosshair-tool / cvc5 from the wheelhouse.
# Idempotent; safe to call concurrently (lock directory).
set -e
HERE="$(cd "$(dirname "$0")" && pwd)"
V="$HERE/.venv"
if [ -x "$V/bin/python" ] && [ -f "$V/.ok" ]; then exit 0; fi
LOCK="$HERE/.venv.lock"
i=0
while ! mkdir "$LOCK" 2>/dev/null; do
  i=$((i+1)); [ $i -gt 600 ] && { echo "bootstrap: lock timeout" >&2; exit 3; }
  sleep 1
  if [ -x "$V/bin/python" ] && [ -f "$V/.ok" ]; then exit 0; fi
done
trap 'rmdir "$LOCK" 2>/dev/null || true' EXIT
if [ -x "$V/bin/python" ] && [ -f "$V/.ok" ]; then exit 0; fi
rm -rf "$V"
/venv/bin/python -m venv "$V" >/dev/null
SP="$V/lib/python3.12/site-packages"
printf '/venv/lib/python3.12/site-packages\n/repo\n' > "$SP/_overlay.pth"
PIP_NO_INDEX=1 "$V/bin/python" -m pip install -q --no-index --find-links /opt/veriftools/wheels \
    z3-solver crosshair-tool cvc5 >/dev/null 2>"$V/pip.err" || { cat "$V/pip.err" >&2; exit 3; }
"$V/bin/python" -c "import z3, crosshair, cvc5, breezy" || exit 3
touch "$V/.ok"
