import os, sys
import breezy, breezy.bzr, breezy.git, breezy.bzr.bzrdir
from breezy import transform as T, osutils
from breezy.controldir import ControlDir
from breezy.workingtree import WorkingTree
breezy.initialize()
wt = ControlDir.create_standalone_workingtree("wt")
open("wt/a","w").write("old\n")
open("wt/b","w").write("b\n"); wt.add(["a","b"]); wt.commit("one")
orig = T.delete_any
def failing(p):
    raise OSError(13, "injected EACCES")
T.delete_any = failing
try:
  try:
    with wt.transform() as tt:
        tid = tt.trans_id_tree_path("a")
        tt.delete_contents(tid)
        tt.create_file([b"new\n"], tid)
        tid2 = tt.trans_id_tree_path("b")
        tt.adjust_path("c", tt.root, tid2)
        try:
            tt.apply()
        except OSError as e:
            print("apply raised", e)
  except Exception as e:
    print("transform exit raised", type(e).__name__)
finally:
    T.delete_any = orig
wt2 = WorkingTree.open("wt")
print("on disk:", sorted(os.listdir("wt")), open("wt/a").read() if os.path.exists("wt/a") else None)
with wt2.lock_read():
    print("changes:", [(c.path, c.changed_content) for c in wt2.iter_changes(wt2.basis_tree())])
    print("versioned:", sorted(p for p,e in wt2.iter_entries_by_dir()))
