"""Known finding C33-refine-reaches-seen-revision-through-unseen-one, shown on the real code.

History:   a -> c -> null:      b -> c          (two heads a and b over a common revision c)

A fetch of {a, b} asks a stack of repositories.  The first one (say the stacked repository) holds b and c but not a, so
the client has SEEN {b, c} and those revisions REFERENCE {c, null:}.  SearchResult.refine() turns the overall search
(start {a, b}, stop {null:}, 3 revisions) into the description sent to the next repository:

    start {a}, stop {null:, b}, count 1

Only the satisfied HEADS (b) are added to the stop keys.  The next repository holds a and c (it overlaps with the first
one in c).  Replaying the description there walks a and then a's parent c - a revision the client already has:

  * the strict replay (count check) fails, the lenient one (Repository.get_stream) sends c a second time.

Exit status 1 if the finding reproduces (it does on the pinned tree), 0 if the refined search walks exactly {a}.
"""
import atexit
import os
import sys
import tempfile

_home = tempfile.TemporaryDirectory(prefix="c33-demo-home-")
os.environ["BRZ_HOME"] = os.environ["HOME"] = _home.name
os.environ["BRZ_LOG"] = os.devnull
os.environ["BRZ_EMAIL"] = "Demo <demo@example.com>"
atexit.register(_home.cleanup)

import breezy

breezy.initialize()

from breezy.branchbuilder import BranchBuilder
from breezy.bzr import vf_search
from breezy.bzr.smart.repository import SmartServerRepositoryRequest
from breezy.revision import NULL_REVISION
from dromedary.memory import MemoryTransport

builder = BranchBuilder(MemoryTransport("memory:///"), format="2a")
builder.start_series()
builder.build_snapshot(None, [("add", ("", b"root-id", "directory", ""))], revision_id=b"c")
builder.build_snapshot([b"c"], [], revision_id=b"a")
builder.build_snapshot([b"c"], [], revision_id=b"b")
builder.finish_series()
second_repo = builder.get_branch().repository        # holds a and c (and b, which the refined search excludes)

overall = vf_search.SearchResult({b"a", b"b"}, {NULL_REVISION}, 3, {b"a", b"b", b"c"})
refined = overall.refine({b"b", b"c"}, {b"c", NULL_REVISION})
print("refined recipe:", refined.get_recipe())
kind, body = refined.get_network_struct()
request = SmartServerRepositoryRequest(None)
second_repo.lock_read()
try:
    strict, err = request.recreate_search_from_recipe(second_repo, body.split(b"\n"))
    lenient, _ = request.recreate_search_from_recipe(second_repo, body.split(b"\n"), discard_excess=True)
    walked = set(lenient.get_keys())
finally:
    second_repo.unlock()
print("strict replay error:", None if err is None else err.args)
print("server walks:", sorted(walked), " wanted: [b'a']")
if walked != {b"a"} or err is not None:
    print("REPRODUCED: the refined search re-sends a revision the client has already seen")
    sys.exit(1)
sys.exit(0)
