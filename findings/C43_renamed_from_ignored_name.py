"""Demo: renaming a tracked file onto an upload-ignored name must not leave
the old (non-ignored) path behind on the remote."""
import io
import os
import sys
import tempfile

import breezy
import breezy.bzr  # noqa: F401
from breezy.plugin import load_plugins
from breezy import controldir, transport
from breezy.plugins.upload import cmds

breezy.initialize()
load_plugins()


def listing(root):
    out = set()
    for d, dirs, files in os.walk(root):
        for n in dirs + files:
            out.add(os.path.relpath(os.path.join(d, n), root))
    return out


def upload(tree, up):
    b = tree.branch
    rev_id = b.last_revision()
    rt = b.repository.revision_tree(rev_id)
    u = cmds.BzrUploader(b, transport.get_transport(up), io.StringIO(), rt, rev_id,
                         quiet=True)
    u.upload_tree()


def main():
    base = tempfile.mkdtemp(prefix="c43r7-")
    os.environ["BRZ_HOME"] = base
    os.environ["HOME"] = base
    os.environ["BRZ_EMAIL"] = "Demo <demo@example.com>"
    wd = os.path.join(base, "branch")
    up = os.path.join(base, "up")
    os.mkdir(wd)
    os.mkdir(up)
    tree = controldir.ControlDir.create_standalone_workingtree(wd)

    def put(name, content):
        with open(os.path.join(wd, name), "wb") as f:
            f.write(content)

    put(".bzrignore-upload", b"*.bak\n")
    put("notes.bak", b"hello\n")
    put("keep", b"keep\n")
    tree.add([".bzrignore-upload", "notes.bak", "keep"])
    tree.commit("one")
    upload(tree, up)
    assert "notes.bak" not in listing(up), listing(up)

    # retire 'notes' by renaming it to an upload-ignored name
    tree.rename_one("notes.bak", "notes")
    tree.commit("two")
    upload(tree, up)

    remote = listing(up)
    print("remote after 2nd upload:", sorted(remote))
    # 'notes' is not in the uploaded tree and is not an ignored path
    if "notes" not in remote:
        print("FAIL: stale non-ignored path 'notes' still on the remote")
        return 1
    expected = {"keep", "notes"}
    got = {p for p in remote if not p.endswith(".bak") and p != ".bzr-upload.revid"}
    if got != expected:
        print("FAIL: remote differs:", sorted(got), "expected", sorted(expected))
        return 1
    print("OK")
    return 0


if __name__ == "__main__":
    rc = main()
    import shutil
    shutil.rmtree(os.environ["BRZ_HOME"], ignore_errors=True)
    sys.exit(rc)
