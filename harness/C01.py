"""C01 - a commit records exactly the selected working-tree state (change filtering kernels)."""
from symx.runner import Ob
from .C20 import m_is_inside_any, _validate as _validate_inside

ID = "C01"
CM = "breezy.commit"
FUNCTIONS = [CM + ":filter_excluded", CM + ":Commit._filter_iter_changes"]
STUBS = ["osutils.is_inside_any (Rust) -> the component-wise python model of C20, compared with the compiled function on "
         "all pairs of short strings before each run", "tree changes are the real breezy.tree.TreeChange records built by "
         "the harness; reporter and working tree are recording stubs"]
ASSUMPTIONS = ["paths are '/'-separated relative paths over a small alphabet",
               "reference: an excluded path (or anything inside it) contributes no change, old or new side; every other "
               "change is passed on unchanged and in order; a versioned entry whose file is missing is committed as a "
               "deletion; changes between two unversioned states are not committed"]
OUTSIDE = ["iter_changes itself (dirstate / inventory comparison, compiled), the commit builder and the recording of the "
           "changes, nested trees", "more changes / exclusions than the bound"]

ALPHA = "a./"          # '.' sorts just below '/': names such as 'a.' fall between the directory 'a' and its children 'a/...'


def _no_dot_component(p):
    return not any(c == "." for c in p.split("/"))


def setup(ls):
    _validate_inside()
    # the same comparison over this harness's alphabet; '.' path components (never part of a tree-relative path, and
    # normalised away by the compiled function) are excluded here and assumed away in the obligation
    import itertools
    from breezy import osutils
    strs = ["".join(t) for n in range(0, 4) for t in itertools.product(ALPHA, repeat=n)]
    strs = [s for s in strs if _no_dot_component(s)]
    for d in strs:
        for f in strs:
            if bool(osutils.is_inside_any([d], f)) != bool(m_is_inside_any([d], f)):
                raise RuntimeError("is_inside_any model differs on %r, %r" % (d, f))
    from .C20 import m_is_inside, m_is_inside_or_parent_of_any
    m = ls.modules[CM]
    m.is_inside_any = m_is_inside_any
    # the other compiled containment helpers, in case the code under test uses them (models validated in C20's set-up)
    m.is_inside = m_is_inside
    m.is_inside_or_parent_of_any = m_is_inside_or_parent_of_any


def _tree_path(cx, name, lp):
    p = cx.str(name, cx.choose(name + ".len", 1, lp), ALPHA)
    for comp in p.split("/"):
        cx.assume(comp != ".")
    return p


class _Change:
    def __init__(self, path):
        self.path = path


def ob_exclude(cx):
    C = cx.mod(CM)
    lp = cx.p("lpath")
    nch = cx.choose("nchanges", 0, cx.p("nchanges"))
    changes = []
    for i in range(nch):
        shape = cx.pick("shape%d" % i, ["modified", "added", "removed", "renamed"])
        old = None if shape == "added" else _tree_path(cx, "old%d" % i, lp)
        if shape == "modified":
            new = old
        elif shape == "removed":
            new = None
        else:
            new = _tree_path(cx, "new%d" % i, lp)
        changes.append(_Change((old, new)))
    nex = cx.choose("nexclude", 0, cx.p("nexclude"))
    exclude = [_tree_path(cx, "exclude%d" % i, lp) for i in range(nex)]
    # as Commit builds it: sorted(minimum_path_selection(exclude)) - ascending, and no entry inside another one
    for i in range(nex):
        for j in range(i):
            cx.assume(exclude[j] < exclude[i])
            if cx.truth(m_is_inside_any([exclude[j]], exclude[i])) or cx.truth(m_is_inside_any([exclude[i]], exclude[j])):
                cx.assume(False)
    got = list(C.filter_excluded(iter(changes), list(exclude)))
    want = []
    for c in changes:
        inside = False
        for p in c.path:
            if p is not None and cx.truth(m_is_inside_any(exclude, p)):
                inside = True
        if not inside:
            want.append(c)
    cx.require(len(got) == len(want), "%d changes pass the exclusion filter, %d should" % (len(got), len(want)))
    for g, w in zip(got, want):
        cx.require(g is w, "the exclusion filter reordered or replaced a change")
    if len(want) < nch:
        cx.cover("excluded")
    if want:
        cx.cover("kept")
    cx.observe("kept", [changes.index(g) for g in got])


def ob_filter_changes(cx):
    C = cx.mod(CM)
    TC = cx.real("breezy.tree").TreeChange
    n = cx.choose("nchanges", 0, cx.p("nchanges"))
    changes = []
    for i in range(n):
        old_versioned = bool(cx.choose("old_versioned%d" % i, 0, 1))
        new_versioned = bool(cx.choose("new_versioned%d" % i, 0, 1))
        old_kind = cx.pick("old_kind%d" % i, ["file", "directory", "symlink"]) if old_versioned else None
        new_kind = cx.pick("new_kind%d" % i, ["file", "directory", None]) if new_versioned else cx.pick("unv_kind%d" % i, ["file", None])
        path = "p%d" % i
        changes.append(TC((path if old_versioned else None, path), True, (old_versioned, new_versioned),
                          (path if old_versioned else None, path), (old_kind, new_kind), (False, False)))
    verbose = bool(cx.choose("verbose", 0, 1))
    symlinks = bool(cx.choose("supports_symlinks", 0, 1))
    log = []

    class Reporter:
        def is_verbose(self):
            return verbose

        def __getattr__(self, name):
            return lambda *a, **k: log.append((name,) + a)

    class WT:
        supports_symlinks = staticmethod(lambda: symlinks)

        class branch:
            class repository:
                class _format:
                    rich_root_data = True
    cm = object.__new__(C.Commit)
    cm.reporter, cm.work_tree, cm.recursive = Reporter(), WT, None
    cm._next_progress_entry = lambda: None
    got = list(cm._filter_iter_changes(iter(changes)))
    want = []
    deleted = []
    for c in changes:
        missing = c.kind[1] is None and c.versioned[1]
        if missing:
            if c.kind[0] == "symlink" and not symlinks:
                continue
            deleted.append(c.path[1])
            if c.versioned[0]:
                want.append(("deletion", c))
            # else: added and already gone again - nothing to commit (it is still unversioned afterwards)
        elif c.versioned[0] or c.versioned[1]:
            want.append(("same", c))
    cx.require(len(got) == len(want), "%d changes are committed, %d should be" % (len(got), len(want)))
    for g, (how, c) in zip(got, want):
        if how == "same":
            cx.require(g is c, "a change was replaced or reordered")
        else:
            cx.require(g.path == (c.path[0], None) and g.versioned[1] in (None, False) and g.kind == (c.kind[0], None),
                       "a versioned entry whose file is missing is not committed as a deletion")
            cx.cover("missing_file")
    cx.require(cm.deleted_paths == deleted, "deleted_paths is %r, the missing versioned files are %r" % (cm.deleted_paths, deleted))
    if len(want) < n:
        cx.cover("dropped")
    cx.observe("n", len(got))


def obligations(tier):
    q = tier == "quick"
    p = dict(nchanges=1, nexclude=2, lpath=3)
    to = 900 if q else 7200
    return [
        Ob("exclude_filter", ob_exclude, [CM], p, to, 2 if q else 1, ["excluded", "kept"], setup=setup,
           bounds="<= %(nchanges)d changes (modified / added / removed / renamed) with symbolic paths of <= %(lpath)d chars over "
                  "'ab/', <= %(nexclude)d excluded path(s)" % p),
        Ob("filter_iter_changes", ob_filter_changes, [CM], dict(nchanges=2 if q else 3), to, 1, ["missing_file", "dropped"],
           bounds="<= %d changes with every combination of versioned flags and kinds, verbose or not, with / without symlink "
                  "support" % (2 if q else 3)),
    ]
