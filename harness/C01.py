"""C01 - a commit records exactly the selected working-tree state (change filtering kernels)."""
from symx.runner import Ob
from .C20 import m_is_inside_any, _validate as _validate_inside

ID = "C01"
CM = "breezy.commit"
FUNCTIONS = [CM + ":filter_excluded", CM + ":Commit._filter_iter_changes", CM + ":Commit.commit",
             CM + ":Commit._update_builder_with_changes", CM + ":Commit._check_pointless", CM + ":Commit._update_branches"]
STUBS = ["osutils.is_inside_any (Rust) -> the component-wise python model of C20, compared with the compiled function on "
         "all pairs of short strings before each run", "tree changes are the real breezy.tree.TreeChange records built by "
         "the harness; reporter and working tree are recording stubs"]
ASSUMPTIONS = ["paths are '/'-separated relative paths over a small alphabet",
               "reference: an excluded path (or anything inside it) contributes no change, old or new side; every other "
               "change is passed on unchanged and in order; a versioned entry whose file is missing is committed as a "
               "deletion; changes between two unversioned states are not committed"]
OUTSIDE = ["iter_changes itself (dirstate / inventory comparison, compiled), the commit builder's recording of the changes "
           "(inventory delta, texts), nested trees, bound branches in the pipeline obligation (C23)",
           "failures after builder.commit has stored the revision (branch / working tree update failing: the code has no "
           "rollback for them)", "more changes / exclusions than the bound"]

ALPHA = "a./"          # '.' sorts just below '/': names such as 'a.' fall between the directory 'a' and its children 'a/...'


def _no_dot_component(p):
    return not any(c == "." for c in p.split("/"))


def setup(ls):
    _validate_inside()
    # the same comparison over this harness's alphabet; '.' path components (never part of a tree-relative path, and
    # normalised away by the compiled function) are excluded here and assumed away in the obligation
    import itertools
    from breezy import osutils
    strs = ["".join(t) for n in range(0, 4) for t in itertools.product(ALPHA, repeat=n)]
    strs = [s for s in strs if _no_dot_component(s)]
    for d in strs:
        for f in strs:
            if bool(osutils.is_inside_any([d], f)) != bool(m_is_inside_any([d], f)):
                raise RuntimeError("is_inside_any model differs on %r, %r" % (d, f))
    from .C20 import m_is_inside, m_is_inside_or_parent_of_any
    m = ls.modules[CM]
    m.is_inside_any = m_is_inside_any
    # the other compiled containment helpers, in case the code under test uses them (models validated in C20's set-up)
    m.is_inside = m_is_inside
    m.is_inside_or_parent_of_any = m_is_inside_or_parent_of_any


def _tree_path(cx, name, lp):
    p = cx.str(name, cx.choose(name + ".len", 1, lp), ALPHA)
    for comp in p.split("/"):
        cx.assume(comp != ".")
    return p


class _Change:
    def __init__(self, path):
        self.path = path


def ob_exclude(cx):
    C = cx.mod(CM)
    lp = cx.p("lpath")
    nch = cx.choose("nchanges", 0, cx.p("nchanges"))
    changes = []
    for i in range(nch):
        shape = cx.pick("shape%d" % i, ["modified", "added", "removed", "renamed"])
        old = None if shape == "added" else _tree_path(cx, "old%d" % i, lp)
        if shape == "modified":
            new = old
        elif shape == "removed":
            new = None
        else:
            new = _tree_path(cx, "new%d" % i, lp)
        changes.append(_Change((old, new)))
    nex = cx.choose("nexclude", 0, cx.p("nexclude"))
    exclude = [_tree_path(cx, "exclude%d" % i, lp) for i in range(nex)]
    # as Commit builds it: sorted(minimum_path_selection(exclude)) - ascending, and no entry inside another one
    for i in range(nex):
        for j in range(i):
            cx.assume(exclude[j] < exclude[i])
            if cx.truth(m_is_inside_any([exclude[j]], exclude[i])) or cx.truth(m_is_inside_any([exclude[i]], exclude[j])):
                cx.assume(False)
    got = list(C.filter_excluded(iter(changes), list(exclude)))
    want = []
    for c in changes:
        inside = False
        for p in c.path:
            if p is not None and cx.truth(m_is_inside_any(exclude, p)):
                inside = True
        if not inside:
            want.append(c)
    cx.require(len(got) == len(want), "%d changes pass the exclusion filter, %d should" % (len(got), len(want)))
    for g, w in zip(got, want):
        cx.require(g is w, "the exclusion filter reordered or replaced a change")
    if len(want) < nch:
        cx.cover("excluded")
    if want:
        cx.cover("kept")
    cx.observe("kept", [changes.index(g) for g in got])


def ob_filter_changes(cx):
    C = cx.mod(CM)
    TC = cx.real("breezy.tree").TreeChange
    n = cx.choose("nchanges", 0, cx.p("nchanges"))
    changes = []
    for i in range(n):
        old_versioned = bool(cx.choose("old_versioned%d" % i, 0, 1))
        new_versioned = bool(cx.choose("new_versioned%d" % i, 0, 1))
        old_kind = cx.pick("old_kind%d" % i, ["file", "directory", "symlink"]) if old_versioned else None
        new_kind = cx.pick("new_kind%d" % i, ["file", "directory", None]) if new_versioned else cx.pick("unv_kind%d" % i, ["file", None])
        path = "p%d" % i
        changes.append(TC((path if old_versioned else None, path), True, (old_versioned, new_versioned),
                          (path if old_versioned else None, path), (old_kind, new_kind), (False, False)))
    verbose = bool(cx.choose("verbose", 0, 1))
    symlinks = bool(cx.choose("supports_symlinks", 0, 1))
    log = []

    class Reporter:
        def is_verbose(self):
            return verbose

        def __getattr__(self, name):
            return lambda *a, **k: log.append((name,) + a)

    class WT:
        supports_symlinks = staticmethod(lambda: symlinks)

        class branch:
            class repository:
                class _format:
                    rich_root_data = True
    cm = object.__new__(C.Commit)
    cm.reporter, cm.work_tree, cm.recursive = Reporter(), WT, None
    cm._next_progress_entry = lambda: None
    got = list(cm._filter_iter_changes(iter(changes)))
    want = []
    deleted = []
    for c in changes:
        missing = c.kind[1] is None and c.versioned[1]
        if missing:
            if c.kind[0] == "symlink" and not symlinks:
                continue
            deleted.append(c.path[1])
            if c.versioned[0]:
                want.append(("deletion", c))
            # else: added and already gone again - nothing to commit (it is still unversioned afterwards)
        elif c.versioned[0] or c.versioned[1]:
            want.append(("same", c))
    cx.require(len(got) == len(want), "%d changes are committed, %d should be" % (len(got), len(want)))
    for g, (how, c) in zip(got, want):
        if how == "same":
            cx.require(g is c, "a change was replaced or reordered")
        else:
            cx.require(g.path == (c.path[0], None) and g.versioned[1] in (None, False) and g.kind == (c.kind[0], None),
                       "a versioned entry whose file is missing is not committed as a deletion")
            cx.cover("missing_file")
    cx.require(cm.deleted_paths == deleted, "deleted_paths is %r, the missing versioned files are %r" % (cm.deleted_paths, deleted))
    if len(want) < n:
        cx.cover("dropped")
    cx.observe("n", len(got))


class _Boom(Exception):
    pass


PENDING = ["a", "a/b", "c"]                   # files with pending changes in the working tree


def ob_pipeline(cx):
    """The real Commit.commit() from its first line to its return over recording stand-ins for tree, branch and commit
    builder.  Symbolic: the form of the selection (None / empty / lists), of the exclusion, pending merge or not, pointless
    commits allowed or not, and the STEP AT WHICH AN EXCEPTION IS RAISED (a symbolic index over the calls the method makes
    up to and including builder.commit).  The builder must be handed exactly the selected, not excluded changes; after
    success the steps have run in the documented order; after a failure the write group is aborted and the tip untouched."""
    import contextlib
    C = cx.mod(CM)
    T = cx.truth
    TC = cx.real("breezy.tree").TreeChange
    sel = cx.pick("selection", [None, [], ["a"], ["a/b"], ["a", "a/b"], ["c", "a"]])
    exc = cx.pick("exclude", [None, [], ["a/b"], ["a"]])
    nparents = cx.choose("nparents", 1, 2)
    allow_pointless = bool(cx.choose("allow_pointless", 0, 1))
    fault = cx.int("fault_at_step", 0, 40)        # 0: no failure
    log = []
    state = {"step": 0, "tip": (3, b"old-tip"), "locks": 0, "basis": b"old-tip", "fault_done": False}

    def step(name):
        state["step"] += 1
        if not state["fault_done"] and not state.get("committed") and T(fault == state["step"]):
            state["fault_done"] = True
            log.append(("FAULT", name))
            raise _Boom(name)
        log.append((name,))

    def inside(p, d):
        return p == d or p.startswith(d + "/")

    class Lock:
        def __init__(self, what):
            self.what = what

        def __enter__(self):
            state["locks"] += 1
            return self

        def __exit__(self, *a):
            state["locks"] -= 1
            return False

    class Builder:
        updates_branch = False

        def __init__(self):
            self.recorded = None
            self.aborted = 0

        def record_iter_changes(self, tree, basis_revid, changes):
            step("builder.record_iter_changes")
            self.recorded = [c.path[1] for c in changes]
            return iter(())

        def any_changes(self):
            return bool(self.recorded)

        def finish_inventory(self):
            step("builder.finish_inventory")

        def commit(self, message):
            step("builder.commit")
            state["committed"] = True
            log.append(("revision_stored", message))
            return b"new-rev"

        def abort(self):
            self.aborted += 1
            log.append(("builder.abort",))

        def get_basis_delta(self):
            return ["delta"]
    builders = []

    class Repo:
        supports_rich_root = staticmethod(lambda: True)
        has_revision = staticmethod(lambda r: True)

        class _format:
            rich_root_data = True

    class Fmt:
        stores_revno = staticmethod(lambda: True)

    class Branch:
        repository = Repo
        _format = Fmt
        base = "branch/"

        @staticmethod
        def get_bound_location():
            return None

        @staticmethod
        def get_master_branch(possible_transports=None):
            return None

        @staticmethod
        def last_revision_info():
            return state["tip"]

        @staticmethod
        def last_revision():
            return state["tip"][1]

        @staticmethod
        def get_commit_builder(parents, config_stack, timestamp, timezone, committer, revprops, rev_id, lossy=False):
            step("branch.get_commit_builder")
            b = Builder()
            builders.append(b)
            return b

        @staticmethod
        def set_last_revision_info(revno, revid):
            step("branch.set_last_revision_info")
            state["tip"] = (revno, revid)

    class Basis:
        @staticmethod
        def lock_read():
            return Lock("basis")

    class Tree:
        branch = Branch

        @staticmethod
        def lock_write():
            step("tree.lock_write")
            return Lock("tree")

        @staticmethod
        def get_parent_ids():
            return [b"old-tip"] if nparents == 1 else [b"old-tip", b"merged"]

        @staticmethod
        def last_revision():
            return b"old-tip"

        @staticmethod
        def basis_tree():
            step("tree.basis_tree")
            return Basis

        @staticmethod
        def conflicts():
            return []

        @staticmethod
        def supports_symlinks():
            return True

        @staticmethod
        def iter_changes(basis, specific_files=None):
            step("tree.iter_changes")
            log.append(("selection", None if specific_files is None else list(specific_files)))
            out = []
            for p in PENDING:
                if specific_files is None or any(inside(p, s) for s in specific_files):
                    out.append(TC((p, p), True, (True, True), (p, p), ("file", "file"), (False, False)))
            return iter(out)

        @staticmethod
        def _observed_sha1(path, h):
            pass

        @staticmethod
        def unversion(paths):
            step("tree.unversion")

        @staticmethod
        def update_basis_by_delta(revid, delta):
            step("tree.update_basis_by_delta")
            state["basis"] = revid

    class Reporter:
        def is_verbose(self):
            return False

        def __getattr__(self, name):
            return lambda *a, **k: log.append(("reporter." + name,))

    class Config:
        @staticmethod
        def get(name):
            return None if name == "post_commit" else False

    class PB:
        def finished(self):
            pass

        def update(self, *a, **k):
            pass

    class UI:
        class ui_factory:
            nested_progress_bar = staticmethod(lambda: PB())
    C.ui = UI
    cm = C.Commit(reporter=Reporter(), config_stack=Config)
    outcome = "ok"
    try:
        got_rev = cm.commit(message="msg", specific_files=sel, exclude=exc, allow_pointless=allow_pointless,
                            working_tree=Tree)
    except _Boom:
        outcome = "fault"
    except C.PointlessCommit:
        outcome = "pointless"
    except C.CannotCommitSelectedFileMerge:
        outcome = "selected_merge"
    names = [e[0] for e in log]
    cx.require(state["locks"] == 0, "commit() returned with %d lock(s) still held" % state["locks"])
    # ---- reference
    if nparents > 1 and (sel is not None or exc):
        want = "selected_merge"
    else:
        expected = [p for p in PENDING if (sel is None or any(inside(p, s) for s in sel))
                    and not any(inside(p, e) for e in (exc or []))]
        want = "pointless" if (not expected and not allow_pointless and nparents == 1) else "ok"
    if state["fault_done"]:
        want = "fault"
    cx.require(outcome == want, "commit ended with %s, expected %s" % (outcome, want))
    if want != "ok":
        cx.require(state["tip"] == (3, b"old-tip") and state["basis"] == b"old-tip",
                   "a commit that raised moved the branch tip / the tree's basis")
        cx.require("revision_stored" not in names, "a commit that raised stored its revision")
        for b in builders:
            cx.require(b.aborted == 1, "the write group of a commit that raised was aborted %d times" % b.aborted)
        cx.cover(want)
        if want == "fault" and builders:
            cx.cover("fault_inside_write_group")
        cx.observe("outcome", outcome)
        return
    b = builders[0]
    sel_seen = [e[1] for e in log if e[0] == "selection"]
    cx.require(len(sel_seen) == 1, "the tree was asked for its changes %d times" % len(sel_seen))
    # the selection handed to the tree must MEAN what the caller's selection means (order and redundancy are free)
    for p in PENDING + ["b", "a/b/c", "ab"]:
        by_caller = sel is None or any(inside(p, s) for s in sel)
        by_commit = sel_seen[0] is None or any(inside(p, s) for s in sel_seen[0])
        cx.require(by_caller == by_commit, "the tree was asked for changes of %r, the caller selected %r" % (sel_seen[0], sel))
    cx.require(b.recorded == expected, "the builder recorded %r, selected and not excluded are %r" % (b.recorded, expected))
    cx.require(b.aborted == 0, "a successful commit aborted its write group")
    order = [n for n in names if n in ("builder.record_iter_changes", "builder.finish_inventory", "builder.commit",
                                       "branch.set_last_revision_info", "tree.unversion", "tree.update_basis_by_delta",
                                       "reporter.completed")]
    cx.require(order == ["builder.record_iter_changes", "builder.finish_inventory", "builder.commit",
                         "branch.set_last_revision_info", "tree.unversion", "tree.update_basis_by_delta", "reporter.completed"],
               "steps of a successful commit out of order: %r" % (order,))
    cx.require(got_rev == b"new-rev" and state["tip"] == (4, b"new-rev") and state["basis"] == b"new-rev",
               "after the commit: returned %r, tip %r, tree basis %r" % (got_rev, state["tip"], state["basis"]))
    if sel == []:
        cx.cover("empty_selection")
    if sel and exc:
        cx.cover("selection_and_exclusion")
    cx.cover("ok")
    cx.observe("outcome", outcome)


def obligations(tier):
    q = tier == "quick"
    p = dict(nchanges=1, nexclude=2, lpath=3)
    to = 900 if q else 7200
    return [
        Ob("exclude_filter", ob_exclude, [CM], p, to, 2 if q else 1, ["excluded", "kept"], setup=setup,
           bounds="<= %(nchanges)d changes (modified / added / removed / renamed) with symbolic paths of <= %(lpath)d chars over "
                  "'ab/', <= %(nexclude)d excluded path(s)" % p),
        Ob("commit_pipeline", ob_pipeline, [CM], {}, to, 1,
           ["ok", "pointless", "selected_merge", "fault", "fault_inside_write_group", "empty_selection", "selection_and_exclusion"],
           bounds="three files with pending changes (a, a/b, c); selection None / [] / four lists, exclusion None / [] / two lists, "
                  "with / without a pending merge, pointless commits allowed or not; an exception raised at any one of the "
                  "calls commit() makes up to and including builder.commit (symbolic step index), or none"),
        Ob("filter_iter_changes", ob_filter_changes, [CM], dict(nchanges=2 if q else 3), to, 1, ["missing_file", "dropped"],
           bounds="<= %d changes with every combination of versioned flags and kinds, verbose or not, with / without symlink "
                  "support" % (2 if q else 3)),
    ]
