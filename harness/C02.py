"""C02 - per-file history and last-changed revisions (the commit builder's decision for one file)."""
from symx.runner import Ob

ID = "C02"
VF = "breezy.bzr.vf_repository"
FUNCTIONS = [VF + ":VersionedFileCommitBuilder.record_iter_changes", VF + ":VersionedFileCommitBuilder._heads"]
STUBS = ["the parent inventories hold one entry for the file (or none); entries are python records instead of the compiled "
         "bzrformats entry classes (their fields are symbolic); make_inventory_delta (compiled) between the second parent's "
         "inventory and the basis inventory is computed by the harness (an entry is reported iff it differs in any field, "
         "the last-changed revision included); the per-file graph answers heads() from a symbolic ancestry relation between "
         "the parents' versions; _add_file_to_weave records its parents and raises ExistingContent when the content hash "
         "equals the given one, as the real one does",
         "the working tree answers content hash / link target for the kinds file, directory, symlink"]
ASSUMPTIONS = ["names, directories, content hashes are SYMBOLIC comparators (integers: the code only compares them), revision ids "
               "are symbolic ids; two parent entries with the same last-changed revision are the same entry; iter_changes "
               "against the basis reports the file iff the working tree differs from the basis entry in content, name, "
               "directory, kind or executable bit (its contract), or the file is new / removed",
               "reference (the property's sentence): the per-file parents are the heads among the versions of the file in the "
               "revision's parents; if there is exactly one head and the tree's file is identical to that version in kind, "
               "name, directory, executable bit and content, the new inventory names that version as last-changed and "
               "stores no new text; otherwise the last-changed revision is the new revision and a text with exactly those "
               "parents is stored; a file absent from the tree gets a deletion row"]
OUTSIDE = ["tree references, more than two parents, ghosts among the parents, the root entry's housekeeping",
           "the compiled inventory / delta classes, the real per-file graph (vcsgraph), real texts and the repository "
           "consistency check (brz check) over real histories"]


class _Id(bytes):
    """symbolic revision id: compared by its symbolic number"""
    def __new__(cls, cx, n, label):
        self = bytes.__new__(cls, label.encode())
        self.cx, self.n, self.label = cx, n, label
        return self

    def __eq__(self, other):
        if isinstance(other, _Id):
            return self.cx.truth(self.n == other.n)
        return False

    def __ne__(self, other):
        return not self.__eq__(other)

    def __hash__(self):
        return 0

    def __repr__(self):
        return "<rev %s>" % self.label


class Entry:
    def __init__(self, file_id, name, parent_id, revision=None, kind="file", executable=False, text_size=None, text_sha1=None,
                 symlink_target=None):
        self.file_id, self.name, self.parent_id, self.revision, self.kind = file_id, name, parent_id, revision, kind
        self.executable, self.text_size, self.text_sha1, self.symlink_target = executable, text_size, text_sha1, symlink_target


def ob_record(cx):
    V = cx.mod(VF)
    T = cx.truth
    NoSuchId = cx.real("bzrformats.inventory").NoSuchId
    ExistingContent = cx.real("bzrformats.versionedfile").ExistingContent
    ITC = cx.real("breezy.bzr.inventorytree").InventoryTreeChange
    FID = b"fid"
    nparents = cx.choose("nparents", 1, 2)

    def version(who):
        """the file as one parent inventory has it (or None)"""
        if not cx.choose(who + "_present", 0, 1):
            return None
        kind = cx.pick(who + "_kind", ["file", "directory", "symlink"])
        return Entry(FID, cx.int(who + "_name", 0, 2), cx.int(who + "_dir", 0, 2), _Id(cx, cx.int(who + "_rev", 1, 3), who),
                     kind, bool(cx.choose(who + "_exec", 0, 1)) if kind == "file" else False,
                     7 if kind == "file" else None, cx.int(who + "_sha", 0, 2) if kind == "file" else None,
                     cx.int(who + "_target", 0, 2) if kind == "symlink" else None)

    def same(a, b, with_rev=False):
        if a is None or b is None:
            return a is b
        if a.kind != b.kind or not T(a.name == b.name) or not T(a.parent_id == b.parent_id):
            return False
        if a.kind == "file" and (a.executable != b.executable or not T(a.text_sha1 == b.text_sha1)):
            return False
        if a.kind == "symlink" and not T(a.symlink_target == b.symlink_target):
            return False
        return (a.revision == b.revision) if with_rev else True
    B = version("basis")
    O = version("other") if nparents == 2 else None
    if B is not None and O is not None:
        if B.revision == O.revision:
            cx.assume(same(B, O))              # one version of a file = one entry
    W = version("tree")                        # what the working tree has now (revision field unused)
    # per-file ancestry between the two parent versions
    rel = "same"
    if B is not None and O is not None and not (B.revision == O.revision):
        rel = cx.pick("ancestry", ["basis_older", "other_older", "unrelated"])
    new_rev = _Id(cx, 9, "new")
    weave = []

    class Inv:
        def __init__(self, e, path):
            self.e, self.path = e, path

        def get_entry(self, file_id):
            if self.e is None or file_id != FID:
                raise NoSuchId(self, file_id)
            return self.e

        def id2path(self, file_id):
            return self.path

    class RevTree:
        def __init__(self, e, path):
            self.root_inventory = Inv(e, path)
    trees = {b"P0": RevTree(B, "b-path"), b"P1": RevTree(O, "o-path")}

    class Repo:
        @staticmethod
        def revision_trees(parents):
            return [trees[p] for p in parents]

        @staticmethod
        def supports_rich_root():
            return True

    def mk_delta(new_inv, old_inv):
        n, o = new_inv.e, old_inv.e
        if same(n, o, with_rev=True):
            return []
        return [(None if o is None else old_inv.path, None if n is None else new_inv.path, FID, n)]
    V.make_inventory_delta = mk_delta
    V.InventoryFile = lambda file_id, name, parent_id, revision=None, executable=False, text_size=None, text_sha1=None: Entry(
        file_id, name, parent_id, revision, "file", executable, text_size, text_sha1)
    V.InventoryDirectory = lambda file_id, name, parent_id, revision=None: Entry(file_id, name, parent_id, revision, "directory")
    V.InventoryLink = lambda file_id, name, parent_id, revision=None, symlink_target=None: Entry(
        file_id, name, parent_id, revision, "symlink", symlink_target=symlink_target)

    def heads(revs):
        revs = list(revs)
        if len(revs) < 2:
            return set(revs)
        a, b = revs
        if rel == "unrelated":
            return {a, b}
        older = B.revision if rel == "basis_older" else O.revision
        return {r for r in revs if not (r == older)}

    class File:
        def close(self):
            pass

    class Tree:
        @staticmethod
        def id2path(file_id):
            return "w-path"

        @staticmethod
        def get_file_with_stat(path):
            return File(), None

        @staticmethod
        def get_symlink_target(path):
            return W.symlink_target

    def add_to_weave(file_id, fileobj, parents, nostore_sha, size):
        sha = W.text_sha1 if W.kind == "file" else None
        if W.kind == "file" and nostore_sha is not None and T(nostore_sha == sha):
            raise ExistingContent()
        weave.append(list(parents))
        return sha, 7
    b = object.__new__(V.VersionedFileCommitBuilder)
    b.repository = Repo
    b.parents = [b"P0", b"P1"][:nparents]
    b._basis_delta = []
    b._new_revision_id = new_rev
    b._VersionedFileCommitBuilder__heads = heads
    b._add_file_to_weave = add_to_weave
    b._require_root_change = lambda tree: None
    b._any_changes = False
    # what iter_changes (tree against basis) reports for this file
    changes = []
    if not same(B, W):
        def f(e, attr, d=None):
            return d if e is None else getattr(e, attr)
        changes.append(ITC(FID, (None if B is None else "b-path", None if W is None else "w-path"), True,
                           (B is not None, W is not None), (f(B, "parent_id"), f(W, "parent_id")), (f(B, "name"), f(W, "name")),
                           (f(B, "kind"), f(W, "kind")), (f(B, "executable"), f(W, "executable"))))
    list(b.record_iter_changes(Tree, b"P0", iter(changes)))
    rows = [r for r in b._basis_delta if r[2] == FID]
    # ---- reference
    versions = []                    # the versions of the file in the revision's parents, basis first
    for e in (B, O):
        if e is not None and not any(e.revision == v.revision for v in versions):
            versions.append(e)
    if len(versions) == 2 and rel != "unrelated":
        older = B if rel == "basis_older" else O
        want_heads = [v for v in versions if v is not older]
    else:
        want_heads = list(versions)
    if W is None:
        if B is not None:
            cx.require(len(rows) == 1 and rows[0][1] is None and rows[0][3] is None, "a file removed from the tree gets no deletion row: %r" % (rows,))
            cx.cover("removed")
        else:
            cx.require(not rows, "a file that is in neither basis nor tree gets a row: %r" % (rows,))
        cx.require(not weave, "a text was stored for a file that is not in the tree")
        return
    touched = (not same(B, W)) or (O is not None and not same(O, B, with_rev=True))
    if not touched:
        cx.require(not rows and not weave, "an untouched file was recorded again")
        cx.cover("untouched")
        return
    cx.require(len(rows) == 1 and rows[0][3] is not None, "expected one inventory row for the file, got %r" % (rows,))
    ent = rows[0][3]
    cx.require(ent.kind == W.kind and T(ent.name == W.name) and T(ent.parent_id == W.parent_id), "the recorded entry does not describe the tree's file")
    carried = len(want_heads) == 1 and same(want_heads[0], W)
    if carried:
        cx.require(ent.revision == want_heads[0].revision,
                   "the file is identical to its only per-file head %r, yet last-changed is %r" % (want_heads[0].revision, ent.revision))
        cx.require(not weave, "a new text was stored although the file is identical to its only per-file head")
        cx.cover("carried_over")
    else:
        cx.require(ent.revision == new_rev, "the file changed against its per-file head(s) %r, yet last-changed is %r" %
                   ([v.revision for v in want_heads], ent.revision))
        cx.require(len(weave) == 1, "%d texts stored for one changed file" % len(weave))
        got = weave[0]
        cx.require(len(got) == len(want_heads) and all(any(g == v.revision for v in want_heads) for g in got),
                   "per-file parents %r, the heads among the parents' versions are %r" % (got, [v.revision for v in want_heads]))
        cx.cover("new_version")
        if len(want_heads) == 2:
            cx.cover("per_file_merge")
    if W.kind == "file":
        cx.require(T(ent.text_sha1 == W.text_sha1) and ent.executable == W.executable, "recorded content / executable bit differ from the tree's")
    if W.kind == "symlink":
        cx.require(T(ent.symlink_target == W.symlink_target), "recorded symlink target differs from the tree's")
    cx.observe("revision", "carried" if carried else "new")


def obligations(tier):
    q = tier == "quick"
    return [Ob("record_one_file", ob_record, [VF], {}, 900 if q else 3600, 2 if q else 1,
               ["carried_over", "new_version", "per_file_merge", "removed", "untouched"],
               bounds="one file; one or two parent revisions; in each parent inventory and in the tree the file is absent or a "
                      "file / directory / symlink with symbolic name, directory, content hash, executable bit, link target; the parents' last-changed "
                      "revisions are symbolic ids (equal or not), their per-file ancestry is basis-older / other-older / "
                      "unrelated")]
