"""C04 - pack repositories are crash-atomic (ordering of the durable effects of commit / autopack)."""
from symx.runner import Ob
from . import packcoll as pc

ID = "C04"
PR = pc.PR
P = PR + ":RepositoryPackCollection."
FUNCTIONS = [P + "_commit_write_group", P + "allocate", P + "autopack", P + "_do_autopack", P + "plan_autopack_combinations",
             P + "_execute_pack_operations", P + "_save_pack_names", P + "_diff_pack_names",
             P + "_syncronize_pack_names_from_disk_nodes", P + "_clear_obsolete_packs", P + "_obsolete_packs",
             P + "add_pack_to_memory", P + "_remove_pack_from_memory", P + "all_packs", P + "get_pack_by_name",
             P + "pack", P + "_try_pack_operations", P + "_already_packed", PR + ":Packer.pack",
             "breezy.bzr.groupcompress_repo:GCCHKPacker._create_pack_from_packs"]
STUBS = ["packs are records (name, symbolic revision count); NewPack.finish(), the packer's copy-and-finish, the write of "
         "pack-names and the moves to obsolete_packs/ are recorded as EVENTS in the order the real code performs them; the "
         "aggregate indices only count revisions; version-file sanity checks of _commit_write_group answer 'nothing missing'"]
ASSUMPTIONS = ["a pack file and its indices become durable atomically when finish() returns (the inside of finish - write "
               "to upload/, rename into packs/ - is outside)", "the pack-names file is replaced atomically by put_file",
               "no other process writes the repository during the operation (that is C05)",
               "a crash can happen between any two recorded effects; reopening reads pack-names and the packs/ directory"]
OUTSIDE = ["crash points inside NewPack.finish (file and index writes, renames) - except that finish() must never run under the "
           "name of a pack that pack-names lists at that moment", "the copying of content by the packers (compiled "
           "groupcompress), fetch, the knit-format packers",
           "leftover files in upload/ and obsolete_packs/ (harmless by assumption)", "more packs than the bound"]


def ob_commit_crash(cx):
    env = pc.build(cx, cx.p("npacks"), cx.p("maxcount"))
    coll, events = env.coll, env.events
    new_count = cx.int("new_count", 1, cx.p("maxcount"))
    inserted = bool(cx.choose("data_inserted", 0, 1))
    coll._new_pack = pc.WritablePack("new", new_count, {"NEW"}, events, inserted)
    env.by_name["new"] = coll._new_pack
    coll._commit_write_group()
    for e in events:
        if e[0] == "finish" and e[1] not in env.by_name:
            cx.require(False, "a pack was finished that the collection does not know: %r" % (e,))
    new_content = env.old_content | ({"NEW"} if inserted else set())
    pc.check_every_crash_point(cx, env, new_content)
    cx.require(pc.listed_content(env) == new_content, "after the commit the repository does not show the new set of revisions")
    cx.require(sorted(coll._names) == sorted(nm for nm, _v in env.disk["names"]), "in-memory pack names differ from the written list")
    if any(e[0] == "obsolete" for e in events):
        cx.cover("autopacked")
    if inserted:
        cx.cover("committed")
    else:
        cx.cover("empty_group")
    cx.observe("events", [e[0] for e in events])


GC = "breezy.bzr.groupcompress_repo"


def ob_repack(cx):
    """An explicit pack() of a 2a repository: RepositoryPackCollection.pack -> _execute_pack_operations -> the real
    GCCHKPacker.pack / _create_pack_from_packs -> _save_pack_names.  The copying of content is a stand-in; SYMBOLIC are the
    number and sizes of the live packs, whether the packer wants the result at all, and whether the repacked content hashes
    to the NAME OF THE ONLY LIVE PACK (an already optimally packed repository).  Crash after every prefix of the effects."""
    env = pc.build(cx, cx.p("npacks"), cx.p("maxcount"))
    R, G = env.R, cx.mod(GC)
    coll, events = env.coll, env.events
    coll.chk_index = pc.Agg(coll)
    coll.repo._format.pack_compresses = True
    coll.ensure_loaded = lambda: None
    R.mutter = lambda *a, **k: None
    use_pack = bool(cx.choose("packer_wants_result", 0, 1))
    same_name = cx.bool("content_hashes_to_live_name")

    class PB:
        def update(self, *a, **k):
            pass

        def finished(self):
            pass

    class UI:
        class ui_factory:
            nested_progress_bar = staticmethod(lambda: PB())
    R.ui = G.ui = UI

    class NewPack(pc.WritablePack):
        def __init__(self, sources):
            total, content = 0, set()
            for p in sources:
                total = total + p.count
                content |= p.content
            pc.WritablePack.__init__(self, None, total, content, events)
            outer = self
            self.final_name = sources[0].name if (len(sources) == 1 and cx.truth(same_name)) else "repacked"

            class H:
                @staticmethod
                def hexdigest():
                    return outer.final_name
            self._hash = H

        def set_write_cache_size(self, n):
            pass

        def _check_references(self):
            pass

        def finish_content(self):
            self.name = self.final_name          # as NewPack does: the name is the hash of the content

        def finish(self, suspend=False):
            if self.name is None:
                self.finish_content()
            env.by_name.setdefault(self.name, self)
            events.append(("finish", self.name))

    class Packer(G.GCCHKPacker):
        def open_pack(self):
            return NewPack(self.packs)

        def _use_pack(self, new_pack):
            return use_pack
    for nm in ("_copy_revision_texts", "_copy_inventory_texts", "_copy_chk_texts", "_copy_text_texts", "_copy_signature_texts"):
        setattr(Packer, nm, lambda self: None)
    coll.optimising_packer_class = Packer
    n_before = len(env.packs)
    coll.pack()
    pc.check_every_crash_point(cx, env, env.old_content)
    cx.require(pc.listed_content(env) == env.old_content, "after pack() the repository does not show the same revisions")
    cx.require(sorted(coll._names) == sorted(nm for nm, _v in env.disk["names"]), "in-memory pack names differ from the written list")
    finished = [e for e in events if e[0] == "finish"]
    if finished:
        cx.require([nm for nm, _v in env.disk["names"]] == [finished[0][1]], "after a repack the list does not name exactly the new pack")
        cx.cover("repacked")
    else:
        cx.require(sorted(nm for nm, _v in env.disk["names"]) == sorted(p.name for p in env.packs), "a pack() that produced no pack changed the list")
        cx.cover("nothing_to_do")
    if n_before == 1 and cx.truth(same_name) and use_pack:
        cx.require(not finished, "an already optimally packed repository was rewritten in place")
        cx.cover("already_optimal")
    cx.observe("events", [e[0] for e in events])


def obligations(tier):
    q = tier == "quick"
    p = dict(npacks=3 if q else 4, maxcount=12 if q else 30)
    return [Ob("repack_crash_points", ob_repack, [PR, GC], p, 900 if q else 7200, 1,
               ["repacked", "nothing_to_do", "already_optimal"],
               bounds="explicit pack() of <= %(npacks)d live packs (2a packer), the new pack's name equal to the only live pack's "
                      "name or not (symbolic), packer wants the result or not; a crash after each prefix of the effects" % p),
            Ob("commit_crash_points", ob_commit_crash, [PR], p, 900 if q else 7200, 2 if q else 1,
               ["committed", "empty_group", "autopacked"],
               bounds="<= %(npacks)d existing packs with symbolic revision counts 1..%(maxcount)d, a write group with a symbolic "
                      "number of revisions (or empty); a crash after each prefix of the recorded durable effects (pack finished, "
                      "pack-names replaced, pack moved to obsolete_packs)" % p)]
