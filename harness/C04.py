"""C04 - pack repositories are crash-atomic (ordering of the durable effects of commit / autopack)."""
import contextlib
from symx.runner import Ob

ID = "C04"
PR = "breezy.bzr.pack_repo"
P = PR + ":RepositoryPackCollection."
FUNCTIONS = [P + "_commit_write_group", P + "allocate", P + "autopack", P + "_do_autopack", P + "plan_autopack_combinations",
             P + "_execute_pack_operations", P + "_save_pack_names", P + "_diff_pack_names",
             P + "_syncronize_pack_names_from_disk_nodes", P + "_clear_obsolete_packs", P + "_obsolete_packs",
             P + "add_pack_to_memory", P + "_remove_pack_from_memory", P + "all_packs", P + "get_pack_by_name"]
STUBS = ["packs are records (name, symbolic revision count); NewPack.finish(), the packer's copy-and-finish, the write of "
         "pack-names and the moves to obsolete_packs/ are recorded as EVENTS in the order the real code performs them; the "
         "aggregate indices only count revisions; version-file sanity checks of _commit_write_group answer 'nothing missing'"]
ASSUMPTIONS = ["a pack file and its indices become durable atomically when finish() returns (the inside of finish - write "
               "to upload/, rename into packs/ - is outside)", "the pack-names file is replaced atomically by put_file",
               "no other process writes the repository during the operation (that is C05)",
               "a crash can happen between any two recorded effects; reopening reads pack-names and the packs/ directory"]
OUTSIDE = ["crash points inside NewPack.finish / Packer.pack (file and index writes, renames)", "fetch and explicit pack()",
           "leftover files in upload/ and obsolete_packs/ (harmless by assumption)", "more packs than the bound"]


class _Agg:
    """aggregate index stand-in: knows which packs are in memory"""
    def __init__(self, coll):
        self.coll = coll
        self.combined_index = self

    def add_index(self, index, pack):
        pass

    def remove_index(self, index):
        pass

    def key_count(self):
        t = 0
        for p in self.coll.packs:
            t = t + p.count
        return t


class _Pack:
    def __init__(self, name, count, content, events):
        self.name, self.count, self.content = name, count, content
        self.index_sizes = [1, 1, 1, 1]
        self.revision_index = self.inventory_index = self.text_index = self.signature_index = self.chk_index = object()
        self.events = events
        outer = self

        class PT:
            @staticmethod
            def move(a, b):
                events.append(("obsolete", outer.name))

            @staticmethod
            def mkdir(d):
                pass
        self.pack_transport = PT

    def get_revision_count(self):
        return self.count

    def file_name(self):
        return self.name + ".pack"

    def __lt__(self, other):
        return self.name < other.name


def ob_commit_crash(cx):
    R = cx.mod(PR)
    E = cx.real("breezy.errors")
    coll = object.__new__(R.RepositoryPackCollection)
    events = []
    n = cx.choose("existing_packs", 0, cx.p("npacks"))
    packs = [_Pack("p%d" % i, cx.int("count%d" % i, 1, cx.p("maxcount")), {"old%d" % i}, events) for i in range(n)]
    coll.packs = []
    coll._packs_by_name = {}
    coll._names = {}
    for nm in ("revision_index", "inventory_index", "text_index", "signature_index"):
        setattr(coll, nm, _Agg(coll))
    coll.chk_index = None
    for p in packs:
        coll._names[p.name] = tuple(p.index_sizes)
        coll.add_pack_to_memory(p)
    disk = {"names": [(p.name, b"1 1 1 1") for p in packs]}
    coll._packs_at_load = set(disk["names"])
    coll._iter_disk_pack_index = lambda: [(None, (nm.encode("ascii"),), v) for nm, v in disk["names"]]

    class Builder:
        def __init__(self):
            self.nodes = []

        def add_node(self, key, value):
            self.nodes.append((key[0].decode("ascii"), value))

        def finish(self):
            return list(self.nodes)
    coll._index_builder_class = Builder

    class ObsT:
        @staticmethod
        def list_dir(d):
            return []

        @staticmethod
        def delete(f):
            pass

    class T:
        @staticmethod
        def put_file(name, f, mode=None):
            disk["names"] = list(f)
            events.append(("names", sorted(nm for nm, _v in f)))

        @staticmethod
        def clone(sub):
            return ObsT
    coll.transport = T

    class IdxT:
        @staticmethod
        def move(a, b):
            pass
    coll._index_transport = IdxT
    coll.lock_names = lambda: None
    coll._unlock_names = lambda: None

    class VF:
        @staticmethod
        def get_missing_compression_parent_keys():
            return []

    class Repo:
        revisions = inventories = texts = signatures = VF

        class controldir:
            _get_file_mode = staticmethod(lambda: None)

        class _format:
            pack_compresses = False
        is_locked = staticmethod(lambda: True)
    coll.repo = Repo
    coll._check_new_inventories = lambda: []
    coll._resumed_packs = []
    coll._restart_autopack = lambda: None
    new_count = cx.int("new_count", 1, cx.p("maxcount"))
    inserted = bool(cx.choose("data_inserted", 0, 1))

    class NewPack(_Pack):
        def data_inserted(self):
            return inserted

        def finish(self):
            events.append(("finish", self.name))

        def abort(self):
            events.append(("abort", self.name))
    coll._new_pack = NewPack("new", new_count, {"NEW"}, events)

    class Packer:
        def __init__(self, collection, to_combine, suffix, reload_func=None):
            self.collection, self.to_combine = collection, list(to_combine)
            self.new_pack = None

        def pack(self):
            total = 0
            content = set()
            for p in self.to_combine:
                total = total + p.count
                content |= p.content
            self.new_pack = _Pack("auto%d" % len([e for e in events if e[0] == "finish"]), total, content, events)
            events.append(("finish", self.new_pack.name))
            self.collection.allocate(self.new_pack)
            return self.new_pack
    coll.normal_packer_class = Packer
    by_name = {p.name: p for p in packs}
    by_name["new"] = coll._new_pack
    coll._commit_write_group()
    for p in coll.packs:
        by_name.setdefault(p.name, p)
    for e in events:
        if e[0] == "finish" and e[1] not in by_name:
            cx.require(False, "a pack was finished that the collection does not know: %r" % (e,))
    old_content = set()
    for p in packs:
        old_content |= p.content
    new_content = old_content | ({"NEW"} if inserted else set())
    # every crash point: the state after the first k effects
    for k in range(len(events) + 1):
        pre = events[:k]
        listed = sorted(p.name for p in packs)
        for e in pre:
            if e[0] == "names":
                listed = e[1]
        available = set(p.name for p in packs) | set(e[1] for e in pre if e[0] == "finish")
        gone = set(e[1] for e in pre if e[0] == "obsolete")
        for nm in listed:
            cx.require(nm in available and nm not in gone,
                       "after %d effect(s) %r the pack list names pack %s, which is %s" %
                       (k, pre, nm, "already moved to obsolete_packs" if nm in gone else "not complete on disk yet"))
        content = set()
        for nm in listed:
            content |= by_name[nm].content
        cx.require(content == old_content or content == new_content,
                   "after %d effect(s) the listed packs hold %r: neither the old nor the new set of revisions" % (k, sorted(content)))
    final = sorted(nm for nm, _v in disk["names"])
    final_content = set()
    for nm in final:
        final_content |= by_name[nm].content
    cx.require(final_content == new_content, "after the commit the repository does not show the new set of revisions")
    cx.require(sorted(coll._names) == final, "in-memory pack names differ from the written list")
    if any(e[0] == "obsolete" for e in events):
        cx.cover("autopacked")
    if inserted:
        cx.cover("committed")
    else:
        cx.cover("empty_group")
    cx.observe("events", [e[0] for e in events])


def obligations(tier):
    q = tier == "quick"
    p = dict(npacks=3 if q else 4, maxcount=12 if q else 30)
    return [Ob("commit_crash_points", ob_commit_crash, [PR], p, 900 if q else 7200, 2 if q else 1,
               ["committed", "empty_group", "autopacked"],
               bounds="<= %(npacks)d existing packs with symbolic revision counts 1..%(maxcount)d, a write group with a symbolic "
                      "number of revisions (or empty); a crash after each prefix of the recorded durable effects (pack finished, "
                      "pack-names replaced, pack moved to obsolete_packs)" % p)]
