"""C04 - pack repositories are crash-atomic (ordering of the durable effects of commit / autopack)."""
from symx.runner import Ob
from . import packcoll as pc

ID = "C04"
PR = pc.PR
P = PR + ":RepositoryPackCollection."
FUNCTIONS = [P + "_commit_write_group", P + "allocate", P + "autopack", P + "_do_autopack", P + "plan_autopack_combinations",
             P + "_execute_pack_operations", P + "_save_pack_names", P + "_diff_pack_names",
             P + "_syncronize_pack_names_from_disk_nodes", P + "_clear_obsolete_packs", P + "_obsolete_packs",
             P + "add_pack_to_memory", P + "_remove_pack_from_memory", P + "all_packs", P + "get_pack_by_name"]
STUBS = ["packs are records (name, symbolic revision count); NewPack.finish(), the packer's copy-and-finish, the write of "
         "pack-names and the moves to obsolete_packs/ are recorded as EVENTS in the order the real code performs them; the "
         "aggregate indices only count revisions; version-file sanity checks of _commit_write_group answer 'nothing missing'"]
ASSUMPTIONS = ["a pack file and its indices become durable atomically when finish() returns (the inside of finish - write "
               "to upload/, rename into packs/ - is outside)", "the pack-names file is replaced atomically by put_file",
               "no other process writes the repository during the operation (that is C05)",
               "a crash can happen between any two recorded effects; reopening reads pack-names and the packs/ directory"]
OUTSIDE = ["crash points inside NewPack.finish / Packer.pack (file and index writes, renames)", "fetch and explicit pack()",
           "leftover files in upload/ and obsolete_packs/ (harmless by assumption)", "more packs than the bound"]


def ob_commit_crash(cx):
    env = pc.build(cx, cx.p("npacks"), cx.p("maxcount"))
    coll, events = env.coll, env.events
    new_count = cx.int("new_count", 1, cx.p("maxcount"))
    inserted = bool(cx.choose("data_inserted", 0, 1))
    coll._new_pack = pc.WritablePack("new", new_count, {"NEW"}, events, inserted)
    env.by_name["new"] = coll._new_pack
    coll._commit_write_group()
    for e in events:
        if e[0] == "finish" and e[1] not in env.by_name:
            cx.require(False, "a pack was finished that the collection does not know: %r" % (e,))
    new_content = env.old_content | ({"NEW"} if inserted else set())
    pc.check_every_crash_point(cx, env, new_content)
    cx.require(pc.listed_content(env) == new_content, "after the commit the repository does not show the new set of revisions")
    cx.require(sorted(coll._names) == sorted(nm for nm, _v in env.disk["names"]), "in-memory pack names differ from the written list")
    if any(e[0] == "obsolete" for e in events):
        cx.cover("autopacked")
    if inserted:
        cx.cover("committed")
    else:
        cx.cover("empty_group")
    cx.observe("events", [e[0] for e in events])


def obligations(tier):
    q = tier == "quick"
    p = dict(npacks=3 if q else 4, maxcount=12 if q else 30)
    return [Ob("commit_crash_points", ob_commit_crash, [PR], p, 900 if q else 7200, 2 if q else 1,
               ["committed", "empty_group", "autopacked"],
               bounds="<= %(npacks)d existing packs with symbolic revision counts 1..%(maxcount)d, a write group with a symbolic "
                      "number of revisions (or empty); a crash after each prefix of the recorded durable effects (pack finished, "
                      "pack-names replaced, pack moved to obsolete_packs)" % p)]
