"""C05 - the pack list written by a process is the three-way merge of its own changes with the changes others made
since it last read the list (kernel of the concurrent-writers property)."""
from symx.containers import SymDict, SymSet
from symx.runner import Ob
from .util import s_and, s_not, s_or

ID = "C05"
PR = "breezy.bzr.pack_repo"
FUNCTIONS = [PR + ":RepositoryPackCollection._diff_pack_names", PR + ":RepositoryPackCollection._save_pack_names",
             PR + ":RepositoryPackCollection._syncronize_pack_names_from_disk_nodes",
             PR + ":RepositoryPackCollection.reload_pack_names", PR + ":RepositoryPackCollection._parse_index_sizes"]
STUBS = ["RepositoryPackCollection built with object.__new__; _iter_disk_pack_index returns the symbolic on-disk nodes; "
         "index builder, transport.put_file, names lock, pack objects (all_packs/get_pack_by_name/"
         "_remove_pack_from_memory) are recording stubs",
         "set()/dict() of the lifted module are association-list containers (elements compared with ==)"]
ASSUMPTIONS = ["pack names are short ASCII strings and index sizes small non-negative integers; equalities between the "
               "three collections are decided by the solver",
               "within one collection a pack name occurs once, and a pack name identifies its content: the same name "
               "never carries different index sizes in two collections"]
OUTSIDE = ["interleavings finer than 'another writer completes a whole update just before we take the names lock' (what the "
           "lock permits), readers racing with the renames to obsolete_packs (concurrency over real I/O)",
           "collections larger than the bound"]


def _nodes(cx, prefix, n):
    """n nodes (name: str, sizes: tuple of 2 ints) with pairwise distinct names."""
    out = []
    for i in range(n):
        name = cx.str("%s.name%d" % (prefix, i), 1, cx.p("alpha"))
        for o, _ in out:
            cx.assume(o != name)
        sizes = (cx.int("%s.s%d_0" % (prefix, i), 0, cx.p("maxsize")), cx.int("%s.s%d_1" % (prefix, i), 0, cx.p("maxsize")))
        out.append((name, sizes))
    return out


def _value(sizes):
    from .util import fmt
    return fmt(b"%d %d", tuple(sizes))


def _mk(cx):
    P = cx.mod(PR)
    c = object.__new__(P.RepositoryPackCollection)
    n = cx.p("n")
    at_load = _nodes(cx, "load", cx.choose("n_load", 0, n))
    mine = _nodes(cx, "mine", cx.choose("n_mine", 0, n))
    disk = _nodes(cx, "disk", cx.choose("n_disk", 0, n))
    mk_set = SymSet if cx.sym else set
    c._packs_at_load = mk_set((nm, _value(sz)) for nm, sz in at_load)
    names = SymDict() if cx.sym else {}
    for nm, sz in mine:
        names[nm] = sz
    c._names = names
    c._iter_disk_pack_index = lambda: [(None, (nm.encode("ascii"),), _value(sz)) for nm, sz in disk]
    _same_content(cx, [at_load, mine, disk])
    return P, c, at_load, mine, disk


def _eq(x, y):
    """node equality as a (possibly symbolic) boolean, without forking."""
    return s_and([x[0] == y[0], x[1][0] == y[1][0], x[1][1] == y[1][1]])


def _in(node, coll):
    return s_or([_eq(node, y) for y in coll])


def _has(result, node):
    nm, sz = node
    v = _value(sz)
    return s_or([s_and([nm == rn, rv == v]) for rn, rv in result])


def _same_content(cx, colls):
    """A pack name identifies its content: the same name never carries different index sizes."""
    allnodes = [x for c in colls for x in c]
    for i, x in enumerate(allnodes):
        for y in allnodes[:i]:
            cx.assume(s_or([s_not(x[0] == y[0]), s_and([x[1][0] == y[1][0], x[1][1] == y[1][1]])]))


def _iff(a, b):
    return s_or([s_and([a, b]), s_and([s_not(a), s_not(b)])])


def _check_merge(cx, result, at_load, mine, disk):
    universe = at_load + mine + disk
    result = list(result)
    for x in universe:
        want = s_or([s_and([_in(x, mine), s_not(_in(x, at_load))]),
                     s_and([_in(x, disk), s_not(s_and([_in(x, at_load), s_not(_in(x, mine))]))])])
        cx.require(_iff(_has(result, x), want),
                   "a node is in / missing from the merged pack list although the three-way merge says otherwise")
    for rn, rv in result:
        cx.require(s_or([s_and([rn == nm, rv == _value(sz)]) for nm, sz in universe]),
                   "merged pack list contains a node that is in none of the inputs")
    # a process without changes of its own adopts the on-disk list
    unchanged = s_and([_in(x, at_load) for x in mine] + [_in(x, mine) for x in at_load])
    cx.require(s_or([s_not(unchanged), len(result) == len(disk)]),
               "a process without changes of its own did not adopt the on-disk list")
    if at_load and mine and disk:
        cx.cover("all_nonempty")


def ob_diff(cx):
    P, c, at_load, mine, disk = _mk(cx)
    disk_nodes, deleted, new, orig = c._diff_pack_names()
    _check_merge(cx, list(disk_nodes), at_load, mine, disk)
    for dn, dv in deleted:
        cx.require(s_or([s_and([dn == nm, dv == _value(sz)]) for nm, sz in at_load]), "deleted node was never loaded")
    for nn, nv in new:
        cx.require(s_not(s_or([s_and([nn == nm, nv == _value(sz)]) for nm, sz in at_load])), "new node was already loaded")
    cx.require(len(list(orig)) == len(disk), "orig_disk_nodes is not the on-disk list")
    cx.observe("n", (len(list(disk_nodes)), len(list(deleted)), len(list(new))))


class _Pack:
    def __init__(self, name):
        self.name = name


def ob_save(cx):
    """_save_pack_names: what is written, what is remembered, and the resynchronised memory view."""
    P, c, at_load, mine, disk = _mk(cx)
    log = []
    _wire(cx, c, mine, log)
    # another writer may complete a whole update of the list just before we get the names lock: the list that counts is
    # the one on disk while we hold the lock
    disk_now = [disk]
    if cx.choose("other_writer_before_lock", 0, 1):
        disk2 = _nodes(cx, "disk2", cx.choose("n_disk2", 0, cx.p("n")))
        _same_content(cx, [at_load, mine, disk, disk2])
    else:
        disk2 = None

    def read_disk():
        log.append(("read_disk",))
        return [(None, (nm.encode("ascii"),), _value(sz)) for nm, sz in disk_now[0]]
    c._iter_disk_pack_index = read_disk

    def lock_names():
        log.append(("lock",))
        if disk2 is not None:
            disk_now[0] = disk2
    c.lock_names = lock_names
    newly = c._save_pack_names()
    disk = disk_now[0]
    if disk2 is not None:
        cx.cover("other_writer")
    reads = [i for i, e in enumerate(log) if e[0] == "read_disk"]
    put = [i for i, e in enumerate(log) if e[0] == "put_file"]
    cx.require(reads and put and log.index(("lock",)) < reads[0] and any(r < put[0] for r in reads),
               "the on-disk pack list that is merged was read before the names lock was taken")
    fin = [e for e in log if e[0] == "finish"]
    cx.require(len(fin) == 1, "index not built exactly once")
    written = [(k[0].decode("ascii"), v) for k, v in fin[0][1]]
    _check_merge(cx, written, at_load, mine, disk)
    order = [e[0] for e in log if e[0] in ("lock", "put_file", "unlock")]
    cx.require(order == ["lock", "put_file", "unlock"], "pack-names not written under the names lock: %r" % (order,))
    # remembered as the new baseline
    cx.require(len(list(c._packs_at_load)) == len(written), "_packs_at_load is not the written list")
    # memory view equals what was written
    cx.require(len(c._names) == len(written), "in-memory names differ from the written list")
    for nm, v in written:
        cx.require(nm in c._names, "written pack missing from memory")
        sz = c._names[nm]
        cx.require(_value(sz) == v, "in-memory sizes differ from the written value")
    for nm in newly:
        cx.require(s_or([nm == m for m, _ in mine]), "reported a pack it did not add as newly saved")
    cx.observe("nwritten", len(written))
    cx.cover("saved")


def ob_reload_then_save(cx):
    """A process with pending changes notices a concurrent change, reloads the pack list, and later saves: the list it
    writes must be the on-disk list at save time with exactly its own pending additions and deletions applied."""
    P, c, at_load, mine, disk1 = _mk(cx)
    log = []
    _wire(cx, c, mine, log)

    class Repo2(c.repo):
        @staticmethod
        def is_locked():
            return True
    c.repo = Repo2
    changed = c.reload_pack_names()
    # others change the list again before we save
    disk2 = _nodes(cx, "disk2", cx.choose("n_disk2", 0, cx.p("n")))
    _same_content(cx, [at_load, mine, disk1, disk2])
    c._iter_disk_pack_index = lambda: [(None, (nm.encode("ascii"),), _value(sz)) for nm, sz in disk2]
    c._save_pack_names()
    fin = [e for e in log if e[0] == "finish"]
    cx.require(len(fin) == 1, "index not built exactly once")
    written = [(k[0].decode("ascii"), v) for k, v in fin[0][1]]
    universe = at_load + mine + disk1 + disk2
    for x in universe:
        own_new = s_and([_in(x, mine), s_not(_in(x, at_load))])
        own_deleted = s_and([_in(x, at_load), s_not(_in(x, mine))])
        # memory after the reload = the list read at reload time with the pending changes re-applied
        in_mem = s_or([own_new, s_and([_in(x, disk1), s_not(own_deleted)])])
        # the later save is the three-way merge relative to the list that was *last read* (disk1)
        want = s_or([s_and([in_mem, s_not(_in(x, disk1))]),
                     s_and([_in(x, disk2), s_not(s_and([_in(x, disk1), s_not(in_mem)]))])])
        cx.require(_iff(_has(written, x), want),
                   "after a reload the saved pack list is not the three-way merge relative to the list read at reload time")
    for rn, rv in written:
        cx.require(s_or([s_and([rn == nm, rv == _value(sz)]) for nm, sz in universe]),
                   "saved pack list contains a node that is in none of the inputs")
    cx.observe("changed", changed)
    cx.observe("nwritten", len(written))
    cx.cover("reloaded_and_saved")


def _wire(cx, c, mine, log):
    """Recording stubs for everything _save_pack_names / reload_pack_names touch besides the node arithmetic."""
    class Builder:
        def __init__(self):
            self.nodes = []

        def add_node(self, key, value):
            self.nodes.append((key, value))

        def finish(self):
            log.append(("finish", list(self.nodes)))
            return "index-bytes"
    c._index_builder_class = Builder
    c.lock_names = lambda: log.append(("lock",))
    c._unlock_names = lambda: log.append(("unlock",))

    class T:
        def put_file(self, name, f, mode=None):
            log.append(("put_file", name, f))
    c.transport = T()

    class Repo:
        class controldir:
            @staticmethod
            def _get_file_mode():
                return None
    c.repo = Repo
    packs = {nm: _Pack(nm) for nm, _ in mine} if not cx.sym else None
    sym_packs = [(_Pack(nm)) for nm, _ in mine]
    c.all_packs = lambda: list(sym_packs)

    def remove(pack):
        log.append(("remove", pack.name))
        c._names.pop(pack.name)
        for i, p in enumerate(sym_packs):
            if p is pack:
                del sym_packs[i]
                break
    c._remove_pack_from_memory = remove

    def get_pack_by_name(name):
        for p in sym_packs:
            if cx.truth(p.name == name):
                return p
        p = _Pack(name)
        sym_packs.append(p)
        return p
    c.get_pack_by_name = get_pack_by_name


def ob_obsolete(cx):
    """_save_pack_names(clear_obsolete_packs=True, obsolete_packs=...) as autopack / pack call it: the new pack list is
    written BEFORE any pack is moved away, the obsolete_packs directory is emptied except for files of the packs that are
    being obsoleted now, and exactly the packs to obsolete that are not there yet are moved (pack file and indices)."""
    P, c, at_load, mine, disk = _mk(cx)
    log = []
    _wire(cx, c, mine, log)
    EXTS = ["pack", "rix", "iix", "tmp"]
    nfiles = cx.choose("n_old_files", 0, cx.p("nfiles"))
    old_files = []
    for i in range(nfiles):
        stem = cx.str("old%d.stem" % i, 1, "xyz")
        ext = cx.pick("old%d.ext" % i, EXTS)
        for s, e, _f in old_files:
            if e == ext:
                cx.assume(s != stem)
        old_files.append((stem, ext, stem + "." + ext))
    nobs = cx.choose("n_obsolete", 0, 2)
    obsolete = []
    for i in range(nobs):
        nm = cx.str("obs%d.name" % i, 1, "xyz")
        for o in obsolete:
            cx.assume(o.name != nm)
        obsolete.append(_MovablePack(nm, log))
    listing_fails = bool(cx.choose("obsolete_dir_missing", 0, 1)) and not old_files

    class ObsT:
        @staticmethod
        def list_dir(d):
            if listing_fails:
                raise cx.real("breezy.transport").NoSuchFile("obsolete_packs")
            return [f for _s, _e, f in old_files]

        @staticmethod
        def delete(f):
            log.append(("delete_obsolete", f))
    c.transport.clone = lambda sub: ObsT

    class IdxT:
        @staticmethod
        def move(a, b):
            log.append(("move_index", a, b))
    c._index_transport = IdxT
    c.chk_index = None
    c._save_pack_names(clear_obsolete_packs=True, obsolete_packs=list(obsolete))
    # 1. crash safety: nothing is deleted or moved before the new list is on disk
    kinds = [e[0] for e in log]
    cx.require("put_file" in kinds, "pack list not written")
    first_destructive = min([i for i, k in enumerate(kinds) if k in ("delete_obsolete", "move_pack", "move_index")] or [len(kinds)])
    cx.require(kinds.index("put_file") < first_destructive, "a pack was moved or deleted before the new pack list was written")
    # 2. the old obsolete directory: files of packs being obsoleted now are preserved, everything else is deleted
    deleted = [e[1] for e in log if e[0] == "delete_obsolete"]
    for stem, ext, fname in old_files:
        keep = any(cx.truth(stem == o.name) for o in obsolete)
        was_deleted = any(d is fname for d in deleted)
        cx.require(was_deleted == (not keep), "file %d of obsolete_packs was %s although its pack is %sbeing obsoleted now" %
                   (old_files.index((stem, ext, fname)), "deleted" if was_deleted else "kept", "" if keep else "not "))
    # 3. exactly the packs that are not in obsolete_packs yet are moved there, with their indices
    for o in obsolete:
        already = any(ext == "pack" and cx.truth(stem == o.name) for stem, ext, _f in old_files)
        moved = [e for e in log if e[0] == "move_pack" and e[1] is o]
        cx.require(len(moved) == (0 if already else 1), "pack to obsolete was moved %d time(s), already there: %r" % (len(moved), already))
        if not already:
            idx = [e for e in log if e[0] == "move_index" and cx.truth(e[1][:1] == o.name)]
            cx.require(len(idx) == 4, "indices of an obsoleted pack not moved with it (%d)" % len(idx))
            cx.cover("moved")
        else:
            cx.cover("already_obsolete")
    if deleted:
        cx.cover("cleared")
    cx.observe("ops", [e[0] for e in log if e[0] in ("put_file", "delete_obsolete", "move_pack", "move_index")])


class _MovablePack:
    def __init__(self, name, log):
        self.name = name
        outer = self

        class PT:
            @staticmethod
            def move(a, b):
                log.append(("move_pack", outer, a, b))

            @staticmethod
            def mkdir(d):
                pass
        self.pack_transport = PT

    def file_name(self):
        return self.name + ".pack"


def obligations(tier):
    q = tier == "quick"
    p = dict(n=2, alpha="abc", maxsize=9)
    p2 = dict(n=2 if q else 2, alpha="ab", maxsize=9)
    to = 900 if q else 7200
    lift = [(PR, dict(symdict=True))]
    if not q:
        p["n"] = 3
        p["maxsize"] = 9
    return [
        Ob("diff_pack_names", ob_diff, lift, p, to, 4 if q else 10, ["all_nonempty"],
           bounds="<= %(n)d nodes in each of at-load / in-memory / on-disk; names 1 char over %(alpha)r; two index sizes "
                  "0..%(maxsize)d each" % p),
        Ob("save_pack_names", ob_save, lift, p2, to, 4 if q else 10, ["saved", "other_writer"],
           bounds="<= %(n)d nodes per collection; names over %(alpha)r; sizes 0..%(maxsize)d" % p2),
        Ob("reload_then_save", ob_reload_then_save, lift, dict(n=2, alpha="ab" if q else "abc", maxsize=9), to, 4 if q else 10,
           ["reloaded_and_saved"],
           bounds="reload_pack_names with pending changes, then others change the list again, then _save_pack_names: "
                  "<= 2 nodes in each of at-load / in-memory / disk-at-reload / disk-at-save"),
        Ob("obsolete_packs", ob_obsolete, lift, dict(n=0 if q else 1, alpha="ab", maxsize=1, nfiles=2), to, 2 if q else 1,
           ["moved", "already_obsolete", "cleared"],
           bounds="<= 2 files in obsolete_packs (symbolic 1-char stems over 'xyz', extensions pack/rix/iix/tmp), <= 2 packs "
                  "to obsolete with symbolic names, obsolete_packs directory present or missing; %s" %
                  ("empty pack collections" if q else "<= 1 node per collection")),
    ]
