"""C06 - aborted and suspended write groups have no visible effect until committed (pack collection kernel)."""
from symx.runner import Ob
from . import packcoll as pc

ID = "C06"
PR = pc.PR
P = PR + ":RepositoryPackCollection."
GC = "breezy.bzr.groupcompress_repo"
FUNCTIONS = [P + "_abort_write_group", P + "_suspend_write_group", P + "_resume_write_group", P + "_commit_write_group",
             P + "_remove_resumed_pack_indices", P + "allocate", P + "_save_pack_names", P + "autopack", P + "_do_autopack",
             P + "_execute_pack_operations", GC + ":GCRepositoryPackCollection._check_new_inventories",
             GC + ":_build_interesting_key_sets", GC + ":_filter_text_keys"]
STUBS = ["same record packs / event log as C04 (harness/packcoll.py); _resume_pack (opens index files of the suspended pack "
         "in upload/) is replaced by a stand-in that re-creates the suspended record pack from its token",
         "the sanity checks of _commit_write_group (missing compression parents, _check_new_inventories) answer from a "
         "symbolic choice in the life-cycle obligations; in check_new_inventories the real _check_new_inventories runs over "
         "index stubs answering from a table of symbolic revision ids, and chk_map.iter_interesting_nodes (compiled CHK maps) "
         "is a model of its contract (leaves reachable from the interesting roots and not from the uninteresting ones)"]
ASSUMPTIONS = ["as C04: finishing a pack and replacing pack-names are atomic effects", "a suspended pack stays in upload/ "
               "under its token until it is resumed"]
OUTSIDE = ["the content of packs and indices (record packs only carry revision tokens)", "RemoteRepository write groups, "
           "token validation by _resume_pack, the repository-level wrappers (start/abort/commit_write_group state machine)"]


def _group(cx, env, name, token_content):
    count = cx.int(name + "_count", 1, cx.p("maxcount"))
    inserted = bool(cx.choose(name + "_inserted", 0, 1))
    p = pc.WritablePack(name, count, {token_content}, env.events, inserted)
    env.by_name[name] = p
    env.coll._new_pack = p
    return p


def ob_abort(cx):
    env = pc.build(cx, cx.p("npacks"), cx.p("maxcount"))
    coll = env.coll
    new = _group(cx, env, "new", "NEW")
    names_before = list(env.disk["names"])
    memory_before = sorted(coll._names)
    coll._abort_write_group()
    cx.require(not [e for e in env.events if e[0] in ("names", "finish", "obsolete")],
               "aborting a write group wrote pack-names, finished or moved a pack: %r" % (env.events,))
    cx.require(("abort", "new") in env.events, "the group's pack was not aborted")
    cx.require(env.disk["names"] == names_before and sorted(coll._names) == memory_before and coll._new_pack is None,
               "aborting a write group changed the pack list")
    cx.require(all(p.name != "new" for p in coll.packs), "the aborted pack stayed in memory")
    cx.require(pc.listed_content(env) == env.old_content, "visible revisions changed by an aborted write group")
    cx.cover("aborted")
    cx.observe("events", list(env.events))


def ob_suspend_resume(cx):
    env = pc.build(cx, cx.p("npacks"), cx.p("maxcount"))
    coll, events = env.coll, env.events
    suspended = {}

    def resume_pack(token):
        src = suspended[token]
        p = pc.WritablePack(token, src.count, src.content, events, True)
        env.by_name[token] = p
        coll.add_pack_to_memory(p)
        coll._resumed_packs.append(p)
        return p
    coll._resume_pack = resume_pack

    def new_session():
        """the next operation happens on a freshly opened repository: only the listed packs are in memory"""
        for p in list(coll.packs):
            if p.name not in coll._names:
                coll.packs.remove(p)
                coll._packs_by_name.pop(p.name)
    # one or two rounds of: (resume what was suspended before,) write some more, suspend
    tokens = []
    want_suspended = []
    rounds = cx.choose("suspend_rounds", 1, 2)
    groups = []
    for r in range(rounds):
        if tokens:
            coll._resume_write_group(tokens)
        name = "aaaa" if r == 0 else "bbbb"
        g = _group(cx, env, name, "NEW" + name)
        groups.append(g)
        tokens = coll._suspend_write_group()
        if g.inserted:
            suspended[name] = g
            want_suspended.append(name)
        cx.require(not [e for e in events if e[0] in ("names", "finish", "obsolete")],
                   "suspending a write group made something visible: %r" % (events,))
        cx.require(sorted(tokens) == sorted(want_suspended), "suspend returned tokens %r, suspended packs are %r" % (tokens, want_suspended))
        cx.require(coll._new_pack is None and pc.listed_content(env) == env.old_content, "suspended data is visible")
        new_session()
    first = groups[0]
    outcome = cx.pick("then", ["commit", "abort"])
    coll._resume_write_group(tokens)
    second = _group(cx, env, "new2", "NEW2")
    if outcome == "abort":
        coll._abort_write_group()
        cx.require(not [e for e in events if e[0] in ("names", "finish", "obsolete")], "aborting the resumed group made something visible")
        cx.require(pc.listed_content(env) == env.old_content, "visible revisions changed by an aborted (resumed) write group")
        cx.require(not coll._resumed_packs and not [n for n in ("aaaa", "bbbb", "new2") if n in coll._names],
                   "aborted packs stayed in the collection's name list")
        cx.cover("resumed_then_aborted")
    else:
        coll._commit_write_group()
        want = set(env.old_content)
        for g in groups:
            if g.inserted:
                want |= g.content
        if second.inserted:
            want |= {"NEW2"}
        # the same as committing everything directly; and never a state that shows only part of it
        cx.require(pc.listed_content(env) == want, "resume + commit shows %r, committing directly would show %r" %
                   (sorted(pc.listed_content(env)), sorted(want)))
        pc.check_every_crash_point(cx, env, want)
        cx.cover("resumed_then_committed")
        if first.inserted and second.inserted:
            cx.cover("both_parts")
        if len(want_suspended) == 2:
            cx.cover("two_resumed_packs")
    cx.observe("events", [e[0] for e in events])


def ob_refused(cx):
    env = pc.build(cx, cx.p("npacks"), cx.p("maxcount"))
    coll = env.coll
    _group(cx, env, "new", "NEW")
    E = cx.real("bzrformats.errors")
    why = cx.pick("problem", ["missing_compression_parent", "missing_inventory"])
    if why == "missing_compression_parent":
        class VF:
            @staticmethod
            def get_missing_compression_parent_keys():
                return [(b"rev-1",)]

        class Repo(coll.repo):
            texts = VF
        coll.repo = Repo
    else:
        coll._check_new_inventories = lambda: ["rev-1 references a missing inventory"]
    names_before = list(env.disk["names"])
    raised = False
    try:
        coll._commit_write_group()
    except E.BzrCheckError:
        raised = True
    cx.require(raised, "a write group with missing data was accepted")
    cx.require(not [e for e in env.events if e[0] in ("names", "finish", "obsolete")] and env.disk["names"] == names_before,
               "a refused write group changed the repository: %r" % (env.events,))
    cx.cover("refused")
    cx.observe("events", list(env.events))


GC = "breezy.bzr.groupcompress_repo"


def ob_check_new_inventories(cx):
    """GCRepositoryPackCollection._check_new_inventories (+ _build_interesting_key_sets, _filter_text_keys): which of the
    write group's inventories count as NEW (their texts must be present) and which as parents only.  The new revisions and
    their parents are symbolic one-byte ids: the solver decides whether a new revision's parent is another new revision,
    an old revision or a ghost."""
    G = cx.mod(GC)
    T = cx.truth
    n = cx.choose("nrevs", 1, cx.p("nrevs"))
    revs, parent, inv_present, text_present = [], [], [], []
    for i in range(n):
        r = cx.bytes("rev%d" % i, 1, b"pqr")
        for o in revs:
            cx.assume(o[0] < r[0])                       # distinct, listed parents-first
        par = cx.bytes("parent%d" % i, 1, b"GOpqr")      # G: a ghost (no inventory anywhere), O: an old revision
        cx.assume(par[0] < r[0])
        cx.assume(T(par == b"G") or T(par == b"O") or any(T(par == o) for o in revs))
        revs.append(r)
        parent.append(par)
        inv_present.append(bool(cx.choose("inv_present%d" % i, 0, 1)))
        text_present.append(bool(cx.choose("text_present%d" % i, 0, 1)))

    def idx(rev):
        for i, r in enumerate(revs):
            if T(r == rev):
                return i
        return None

    def has_inventory(rev):
        i = idx(rev)
        if i is not None:
            return inv_present[i]
        return T(rev == b"O")

    def texts_of(rev):
        """text keys referenced by the inventory of rev: its own new text and everything its parent's inventory has"""
        i = idx(rev)
        if i is None:
            return []
        return [revs[i]] + texts_of(parent[i])

    def mapping(pairs):
        from symx.containers import SymDict
        return SymDict(pairs) if cx.sym else dict(pairs)

    class InvIndex:
        @staticmethod
        def get_parent_map(keys):
            out = []
            for key in keys:
                if has_inventory(key[-1]):
                    i = idx(key[-1])
                    out.append((key, ((parent[i],),) if i is not None else ()))
            return mapping(out)

    class AllPresent:
        @staticmethod
        def get_parent_map(keys):
            return mapping([(k, ()) for k in keys])

    class TextIndex:
        @staticmethod
        def get_parent_map(keys):
            out = []
            for key in keys:
                i = idx(key)
                if i is None or text_present[i]:
                    out.append((key, ()))
            return mapping(out)

    class KeyDeps:
        @staticmethod
        def get_new_keys():
            return [(r,) for r in revs]

    class Inv:
        def __init__(self, rev):
            self.revision_id = rev
            me = self

            class Root:
                @staticmethod
                def key():
                    return me.revision_id
            self.id_to_entry = Root
            self.parent_id_basename_to_file_id = Root

    class ChkBytes:
        _index = AllPresent
        _search_key_func = None

        @staticmethod
        def without_fallbacks():
            class Store:
                pass
            return Store()

    class Repo:
        class revisions:
            class _index:
                key_dependencies = KeyDeps

        class inventories:
            _index = InvIndex

        class texts:
            _index = TextIndex
        chk_bytes = ChkBytes

        @staticmethod
        def iter_inventories(ids, ordering):
            return [Inv(r) for r in ids]

    class ChkMap:
        @staticmethod
        def iter_interesting_nodes(store, interesting, uninteresting):
            """leaves reachable from the interesting roots and not from the uninteresting ones (iter_interesting_nodes'
            contract), over the harness's inventories: root key = revision id"""
            dull = []
            for u in uninteresting:
                dull += texts_of(u)
            for r in interesting:
                items = [(b"name", t) for t in texts_of(r) if not any(T(t == d) for d in dull)]
                yield object(), items

        @staticmethod
        def _bytes_to_text_key(b):
            return b
    G.chk_map = ChkMap

    class Self:
        repo = Repo
    problems = G.GCRepositoryPackCollection._check_new_inventories(Self)
    missing_inv = [i for i in range(n) if not inv_present[i]]
    missing_text = [i for i in range(n) if not text_present[i]]
    if missing_inv:
        cx.require(len(problems) > 0, "new revision %d has no inventory, yet the write group passes the check" % missing_inv[0])
        cx.cover("missing_inventory_refused")
    elif missing_text:
        cx.require(len(problems) > 0, "the text introduced by new revision %d is missing, yet the write group passes the "
                   "check (its inventory was treated as a parent-only inventory)" % missing_text[0])
        cx.cover("missing_text_refused")
        if any(idx(parent[j]) == missing_text[0] for j in range(n)):
            cx.cover("missing_text_of_a_new_parent")
    else:
        cx.require(len(problems) == 0, "a complete write group is refused: %r" % (problems,))
        cx.cover("complete_accepted")


def obligations(tier):
    q = tier == "quick"
    p = dict(npacks=2 if q else 3, maxcount=12 if q else 15)
    to = 900 if q else 7200
    b = "<= %(npacks)d existing packs with symbolic revision counts 1..%(maxcount)d" % p
    return [
        Ob("abort", ob_abort, [PR], p, to, 1, ["aborted"], bounds=b + "; one write group (with or without data) aborted"),
        Ob("suspend_resume", ob_suspend_resume, [PR], p, to, 2 if q else 1,
           ["resumed_then_committed", "resumed_then_aborted", "both_parts", "two_resumed_packs"],
           bounds=b + "; one or two rounds of (resume,) write, suspend - each continued on a freshly opened collection - then "
                      "a last write group (with or without further data) that resumes everything and is committed or "
                      "aborted; crash after every prefix of the effects of the final commit"),
        Ob("refused", ob_refused, [PR], p, to, 1, ["refused"], bounds=b + "; commit of a group with missing compression "
           "parents / missing inventories"),
        Ob("check_new_inventories", ob_check_new_inventories, [(GC, dict(symdict=True))], dict(nrevs=2 if q else 3), to,
           2 if q else 1, ["missing_inventory_refused", "missing_text_refused", "missing_text_of_a_new_parent", "complete_accepted"],
           bounds="a write group with <= %d new revisions with one parent each; revisions and parents are symbolic ids (a "
                  "parent is another new revision, an old revision or a ghost); each new inventory and each new text present "
                  "or missing" % (2 if q else 3)),
    ]
