"""C06 - aborted and suspended write groups have no visible effect until committed (pack collection kernel)."""
from symx.runner import Ob
from . import packcoll as pc

ID = "C06"
PR = pc.PR
P = PR + ":RepositoryPackCollection."
FUNCTIONS = [P + "_abort_write_group", P + "_suspend_write_group", P + "_resume_write_group", P + "_commit_write_group",
             P + "_remove_resumed_pack_indices", P + "allocate", P + "_save_pack_names", P + "autopack", P + "_do_autopack",
             P + "_execute_pack_operations"]
STUBS = ["same record packs / event log as C04 (harness/packcoll.py); _resume_pack (opens index files of the suspended pack "
         "in upload/) is replaced by a stand-in that re-creates the suspended record pack from its token",
         "the sanity checks of _commit_write_group (missing compression parents, _check_new_inventories) answer from a "
         "symbolic choice"]
ASSUMPTIONS = ["as C04: finishing a pack and replacing pack-names are atomic effects", "a suspended pack stays in upload/ "
               "under its token until it is resumed"]
OUTSIDE = ["the content of packs and indices (record packs only carry revision tokens)", "RemoteRepository write groups, "
           "token validation by _resume_pack, the repository-level wrappers (start/abort/commit_write_group state machine)"]


def _group(cx, env, name, token_content):
    count = cx.int(name + "_count", 1, cx.p("maxcount"))
    inserted = bool(cx.choose(name + "_inserted", 0, 1))
    p = pc.WritablePack(name, count, {token_content}, env.events, inserted)
    env.by_name[name] = p
    env.coll._new_pack = p
    return p


def ob_abort(cx):
    env = pc.build(cx, cx.p("npacks"), cx.p("maxcount"))
    coll = env.coll
    new = _group(cx, env, "new", "NEW")
    names_before = list(env.disk["names"])
    memory_before = sorted(coll._names)
    coll._abort_write_group()
    cx.require(not [e for e in env.events if e[0] in ("names", "finish", "obsolete")],
               "aborting a write group wrote pack-names, finished or moved a pack: %r" % (env.events,))
    cx.require(("abort", "new") in env.events, "the group's pack was not aborted")
    cx.require(env.disk["names"] == names_before and sorted(coll._names) == memory_before and coll._new_pack is None,
               "aborting a write group changed the pack list")
    cx.require(all(p.name != "new" for p in coll.packs), "the aborted pack stayed in memory")
    cx.require(pc.listed_content(env) == env.old_content, "visible revisions changed by an aborted write group")
    cx.cover("aborted")
    cx.observe("events", list(env.events))


def ob_suspend_resume(cx):
    env = pc.build(cx, cx.p("npacks"), cx.p("maxcount"))
    coll, events = env.coll, env.events
    suspended = {}

    def resume_pack(token):
        src = suspended[token]
        p = pc.WritablePack(token, src.count, src.content, events, True)
        env.by_name[token] = p
        coll.add_pack_to_memory(p)
        coll._resumed_packs.append(p)
        return p
    coll._resume_pack = resume_pack

    def new_session():
        """the next operation happens on a freshly opened repository: only the listed packs are in memory"""
        for p in list(coll.packs):
            if p.name not in coll._names:
                coll.packs.remove(p)
                coll._packs_by_name.pop(p.name)
    # one or two rounds of: (resume what was suspended before,) write some more, suspend
    tokens = []
    want_suspended = []
    rounds = cx.choose("suspend_rounds", 1, 2)
    groups = []
    for r in range(rounds):
        if tokens:
            coll._resume_write_group(tokens)
        name = "aaaa" if r == 0 else "bbbb"
        g = _group(cx, env, name, "NEW" + name)
        groups.append(g)
        tokens = coll._suspend_write_group()
        if g.inserted:
            suspended[name] = g
            want_suspended.append(name)
        cx.require(not [e for e in events if e[0] in ("names", "finish", "obsolete")],
                   "suspending a write group made something visible: %r" % (events,))
        cx.require(sorted(tokens) == sorted(want_suspended), "suspend returned tokens %r, suspended packs are %r" % (tokens, want_suspended))
        cx.require(coll._new_pack is None and pc.listed_content(env) == env.old_content, "suspended data is visible")
        new_session()
    first = groups[0]
    outcome = cx.pick("then", ["commit", "abort"])
    coll._resume_write_group(tokens)
    second = _group(cx, env, "new2", "NEW2")
    if outcome == "abort":
        coll._abort_write_group()
        cx.require(not [e for e in events if e[0] in ("names", "finish", "obsolete")], "aborting the resumed group made something visible")
        cx.require(pc.listed_content(env) == env.old_content, "visible revisions changed by an aborted (resumed) write group")
        cx.require(not coll._resumed_packs and not [n for n in ("aaaa", "bbbb", "new2") if n in coll._names],
                   "aborted packs stayed in the collection's name list")
        cx.cover("resumed_then_aborted")
    else:
        coll._commit_write_group()
        want = set(env.old_content)
        for g in groups:
            if g.inserted:
                want |= g.content
        if second.inserted:
            want |= {"NEW2"}
        # the same as committing everything directly; and never a state that shows only part of it
        cx.require(pc.listed_content(env) == want, "resume + commit shows %r, committing directly would show %r" %
                   (sorted(pc.listed_content(env)), sorted(want)))
        pc.check_every_crash_point(cx, env, want)
        cx.cover("resumed_then_committed")
        if first.inserted and second.inserted:
            cx.cover("both_parts")
        if len(want_suspended) == 2:
            cx.cover("two_resumed_packs")
    cx.observe("events", [e[0] for e in events])


def ob_refused(cx):
    env = pc.build(cx, cx.p("npacks"), cx.p("maxcount"))
    coll = env.coll
    _group(cx, env, "new", "NEW")
    E = cx.real("bzrformats.errors")
    why = cx.pick("problem", ["missing_compression_parent", "missing_inventory"])
    if why == "missing_compression_parent":
        class VF:
            @staticmethod
            def get_missing_compression_parent_keys():
                return [(b"rev-1",)]

        class Repo(coll.repo):
            texts = VF
        coll.repo = Repo
    else:
        coll._check_new_inventories = lambda: ["rev-1 references a missing inventory"]
    names_before = list(env.disk["names"])
    raised = False
    try:
        coll._commit_write_group()
    except E.BzrCheckError:
        raised = True
    cx.require(raised, "a write group with missing data was accepted")
    cx.require(not [e for e in env.events if e[0] in ("names", "finish", "obsolete")] and env.disk["names"] == names_before,
               "a refused write group changed the repository: %r" % (env.events,))
    cx.cover("refused")
    cx.observe("events", list(env.events))


def obligations(tier):
    q = tier == "quick"
    p = dict(npacks=2 if q else 3, maxcount=12 if q else 15)
    to = 900 if q else 7200
    b = "<= %(npacks)d existing packs with symbolic revision counts 1..%(maxcount)d" % p
    return [
        Ob("abort", ob_abort, [PR], p, to, 1, ["aborted"], bounds=b + "; one write group (with or without data) aborted"),
        Ob("suspend_resume", ob_suspend_resume, [PR], p, to, 2 if q else 1,
           ["resumed_then_committed", "resumed_then_aborted", "both_parts", "two_resumed_packs"],
           bounds=b + "; one or two rounds of (resume,) write, suspend - each continued on a freshly opened collection - then "
                      "a last write group (with or without further data) that resumes everything and is committed or "
                      "aborted; crash after every prefix of the effects of the final commit"),
        Ob("refused", ob_refused, [PR], p, to, 1, ["refused"], bounds=b + "; commit of a group with missing compression "
           "parents / missing inventories"),
    ]
