"""C07 - autopack planning is well-formed for every pack size distribution."""
from symx.runner import Ob

ID = "C07"
PR = "breezy.bzr.pack_repo"
FUNCTIONS = [PR + ":RepositoryPackCollection.pack_distribution", PR + ":RepositoryPackCollection._max_pack_count",
             PR + ":RepositoryPackCollection.plan_autopack_combinations", PR + ":RepositoryPackCollection._do_autopack"]
STUBS = ["RepositoryPackCollection built with object.__new__; revision_index.combined_index.key_count(), all_packs(), "
         "_names and _execute_pack_operations are harness stubs (glue obligation only)"]
ASSUMPTIONS = ["total revision count = sum of per-pack revision counts (CombinedGraphIndex.key_count is the plain sum); "
               "packs with zero revisions are skipped by _do_autopack before planning"]
OUTSIDE = ["totals with more decimal digits than the L1 bound", "more packs than the L2 bound",
           "execution of the plan (packer, I/O)"]


def _coll(cx):
    R = cx.mod(PR).RepositoryPackCollection
    return R, object.__new__(R)


def _ssum(xs):
    t = 0
    for x in xs:
        t = t + x
    return t


def ob_distribution(cx):
    """L1: pack_distribution / _max_pack_count for every total with up to D digits."""
    R, c = _coll(cx)
    if cx.p("digits"):
        nd = cx.choose("ndigits", 1, cx.p("digits"))
        total = cx.int("total", 0 if nd == 1 else 10 ** (nd - 1), 10 ** nd - 1)
    else:
        # totals around the powers of ten far beyond the exhaustive range: d * 10^k + r and d * 10^k - r
        k = cx.choose("exponent", 3, cx.p("maxexp"))
        d = cx.int("lead", 1, 9)
        r = cx.int("rest", -cx.p("maxrest"), cx.p("maxrest"))
        total = d * 10 ** k + r
    dist = c.pack_distribution(total)
    m = c._max_pack_count(total)
    if cx.truth(total == 0):
        cx.require(len(dist) == 1 and dist[0] == 0, "distribution for 0 revisions")
        cx.require(m == 1, "max pack count for 0 revisions")
        cx.cover("zero")
    else:
        cx.require(len(dist) == m, "len(pack_distribution) %r != _max_pack_count %r" % (len(dist), m))
        cx.require(_ssum(dist) == total, "distribution does not sum to the total")
        for i, d in enumerate(dist):
            cx.require(d > 0, "non-positive bucket")
            if i:
                cx.require(dist[i - 1] >= d, "distribution not non-increasing")
        cx.cover("positive")
    cx.observe("dist", list(dist))
    cx.observe("m", m)


def ob_planner(cx):
    """L2: the planner on arbitrary positive counts and an arbitrary valid distribution."""
    R, c = _coll(cx)
    n = cx.choose("n", 0, cx.p("n"))
    m = cx.choose("m", 1, cx.p("m"))
    counts = [cx.int("c%d" % i, 1) for i in range(n)]
    dist = [cx.int("d%d" % i, 1) for i in range(m)]
    for i in range(m - 1):
        cx.assume(dist[i] >= dist[i + 1])
    cx.assume(_ssum(counts) == _ssum(dist))
    ops = c.plan_autopack_combinations([(cnt, i) for i, cnt in enumerate(counts)], list(dist))
    if n <= m:
        cx.require(len(ops) == 0, "planned something although the pack count is within the bound")
        cx.cover("within")
    else:
        cx.require(len(ops) == 1, "plan has %d operations" % len(ops))
        rc, pl = ops[0]
        cx.require(len(pl) >= 2, "plan combines %d pack(s)" % len(pl))
        cx.require(len(set(pl)) == len(pl), "a pack is combined twice")
        cx.require(rc == _ssum(counts[i] for i in pl), "revision count of the plan is not the sum of its packs")
        cx.require(n - len(pl) + 1 <= m, "after the plan %d packs remain, bound is %d" % (n - len(pl) + 1, m))
        cx.cover("combine")
    cx.observe("ops", [[rc, list(pl)] for rc, pl in ops])


class _Pack:
    def __init__(self, name, count):
        self.name = name
        self.count = count

    def get_revision_count(self):
        return self.count

    def __lt__(self, o):
        return self.name < o.name


def ob_glue(cx):
    """The real _do_autopack over stub packs: guard + distribution + planner together, small totals."""
    R, c = _coll(cx)
    n = cx.choose("n", 1, cx.p("gn"))
    counts = [cx.int("c%d" % i, 1, cx.p("gmax")) for i in range(n)]
    total = _ssum(counts)
    packs = [_Pack("p%d" % i, cnt) for i, cnt in enumerate(counts)]

    class _Idx:
        class combined_index:
            @staticmethod
            def key_count():
                return total
    c.revision_index = _Idx
    c._names = {p.name: None for p in packs}
    c.all_packs = lambda: list(packs)
    c.normal_packer_class = None
    c.repo = "stub-repo"
    c._restart_autopack = None
    planned = []

    def execute(ops, packer_class=None, reload_func=None):
        planned.append(ops)
        return ["new"]
    c._execute_pack_operations = execute
    digit_sum = c._max_pack_count(total)
    res = c._do_autopack()
    if n <= digit_sum:
        cx.require(res is None and not planned, "autopack ran although %d packs <= digit sum" % n)
        cx.cover("noop")
    else:
        cx.require(len(planned) == 1 and len(planned[0]) == 1, "not exactly one combination planned")
        rc, pl = planned[0][0]
        cx.require(len(pl) >= 2, "plan combines fewer than two packs")
        cx.require(rc == _ssum(p.count for p in pl), "plan revision count is not the sum")
        cx.require(n - len(pl) + 1 <= digit_sum, "pack count after the plan exceeds the digit sum")
        cx.cover("packed")
    cx.observe("planned", [[[rc, [p.name for p in pl]] for rc, pl in ops] for ops in planned])


def obligations(tier):
    q = tier == "quick"
    p1 = dict(digits=3 if q else 5)
    p1r = dict(digits=0, maxexp=6 if q else 10, maxrest=2 if q else 11)      # the engine renders integers of <= 12 digits
    p2 = dict(n=4 if q else 5, m=3 if q else 5)
    p3 = dict(gn=3 if q else 4, gmax=30 if q else 60)
    to = 900 if q else 7200
    return [
        Ob("L1_round_totals", ob_distribution, [PR], p1r, to, 1, ["positive"],
           bounds="totals d * 10^k + r with d 1..9, k 3..%(maxexp)d, r -%(maxrest)d..%(maxrest)d (neighbourhoods of the round "
                  "totals beyond the exhaustive range)" % p1r),
        Ob("L1_distribution", ob_distribution, [PR], p1, to, 1, ["zero", "positive"],
           bounds="every total with <= %d decimal digits" % p1["digits"]),
        Ob("L2_planner", ob_planner, [PR], p2, to, 1 if not q else 2, ["within", "combine"],
           bounds="<= %(n)d packs with unbounded positive revision counts, arbitrary valid distribution of <= %(m)d buckets" % p2),
        Ob("L3_do_autopack", ob_glue, [PR], p3, to, 1 if not q else 2, ["noop", "packed"],
           bounds="<= %(gn)d packs, each count in 1..%(gmax)d (glue: guard + distribution + planner through the real _do_autopack)" % p3),
    ]
