"""C11 - adding files versions exactly the intended paths (the smart-add walk of inventory trees)."""
import contextlib
from symx.runner import Ob

ID = "C11"
IT = "breezy.bzr.inventorytree"
FUNCTIONS = [IT + ":MutableInventoryTree.smart_add", IT + ":_SmartAddHelper.add", IT + ":_SmartAddHelper._add_one_and_parent",
             IT + ":_SmartAddHelper._get_ie", IT + ":_SmartAddHelper._gather_dirs_to_add", IT + ":_SmartAddHelper.__init__"]
STUBS = ["the tree is an instance of the real MutableInventoryTree class created without a control directory; its inventory "
         "lookups (iter_entries_by_dir(specific_files=[p]), root_inventory.get_child), is_ignored, is_control_filename, "
         "conflicts, abspath and apply_inventory_delta answer from a table of nodes",
         "the file system is that table: os.listdir, file_kind, file_stat / file_kind_from_stat_mode answer from it; "
         "ControlDirFormat.find_format answers 'is a nested tree' per directory; canonical_relpaths is the identity on "
         "tree-relative paths ('.' -> ''); trace is silent",
         "inventory entries are the real (compiled) bzrformats entries, built from concrete names"]
ASSUMPTIONS = ["per node the facts 'already versioned', 'matches an ignore pattern', 'is a nested tree', 'name contains a newline' and "
               "the kind of a leaf (file / empty directory / fifo) are SYMBOLIC; a node can only be versioned if its parent is; "
               "the inventory kind of a versioned node equals its kind on disk (file, if a fifo took its place)",
               "reference: every named path and its unversioned parents become versioned (a control file name or an "
               "unversionable kind among the named paths is an error and nothing is applied); when recursing, a directory "
               "that is versioned (before or through this add) and is not a nested tree is walked, and an unversioned child "
               "is added unless it matches an ignore pattern, is a control directory, has an unversionable kind, has a "
               "newline in its name, is a conflict helper file or is a nested tree; versioned nodes get no delta entry; an "
               "ignore pattern does not apply to a directory that this add versions as the parent of a named path",
               "at most one file is a conflict helper file"]
OUTSIDE = ["real working trees and file systems, ignore-pattern matching (Rust globbing), unicode normalisation of names, "
           "case-insensitive file systems, symlinks in the named paths (normalizepath)", "custom AddAction objects (skip_file, "
           "file-id suggestions)", "git working trees", "more nodes / deeper trees than the bound"]


class Node:
    def __init__(self, cx, key, base, parent, leaf):
        self.cx, self.key, self.base, self.parent, self.leaf = cx, key, base, parent, leaf
        self.children = []
        self.file_id = ("id-" + key).encode()
        self.f_versioned = cx.bool("versioned_" + key)
        self.f_ignored = cx.bool("ignored_" + key)
        self.f_subtree = cx.bool("subtree_" + key)
        self.f_newline = cx.bool("newline_" + key)
        self.f_kind = cx.int("kind_" + key, 0, 2) if leaf else None
        self._name = self._kind = self._vers = None
        self.control = False
        self.named = False
        self.helper = False
        self.entry = None

    @property
    def name(self):
        if self._name is None:
            bad = (not self.named) and self.parent is not None and not self.control and self.cx.truth(self.f_newline)
            self._name = self.base + ("\n" if bad else "")
        return self._name

    @property
    def path(self):
        if self.parent is None:
            return ""
        pp = self.parent.path
        return (pp + "/" if pp else "") + self.name

    @property
    def kind(self):
        if self._kind is None:
            if not self.leaf:
                self._kind = "directory"
            elif self.cx.truth(self.f_kind == 0):
                self._kind = "file"
            elif self.cx.truth(self.f_kind == 1):
                self._kind = "directory"
            else:
                self._kind = "fifo"
        return self._kind

    @property
    def versioned(self):
        if self._vers is None:
            if self.parent is None:
                self._vers = True
            elif self.control:
                self._vers = False
            else:
                self._vers = self.parent.versioned and self.cx.truth(self.f_versioned)
        return self._vers

    def subtree(self):
        return self.parent is not None and self.cx.truth(self.f_subtree)

    def find(self, relpath):
        if relpath == "":
            return self
        head, _, rest = relpath.partition("/")
        for c in self.children:
            if c.name == head:
                return c.find(rest)
        return None


def build(cx, nnamed):
    root = Node(cx, "r", "", None, False)
    nodes = [root]
    pool = ["a", "a-b"]
    nroot = cx.choose("nroot", 1, cx.p("width"))

    def grow(parent, key, base, depth):
        # only the first entry of the root may have entries below it unless the tier says otherwise; with two named paths
        # the second entry (whose name starts with the first one's name without being inside it) may have one
        wide = cx.p("width") if (key == "0" or cx.p("all_dirs")) else (1 if nnamed == 2 else 0)
        nk = cx.choose("nkids_" + key, 0, wide) if (depth < cx.p("depth") and wide) else 0
        n = Node(cx, key, base, parent, nk == 0)
        parent.children.append(n)
        nodes.append(n)
        for j in range(nk):
            grow(n, key + str(j), "bc"[j], depth + 1)
        return n
    for i in range(nroot):
        grow(root, str(i), pool[i], 1)
    if cx.choose("control_dir", 0, 1):
        c = Node(cx, "ctl", ".bzr", root, False)
        c.control = True
        k = Node(cx, "ctlx", "x", c, True)
        k.control = True
        k._kind = "file"
        c.children.append(k)
        root.children.append(c)
        nodes += [c, k]
    return root, nodes


def ob_smart_add(cx):
    W = cx.mod(IT)
    T = cx.truth
    real_osutils = cx.real("breezy.osutils")
    real_os = cx.real("os")
    inv = cx.real("bzrformats.inventory")
    errors = cx.real("breezy.errors")
    # which paths the user names (<= 2), in which order
    nnamed = cx.choose("nnamed", 0, 2)
    root, nodes = build(cx, nnamed)
    cand = nodes[1:]
    if nnamed > len(cand):
        cx.assume(False)
    named = []
    for k in range(nnamed):
        n = cand[cx.choose("named%d" % k, 0, len(cand) - 1)]
        if n in named:
            cx.assume(False)
        named.append(n)
        n.named = True
    recurse = bool(cx.choose("recurse", 0, 1))
    leaves = [n for n in cand if n.leaf and not n.control]
    h = cx.choose("helper", 0, len(leaves))
    helper = leaves[h - 1] if h else None
    if nnamed == 2 and not cx.p("pairs_full"):
        # two named paths (both orders) are explored without a control directory / conflict helper in this tier
        cx.assume(h == 0 and not any(n.control for n in nodes))

    def entry_of(n):
        if n.entry is None:
            # a versioned file whose place on disk is now taken by a fifo is still a file in the inventory
            n.entry = inv.make_entry("file" if n.kind == "fifo" else n.kind, n.name, n.parent.file_id if n.parent else None,
                                     file_id=n.file_id)
        return n.entry

    def by_abspath(p):
        assert p == "/t" or p.startswith("/t/"), p
        n = root.find(p[3:])
        if n is None:
            raise cx.real("dromedary.errors").NoSuchFile(p)
        return n

    class St:
        def __init__(self, n):
            self.st_mode = n

    W.file_kind = lambda p: by_abspath(p).kind
    W.file_stat = lambda p: St(by_abspath(p))

    class OSU:
        @staticmethod
        def file_kind_from_stat_mode(m):
            return m.kind

        @staticmethod
        def canonical_relpaths(base, paths):
            return ["" if p == "." else p for p in paths]

        def __getattr__(self, name):
            return getattr(real_osutils, name)

    class OS:
        @staticmethod
        def listdir(p):
            return [c.name for c in reversed(by_abspath(p).children)]

        def __getattr__(self, name):
            return getattr(real_os, name)

    class Quiet:
        def __getattr__(self, name):
            return lambda *a, **k: None

    class Tr:
        @staticmethod
        def get_transport_from_path(p):
            return p

    class CDF:
        @staticmethod
        def find_format(p):
            n = by_abspath(p)
            if n.subtree():
                return "format"
            raise errors.NotBranchError(p)

    class CDmod:
        ControlDirFormat = CDF
    W.osutils, W.os, W.trace, W._mod_transport, W.controldir = OSU(), OS(), Quiet(), Tr, CDmod

    class RootInv:
        @staticmethod
        def get_child(file_id, name):
            for n in nodes:
                if n.file_id == file_id and n.versioned:
                    for c in n.children:
                        if c.name == name and c.versioned:
                            return entry_of(c)
            return None

    class Conflict:
        def associated_filenames(self):
            return [helper.path]

    class Tree(W.MutableInventoryTree):
        case_sensitive = True
        basedir = "/t"
        root_inventory = RootInv

        def __init__(self):
            self.delta = None

        def lock_tree_write(self):
            return contextlib.nullcontext()

        def supports_symlinks(self):
            return False

        def conflicts(self):
            return [Conflict()] if helper is not None else []

        def is_control_filename(self, p):
            return p == ".bzr" or p.startswith(".bzr/")

        def abspath(self, p):
            return "/t/" + p if p else "/t"

        def iter_entries_by_dir(self, specific_files=None):
            (p,) = specific_files
            n = root.find(p)
            if n is not None and n.versioned:
                yield p, entry_of(n)

        def is_ignored(self, p):
            n = root.find(p)
            return "pattern" if T(n.f_ignored) else None

        def apply_inventory_delta(self, delta):
            self.delta = list(delta)
    tree = Tree()
    import bzrformats.inventory_delta as IDM
    real_delta = IDM.InventoryDelta
    IDM.InventoryDelta = list           # the (compiled) delta class is imported when get_inventory_delta runs; only the rows matter
    exc = None
    added = ignored = None
    try:
        added, ignored = tree.smart_add([n.path for n in named], recurse=recurse)
    except (errors.ForbiddenControlFileError, errors.BadFileKindError) as e:
        exc = type(e).__name__
    finally:
        IDM.InventoryDelta = real_delta

    # ---- reference
    bad_named = [n for n in named if n.control or (not n.versioned and n.kind == "fifo")]
    if bad_named:
        cx.require(exc is not None, "a control file / unversionable file was named and no error was raised")
        cx.require(tree.delta is None, "an error was raised but part of the add was applied")
        cx.cover("refused")
        return
    cx.require(exc is None, "unexpected %s" % exc)
    want = []

    def have(n):
        return n.versioned or n in want

    def version_with_parents(n):
        if not have(n):
            version_with_parents(n.parent)
            want.append(n)
    starts = named or [root]
    for u in starts:
        version_with_parents(u)
    want_ignored = []

    def walk(d):
        for c in d.children:
            if c.control:
                continue
            known = have(c)
            if not known and T(c.f_ignored):
                if c not in want_ignored:
                    want_ignored.append(c)
                continue
            if c.kind == "fifo" or "\n" in c.name or c is helper:
                continue
            sub = c.kind == "directory" and c.subtree()
            if not known:
                if sub:
                    continue
                want.append(c)
            if c.kind == "directory" and not sub:
                walk(c)
    if recurse:
        for u in starts:
            if u.kind == "directory" and not (u.parent is not None and u.subtree()):
                walk(u)
    got = list(added)
    cx.require(len(set(got)) == len(got), "a path was added twice: %r" % (got,))
    for n in nodes[1:]:
        p = n.path if n._name is not None or n.named else None
        is_added = p is not None and p in got
        if n in want:
            cx.require(is_added, "%r should have been versioned and was not" % (n.path,))
        else:
            cx.require(not is_added, "%r became versioned and should not have (%s)" % (
                p, "already versioned" if n._vers else "ignored / control / nested tree / helper / not selected"))
    cx.require(len(got) == len(want), "paths outside the tree were added: %r" % (got,))
    rows = {r[1]: r for r in tree.delta}
    cx.require(sorted(rows) == sorted(got), "the applied delta %r does not match the reported additions %r" % (sorted(rows), sorted(got)))
    ids = {}
    for n in want:
        old, new, fid, ie = rows[n.path]
        ids[n.path] = fid
        cx.require(old is None and ie.file_id == fid, "delta row of %r is not an addition" % (n.path,))
        cx.require(ie.kind == n.kind and ie.name == n.name, "entry of %r has kind %r / name %r" % (n.path, ie.kind, ie.name))
    for n in want:
        par = n.parent
        want_pid = par.file_id if par.versioned else ids[par.path]
        cx.require(rows[n.path][3].parent_id == want_pid, "entry of %r hangs under the wrong parent" % (n.path,))
    got_ign = sorted(p for ps in ignored.values() for p in ps)
    cx.require(got_ign == sorted(n.path for n in want_ignored), "ignored paths reported %r, expected %r" %
               (got_ign, sorted(n.path for n in want_ignored)))
    cx.observe("added", sorted(got))
    if want:
        cx.cover("added")
    if want_ignored:
        cx.cover("ignored_skipped")
    if any(n.parent is not None and n.parent in want and n.named for n in want):
        cx.cover("parent_added")
    if recurse and any(not n.named for n in want):
        cx.cover("recursed")
    if not want:
        cx.cover("nothing")


def obligations(tier):
    q = tier == "quick"
    p = dict(width=2, depth=2, pairs_full=not q, all_dirs=False)
    return [Ob("smart_add", ob_smart_add, [IT], p, 900 if q else 7200, 3 if q else 1,
               ["added", "ignored_skipped", "parent_added", "recursed", "nothing", "refused"],
               bounds=("all directories may have entries; " if p["all_dirs"] else "the root has <= 2 entries 'a' and 'a-b' (a name "
                       "that starts with the other without being inside it); 'a' may hold <= 2 entries, 'a-b' one entry when "
                       "two paths are named; ") +
                      "trees of depth <= %d with <= %d entries per directory (+ optionally a control directory), "
                      "<= 2 named paths in any order or none (whole tree), recursion on/off; per-node facts symbolic%s" %
                      (p["depth"], p["width"], "" if p["pairs_full"] else "; with two named paths: no control directory and no "
                       "conflict helper file"))]
