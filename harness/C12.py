"""C12 - tree-changing commands never silently discard uncommitted work (the 'remove' kernel)."""
import contextlib
from symx.runner import Ob
from .C20 import m_is_inside_any, _validate as _validate_inside

ID = "C12"
WT = "breezy.bzr.workingtree"
FUNCTIONS = [WT + ":InventoryWorkingTree.remove"]
STUBS = ["the working tree is an instance of the real InventoryWorkingTree class created without a control directory; "
         "abspath / relpath / walkdirs / is_versioned / path2id / iter_changes / apply_inventory_delta and the control "
         "directory's _available_backup_name are stubs over a table of files; osutils (rename / lexists / isdir / "
         "delete_any / rmtree; Rust or I/O) is a recording stand-in; is_inside_any is the validated model of C20"]
ASSUMPTIONS = ["the named paths are files in the tree root with SYMBOLIC names (directories and their recursion are outside)",
               "iter_changes reports, for each named file, whether it is in the basis tree, whether its content changed and "
               "whether it still exists (its contract)",
               "reference: with --keep (the default for the API) nothing on disk is touched; with deletion requested and no "
               "--force a file that is unknown / newly added / modified is moved to a backup name instead of being deleted; "
               "unchanged versioned files are deleted; --force deletes; versioned files become unversioned in every case"]
OUTSIDE = ["directories (non-empty directory handling, nested content)", "revert (_alter_files) and merge (_dump_conflicts), "
           "which need a tree transform over real trees", "more files than the bound"]


def setup(ls):
    _validate_inside()


def ob_remove(cx):
    W = cx.mod(WT)
    T = cx.truth
    n = cx.choose("nfiles", 1, cx.p("nfiles"))
    files = []
    for i in range(n):
        name = cx.str("name%d" % i, cx.choose("len%d" % i, 1, cx.p("lname")), "ab.")
        for f in files:
            cx.assume(f["name"] != name)
        state = cx.pick("state%d" % i, ["unchanged", "modified", "added", "unknown", "missing"])
        files.append(dict(i=i, name=name, state=state))
    keep = bool(cx.choose("keep_files", 0, 1))
    force = bool(cx.choose("force", 0, 1))
    log = []
    disk = [f for f in files if f["state"] != "missing"]          # files present in the working directory

    def lookup(path):
        for f in files:
            if T(f["name"] == path):
                return f
        return None

    class Change:
        def __init__(self, f):
            self.path = (f["name"] if f["state"] in ("unchanged", "modified", "missing") else None, f["name"])
            self.versioned = (f["state"] in ("unchanged", "modified", "missing"), f["state"] != "unknown")
            self.changed_content = f["state"] in ("modified", "added", "unknown", "missing")
            self.kind = ("file" if self.versioned[0] else None, None if f["state"] == "missing" else "file")

    class OSU:
        is_inside_any = staticmethod(m_is_inside_any)

        @staticmethod
        def lexists(p):
            f = lookup(p)
            return f is not None and f in disk

        @staticmethod
        def isdir(p):
            return False

        @staticmethod
        def delete_any(p):
            f = lookup(p)
            disk.remove(f)
            log.append(("delete", f["i"]))

        @staticmethod
        def rmtree(p):
            raise AssertionError("rmtree on a file")

        @staticmethod
        def rename(a, b):
            f = lookup(a)
            disk.remove(f)
            log.append(("backup", f["i"], b))

        @staticmethod
        def kind_marker(k):
            return ""

        def __getattr__(self, name):
            return getattr(cx.real("breezy.osutils"), name)
    W.osutils = OSU()
    W.note = lambda *a, **k: None

    class CD:
        @staticmethod
        def _available_backup_name(base):
            return base + ".~1~"

    class Tree(W.InventoryWorkingTree):
        def __init__(self):
            self.controldir = CD
            self.delta = None

        def lock_tree_write(self):
            return contextlib.nullcontext()

        def abspath(self, p):
            return p

        def relpath(self, p):
            return p

        def walkdirs(self, prefix=""):
            return iter(())

        def is_versioned(self, p):
            f = lookup(p)
            return f is not None and f["state"] not in ("unknown",)

        def path2id(self, p):
            f = lookup(p)
            if f is None or f["state"] == "unknown":
                return None
            return b"id-%d" % f["i"]

        def basis_tree(self):
            return "basis"

        def iter_changes(self, basis, include_unchanged=False, require_versioned=True, want_unversioned=False,
                         specific_files=None):
            return [Change(f) for f in files if any(T(f["name"] == s) for s in specific_files)]

        def is_ignored(self, p):
            return None

        def kind(self, p):
            return "file"

        def apply_inventory_delta(self, delta):
            self.delta = list(delta)
    tree = Tree()
    import bzrformats.inventory_delta as IDM
    real_delta = IDM.InventoryDelta
    IDM.InventoryDelta = list           # remove() imports the (compiled) delta class when it runs; only the entries matter
    try:
        tree.remove([f["name"] for f in files], keep_files=keep, force=force)
    finally:
        IDM.InventoryDelta = real_delta
    unversioned = [] if tree.delta is None else [e[0] for e in tree.delta]
    for f in files:
        versioned = f["state"] != "unknown"
        got_unv = any(T(u == f["name"]) for u in unversioned)
        cx.require(got_unv == versioned, "file %d (%s) %s unversioned" % (f["i"], f["state"], "was" if got_unv else "was not"))
        ops = [e for e in log if e[1] == f["i"]]
        if keep or f["state"] == "missing":
            cx.require(not ops, "file %d (%s) was touched on disk although nothing should happen to it: %r" % (f["i"], f["state"], ops))
        elif force or f["state"] == "unchanged":
            cx.require([e[0] for e in ops] == ["delete"], "file %d (%s): expected a deletion, got %r" % (f["i"], f["state"], ops))
            cx.cover("deleted")
        else:
            cx.require([e[0] for e in ops] == ["backup"],
                       "file %d is %s and deletion was not forced: its content must be kept in a backup, got %r" %
                       (f["i"], f["state"], ops))
            cx.require(T(ops[0][2] == f["name"] + ".~1~"), "backup written under an unexpected name")
            cx.cover("backed_up")
    if keep:
        cx.cover("kept")
    cx.observe("log", [(e[0], e[1]) for e in log])


def obligations(tier):
    q = tier == "quick"
    p = dict(nfiles=2 if q else 3, lname=2)
    return [Ob("remove", ob_remove, [(WT, dict(symdict=True))], p, 900 if q else 7200, 2 if q else 1,
               ["deleted", "backed_up", "kept"], setup=setup,
               bounds="<= %(nfiles)d files with symbolic names of <= %(lname)d chars, each unchanged / modified / newly added / "
                      "unknown / versioned but missing; keep or delete, forced or not" % p)]
