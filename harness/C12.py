"""C12 - tree-changing commands never silently discard uncommitted work (the 'remove' kernel)."""
import contextlib
from symx.runner import Ob
from .C20 import m_is_inside_any, _validate as _validate_inside

ID = "C12"
WT = "breezy.bzr.workingtree"
FUNCTIONS = [WT + ":InventoryWorkingTree.remove", "breezy.transform:_alter_files"]
STUBS = ["the working tree is an instance of the real InventoryWorkingTree class created without a control directory; "
         "abspath / relpath / walkdirs / is_versioned / path2id / iter_changes / apply_inventory_delta and the control "
         "directory's _available_backup_name are stubs over a table of files; osutils (rename / lexists / isdir / "
         "delete_any / rmtree; Rust or I/O) is a recording stand-in that sees the tree's files only under the tree's absolute "
         "root (a relative path is resolved against the process's working directory, which is elsewhere) and whose rename "
         "replaces an existing target, as POSIX does; is_inside_any is the validated model of C20; available_backup_name "
         "(Rust) is a python model compared with the compiled function before each run"]
ASSUMPTIONS = ["the named paths are files in the tree root with SYMBOLIC names (directories and their recursion are outside)",
               "iter_changes reports, for each named file, whether it is in the basis tree, whether its content changed and "
               "whether it still exists (its contract)",
               "reference: with --keep (the default for the API) nothing on disk is touched; with deletion requested and no "
               "--force a file that is unknown / newly added / modified is moved to a backup name instead of being deleted; "
               "unchanged versioned files are deleted; --force deletes; versioned files become unversioned in every case"]
OUTSIDE = ["directories (non-empty directory handling, nested content)", "merge (_dump_conflicts), which needs a tree "
           "transform over real trees", "revert: what the tree transform then does with the recorded operations (apply; see "
           "C13), TreeTransform._available_backup_name itself (modelled), renames / reparenting during revert, a file that the "
           "basis lacks but the target has (the code deletes it; the property's 'differs from the basis' does not settle "
           "that case)", "more files than the bound"]


def m_available_backup_name(base, exists):
    """model of osutils.available_backup_name (Rust): the first of base.~1~, base.~2~, ... that does not exist"""
    counter = 1
    name = base + ".~" + str(counter) + "~"
    while exists(name):
        counter += 1
        name = base + ".~" + str(counter) + "~"
    return name


def setup(ls):
    _validate_inside()
    from breezy import osutils
    for taken in ([], ["f.~1~"], ["f.~1~", "f.~2~"], ["f.~2~"], ["g.~1~"]):
        if osutils.available_backup_name("f", taken.__contains__) != m_available_backup_name("f", taken.__contains__):
            raise RuntimeError("available_backup_name model differs with %r taken" % (taken,))


def ob_remove(cx):
    W = cx.mod(WT)
    T = cx.truth
    n = cx.choose("nfiles", 1, cx.p("nfiles"))
    files = []
    for i in range(n):
        name = cx.str("name%d" % i, cx.choose("len%d" % i, 1, cx.p("lname")), "ab.")
        for f in files:
            cx.assume(f["name"] != name)
        state = cx.pick("state%d" % i, ["unchanged", "modified", "added", "unknown", "missing"])
        # an earlier backup of a file of this name (an unknown file NAME.~1~) may already be in the working directory
        taken = bool(cx.choose("backup_taken%d" % i, 0, 1))
        files.append(dict(i=i, name=name, state=state, backup_taken=taken))
    keep = bool(cx.choose("keep_files", 0, 1))
    force = bool(cx.choose("force", 0, 1))
    log = []
    disk = [f for f in files if f["state"] != "missing"]          # files present in the working directory
    old_backups = [dict(i=-1 - f["i"], name=f["name"] + ".~1~", state="old-backup") for f in files if f["backup_taken"]]
    disk += old_backups
    ROOT = "/t/"

    def rel_lookup(path):
        """tree-relative name -> entry"""
        for f in files + old_backups:
            if len(f["name"]) == len(path) and T(f["name"] == path):
                return f
        return None

    def lookup(path):
        """path as the operating system sees it: only absolute paths below the tree root reach the tree's files; a relative
        path is resolved against the process's working directory, which is not the tree root in general"""
        if len(path) > len(ROOT) and T(path[:len(ROOT)] == ROOT):
            return rel_lookup(path[len(ROOT):])
        return None

    class Change:
        def __init__(self, f):
            self.path = (f["name"] if f["state"] in ("unchanged", "modified", "missing") else None, f["name"])
            self.versioned = (f["state"] in ("unchanged", "modified", "missing"), f["state"] != "unknown")
            self.changed_content = f["state"] in ("modified", "added", "unknown", "missing")
            self.kind = ("file" if self.versioned[0] else None, None if f["state"] == "missing" else "file")

    class OSU:
        is_inside_any = staticmethod(m_is_inside_any)

        @staticmethod
        def lexists(p):
            f = lookup(p)
            return f is not None and f in disk

        @staticmethod
        def isdir(p):
            return False

        @staticmethod
        def delete_any(p):
            f = lookup(p)
            disk.remove(f)
            log.append(("delete", f["i"]))

        @staticmethod
        def rmtree(p):
            raise AssertionError("rmtree on a file")

        @staticmethod
        def rename(a, b):
            f = lookup(a)
            over = lookup(b)
            if over is not None and over in disk:
                disk.remove(over)                  # POSIX rename replaces the target silently
                log.append(("overwritten", over["i"]))
            disk.remove(f)
            log.append(("backup", f["i"], b))

        available_backup_name = staticmethod(m_available_backup_name)

        @staticmethod
        def kind_marker(k):
            return ""

        def __getattr__(self, name):
            return getattr(cx.real("breezy.osutils"), name)
    W.osutils = OSU()
    W.note = lambda *a, **k: None

    class CD:
        @staticmethod
        def _available_backup_name(base):
            # the real one asks the control directory's root transport, i.e. resolves names against the TREE ROOT
            return m_available_backup_name(base, lambda n: rel_lookup(n) is not None and rel_lookup(n) in disk)

    class Tree(W.InventoryWorkingTree):
        def __init__(self):
            self.controldir = CD
            self.delta = None

        def lock_tree_write(self):
            return contextlib.nullcontext()

        def abspath(self, p):
            return ROOT + p

        def relpath(self, p):
            if not (len(p) >= len(ROOT) and T(p[:len(ROOT)] == ROOT)):
                raise AssertionError("relpath of a path outside the tree")
            return p[len(ROOT):]

        def walkdirs(self, prefix=""):
            return iter(())

        def is_versioned(self, p):
            f = rel_lookup(p)
            return f is not None and f["state"] not in ("unknown", "old-backup")

        def path2id(self, p):
            f = rel_lookup(p)
            if f is None or f["state"] in ("unknown", "old-backup"):
                return None
            return b"id-%d" % f["i"]

        def basis_tree(self):
            return "basis"

        def iter_changes(self, basis, include_unchanged=False, require_versioned=True, want_unversioned=False,
                         specific_files=None):
            return [Change(f) for f in files if any(T(f["name"] == s) for s in specific_files)]

        def is_ignored(self, p):
            return None

        def kind(self, p):
            return "file"

        def apply_inventory_delta(self, delta):
            self.delta = list(delta)
    tree = Tree()
    import bzrformats.inventory_delta as IDM
    real_delta = IDM.InventoryDelta
    IDM.InventoryDelta = list           # remove() imports the (compiled) delta class when it runs; only the entries matter
    try:
        tree.remove([f["name"] for f in files], keep_files=keep, force=force)
    finally:
        IDM.InventoryDelta = real_delta
    unversioned = [] if tree.delta is None else [e[0] for e in tree.delta]
    for f in files:
        versioned = f["state"] != "unknown"
        got_unv = any(T(u == f["name"]) for u in unversioned)
        cx.require(got_unv == versioned, "file %d (%s) %s unversioned" % (f["i"], f["state"], "was" if got_unv else "was not"))
        ops = [e for e in log if e[1] == f["i"]]
        if keep or f["state"] == "missing":
            cx.require(not ops, "file %d (%s) was touched on disk although nothing should happen to it: %r" % (f["i"], f["state"], ops))
        elif force or f["state"] == "unchanged":
            cx.require([e[0] for e in ops] == ["delete"], "file %d (%s): expected a deletion, got %r" % (f["i"], f["state"], ops))
            cx.cover("deleted")
        else:
            cx.require([e[0] for e in ops] == ["backup"],
                       "file %d is %s and deletion was not forced: its content must be kept in a backup, got %r" %
                       (f["i"], f["state"], ops))
            want_name = ROOT + f["name"] + (".~2~" if f["backup_taken"] else ".~1~")
            cx.require(len(ops[0][2]) == len(want_name) and T(ops[0][2] == want_name), "backup written under an unexpected name")
            cx.cover("backed_up")
            if f["backup_taken"]:
                cx.cover("earlier_backup_kept")
    lost = [e for e in log if e[0] == "overwritten"]
    cx.require(not lost, "a backup was written over an existing file of the working directory (an earlier backup holding "
               "content that exists nowhere else)")
    for b in old_backups:
        cx.require(b in disk, "an unrelated unknown file disappeared from the working directory")
    if keep:
        cx.cover("kept")
    cx.observe("log", [(e[0], e[1]) for e in log])


TR = "breezy.transform"


def ob_revert_backup(cx):
    """_alter_files (the body of revert): per changed path decide between deleting the working content, keeping it in
    place and moving it to a backup name.  Every per-path fact is symbolic."""
    M = cx.mod(TR)
    T = cx.truth
    n = cx.choose("nchanges", 1, cx.p("nchanges"))
    backups = bool(cx.choose("backups", 0, 1))
    chg = []
    merge_modified = {}
    for i in range(n):
        name = "f%d" % i
        wt_kind = cx.pick("wt_kind%d" % i, ["file", "symlink", "directory", None])
        target_kind = cx.pick("target_kind%d" % i, ["file", "symlink", "directory", None])
        if wt_kind is None and target_kind is None:
            cx.assume(False)
        wt_versioned = wt_kind is None or bool(cx.choose("wt_versioned%d" % i, 0, 1))    # a missing file is versioned
        target_versioned = target_kind is not None
        in_basis = bool(cx.choose("in_basis%d" % i, 0, 1))
        wt_sha = cx.int("wt_sha%d" % i, 0, 3)
        basis_sha = cx.int("basis_sha%d" % i, 0, 3)
        target_sha = cx.int("target_sha%d" % i, 0, 3)
        if cx.choose("merge_written%d" % i, 0, 1):
            merge_modified[name] = cx.int("mm_sha%d" % i, 0, 3)       # a previous merge recorded having written this hash
        if wt_kind == "file" and target_kind == "file":
            changed = T(wt_sha != target_sha)
        elif wt_kind == target_kind:
            changed = bool(cx.choose("changed%d" % i, 0, 1))          # symlink target / directory: reported by the tree
        else:
            changed = True
        wt_exec = bool(cx.choose("wt_exec%d" % i, 0, 1)) if wt_kind == "file" else False
        t_exec = bool(cx.choose("t_exec%d" % i, 0, 1)) if target_kind == "file" else False
        if not changed and wt_versioned == target_versioned and wt_exec == t_exec:
            cx.assume(False)                                          # iter_changes would not report it
        taken = cx.choose("backup_taken%d" % i, 0, cx.p("ntaken"))   # NAME.~1~ .. NAME.~taken~ already exist
        chg.append(dict(i=i, name=name, wt_kind=wt_kind, target_kind=target_kind, wt_versioned=wt_versioned,
                        target_versioned=target_versioned, in_basis=in_basis, wt_sha=wt_sha, basis_sha=basis_sha,
                        target_sha=target_sha, changed=changed, wt_exec=wt_exec, t_exec=t_exec, taken=taken))
    initial_mm = dict(merge_modified)
    log = []

    class Change:
        def __init__(self, c):
            nm = c["name"]
            self.path = (nm if c["target_versioned"] else None, nm if c["wt_kind"] is not None or c["wt_versioned"] else None)
            self.versioned = (c["target_versioned"], c["wt_versioned"])
            self.name = (nm if c["target_versioned"] else None, nm)
            self.kind = (c["target_kind"], c["wt_kind"])
            self.executable = (c["t_exec"], c["wt_exec"])
            self.changed_content = c["changed"]
            self.parent_id = (b"root-id", b"root-id")
            self.file_id = b"id-%d" % c["i"]

        def is_reparented(self):
            return False

    def by_name(path):
        for c in chg:
            if c["name"] == path:
                return c
        raise AssertionError("unexpected path %r" % (path,))

    class Basis:
        def lock_read(self):
            return contextlib.nullcontext()

        def get_file_sha1(self, path):
            return by_name(path)["basis_sha"]

    basis = Basis()

    class WTree:
        def iter_changes(self, target, specific_files=None, pb=None):
            return [Change(c) for c in chg]

        def get_file_sha1(self, path):
            return by_name(path)["wt_sha"]

        def basis_tree(self):
            return basis

        def supports_content_filtering(self):
            return False

    class Target:
        def is_versioned(self, path):
            return True

        def get_file_sha1(self, path):
            return by_name(path)["target_sha"]

        def get_symlink_target(self, path):
            return "target"

        def iter_files_bytes(self, wanted):
            return [(ident, [b"new content"]) for _path, ident in wanted]

    wtree, target = WTree(), Target()

    class Inter:
        def __init__(self, source, tgt):
            self.source, self.tgt = source, tgt

        def find_source_path(self, path):
            if self.source is not basis:
                raise AssertionError("unexpected source tree")
            return path if by_name(path)["in_basis"] else None

    class InterTree:
        get = staticmethod(Inter)
    M.InterTree = InterTree

    class TT:
        def __init__(self):
            self.n = 0

        def trans_id_tree_path(self, path):
            return "tree:" + path

        def trans_id_file_id(self, file_id):
            return "tree:"

        def assign_id(self):
            self.n += 1
            return "new-%d" % self.n

        def create_path(self, name, parent):
            tid = self.assign_id()
            log.append(("create_path", tid, name, parent))
            return tid

        def _available_backup_name(self, name, parent):
            if parent != "tree:":
                raise AssertionError("backup looked for in %r" % (parent,))
            c = by_name(name)
            return m_available_backup_name(name, lambda nm: any(nm == "%s.~%d~" % (name, k) for k in range(1, c["taken"] + 1)))

        def fixup_new_roots(self):
            pass

        def __getattr__(self, op):
            if op.startswith("__"):
                raise AttributeError(op)

            def record(*a, **k):
                log.append((op,) + a)
            return record
    tt = TT()
    with contextlib.ExitStack() as es:
        M._alter_files(es, wtree, target, tt, None, None, backups, merge_modified, basis)
    for c in chg:
        tid = "tree:" + c["name"]
        # user-edited content in the sense of the property: a file whose content differs from the basis (or that the basis
        # does not have at all and the target does not either: a newly added file) and that was not written by a merge
        mm = initial_mm.get(c["name"])
        merge_wrote = mm is not None and T(mm == c["wt_sha"])
        if c["in_basis"]:
            edited = T(c["wt_sha"] != c["basis_sha"])
        else:
            edited = c["target_kind"] is None
        deleted = [e for e in log if e[0] == "delete_contents" and e[1] == tid]
        moved = [e for e in log if e[0] == "adjust_path" and e[3] == tid]
        if not (c["wt_kind"] == "file" and c["changed"] and edited and not merge_wrote):
            cx.cover("not_user_content")
            continue
        if c["target_kind"] is None:
            cx.require(not deleted, "change %d: an edited file that the target does not have must stay in the working "
                       "directory (unversioned); its content was deleted" % c["i"])
            cx.require(not moved, "change %d: an edited file that is only being unversioned was moved: %r" % (c["i"], moved))
            cx.cover("kept_in_place")
        elif backups:
            cx.require(not deleted, "change %d: the file was edited (content differs from the basis, not written by a "
                       "merge) and backups were not switched off, yet its content is deleted" % c["i"])
            want = "%s.~%d~" % (c["name"], c["taken"] + 1)
            cx.require(len(moved) == 1 and moved[0][1] == want and moved[0][2] == "tree:",
                       "change %d: edited content must be moved to the free backup name %s, got %r" % (c["i"], want, moved))
            made = [e for e in log if e[0] == "create_path" and e[2] == c["name"]]
            cx.require(len(made) == 1, "change %d: no fresh path for the reverted content" % c["i"])
            new_tid = made[0][1]
            for e in log:
                if e[0] in ("create_file", "create_symlink", "create_directory") and tid in e[1:]:
                    if not (e[0] == "create_file" and e[1:3] != (tid,) and e[2] == new_tid):
                        cx.require(False, "change %d: reverted content is written onto the path that now holds the "
                                   "backup: %r" % (c["i"], e))
            cx.cover("backed_up_revert")
            if c["taken"]:
                cx.cover("revert_earlier_backup_kept")
        else:
            cx.cover("discard_requested")
    cx.observe("log", [e[:2] for e in log])


def obligations(tier):
    q = tier == "quick"
    p = dict(nfiles=2 if q else 3, lname=2)
    return [Ob("remove", ob_remove, [(WT, dict(symdict=True))], p, 900 if q else 7200, 2 if q else 1,
               ["deleted", "backed_up", "kept", "earlier_backup_kept"], setup=setup,
               bounds="<= %(nfiles)d files with symbolic names of <= %(lname)d chars, each unchanged / modified / newly added / "
                      "unknown / versioned but missing, each with or without an earlier backup NAME.~1~ in the working directory; "
                      "keep or delete, forced or not" % p),
            Ob("revert_backup", ob_revert_backup, [(TR, {})], dict(nchanges=1, ntaken=2 if q else 5), 900 if q else 7200, 2 if q else 1,
               ["not_user_content", "kept_in_place", "backed_up_revert", "revert_earlier_backup_kept", "discard_requested"],
               setup=setup,
               bounds="_alter_files over <= %d reported change(s); working / target kind file / symlink / directory / absent, "
                      "versioned or not, in the basis or not, content hashes of working tree / basis / target / merge record "
                      "symbolic (every pattern of equalities), backups on / off, 0..%d earlier backups present; two changes whose "
                      "paths coincide (a new file on the old name of a renamed one) are outside" % (1, 2 if q else 5))]
