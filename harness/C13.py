"""C13 - applying a tree transform is all-or-nothing on the file system (rename journal + apply phases kernel)."""
import errno as _errno
from symx.runner import Ob

ID = "C13"
TR = "breezy.transform"
BT = "breezy.bzr.transform"
FUNCTIONS = [TR + ":_FileMover.rename", TR + ":_FileMover.pre_delete", TR + ":_FileMover.rollback",
             TR + ":_FileMover.apply_deletions", BT + ":InventoryTreeTransform.apply",
             BT + ":InventoryTreeTransform._apply_removals", BT + ":InventoryTreeTransform._apply_insertions"]
STUBS = ["file system = abstract flat map path -> content token behind os.rename (ENOENT when the source is missing, EEXIST "
         "when the target is occupied) and osutils.delete_any; ONE injected failure at a symbolic operation index with a "
         "symbolic errno (EACCES / EEXIST / ENOTEMPTY / EIO)",
         "the transform object is a stub instance of the real InventoryTreeTransform class: its rename/deletion "
         "bookkeeping (_tree_path_ids, _removed_contents, _new_name, _needs_rename, _new_contents, limbo names, new_paths) is "
         "filled in directly from a symbolic list of entry operations; apply / _apply_removals / _apply_insertions and "
         "_FileMover run for real; the tree records whether its metadata (inventory delta) was applied"]
ASSUMPTIONS = ["entries are files in one directory (renaming a directory with children is outside)",
               "the transform is well formed: old paths distinct, new paths distinct, every occupied target is vacated by the "
               "entry that occupies it (what _check_malformed enforces)",
               "a single failure; a second failure during rollback is outside (rollback then raises and the state is partial)"]
OUTSIDE = ["construction of the transform's bookkeeping by the TreeTransform API, limbo directory management, finalize",
           "directories with children, the git transform's copy of apply", "more entries than the bound"]

POOL = ["a", "b", "c"]
KINDS = ["delete", "create", "rename", "replace", "rename+replace"]
ERRNOS = [_errno.EACCES, _errno.EEXIST, _errno.ENOTEMPTY, _errno.EIO]


def ob_apply(cx):
    T = cx.mod(TR)
    B = cx.mod(BT)
    n = cx.choose("nentries", 1, cx.p("nentries"))
    entries = []
    for i in range(n):
        kind = cx.pick("kind%d" % i, KINDS)
        old = cx.pick("old%d" % i, POOL) if kind != "create" else None
        new = None
        if kind in ("create", "rename", "rename+replace"):
            new = cx.pick("new%d" % i, POOL)
        elif kind == "replace":
            new = old
        if kind in ("rename", "rename+replace") and new == old:
            cx.assume(False)
        on_disk = bool(cx.choose("on_disk%d" % i, 0, 1)) if old is not None else False
        for e in entries:
            if old is not None and e["old"] == old:
                cx.assume(False)
            if new is not None and e["new"] == new:
                cx.assume(False)
        entries.append(dict(i=i, tid="new-%d" % i, kind=kind, old=old, new=new, on_disk=on_disk))
    olds = {e["old"]: e for e in entries if e["old"] is not None}
    for e in entries:       # every occupied target is vacated by its occupant (which may be e itself)
        if e["new"] is not None and e["new"] in olds and olds[e["new"]]["kind"] == "replace" and olds[e["new"]] is not e:
            cx.assume(False)
    fault_at = cx.int("fault_at", -1, cx.p("maxops"))
    fault_errno = cx.pick("errno", ERRNOS)

    fs = {}
    for e in entries:
        if e["old"] is not None and e["on_disk"]:
            fs["/t/" + e["old"]] = ("old", e["i"])
        if e["kind"] in ("create", "replace", "rename+replace"):
            fs["/limbo/" + e["tid"]] = ("new", e["i"])
    initial = dict(fs)
    state = dict(ops=0, injected=None, metadata="old", finalized=False, rolling_back=False)

    def step(what):
        k = state["ops"]
        state["ops"] += 1
        if state["injected"] is None and not state["rolling_back"] and cx.truth(fault_at == k):
            state["injected"] = what
            raise OSError(fault_errno, "injected failure")

    class OS:
        path = cx.real("os").path
        sep = "/"

        @staticmethod
        def rename(a, b):
            step("rename")
            if a not in fs:
                raise OSError(_errno.ENOENT, "no such file")
            fs[b] = fs.pop(a)       # POSIX: renaming a file over an existing file replaces it silently
    T.os = OS

    def delete_any(p):
        step("delete")
        if p not in fs:
            raise OSError(_errno.ENOENT, "no such file")
        del fs[p]
    T.delete_any = delete_any

    class Tree:
        @staticmethod
        def abspath(p):
            return "/t/" + p

        @staticmethod
        def apply_inventory_delta(delta):
            state["metadata"] = "new"

    class Stub(B.InventoryTreeTransform):
        def __init__(self):
            self._tree = Tree
            self._new_root = "new-root"
            self._deletiondir = "/del"
            self._tree_path_ids = {"": "new-root"}
            self._removed_contents = set()
            self._new_name = {}
            self._new_parent = {}
            self._needs_rename = set()
            self._new_contents = {}
            self._new_executability = {}
            self._observed_sha1s = {}
            self._limbo_files = {}
            self._done = False
            for e in entries:
                if e["old"] is not None:
                    self._tree_path_ids[e["old"]] = e["tid"]
                if e["kind"] in ("delete", "replace", "rename+replace"):
                    self._removed_contents.add(e["tid"])
                if e["kind"] in ("rename", "rename+replace"):
                    self._new_name[e["tid"]] = e["new"]
                if e["kind"] in ("create", "replace", "rename+replace"):
                    self._new_contents[e["tid"]] = "file"
                    self._limbo_files[e["tid"]] = "/limbo/" + e["tid"]
                if e["new"] is not None:
                    self._needs_rename.add(e["tid"])

        def _limbo_name(self, trans_id):
            return "/limbo/" + trans_id

        def new_paths(self, filesystem_only=False):
            return sorted((e["new"], e["tid"]) for e in entries if e["new"] is not None)

        def path_changed(self, trans_id):
            return trans_id in self._new_name

        def final_file_id(self, trans_id):
            return b"an-id"

        def tree_kind(self, trans_id):
            for e in entries:
                if e["tid"] == trans_id:
                    return "file" if (e["old"] is not None and e["on_disk"]) else None
            return "directory" if trans_id == "new-root" else None

        def final_kind(self, trans_id):
            for e in entries:
                if e["tid"] == trans_id:
                    if e["new"] is None:
                        return None
                    return "file" if (e["kind"] != "rename" or e["on_disk"]) else None
            return "directory" if trans_id == "new-root" else None

        def finalize(self):
            state["finalized"] = True
    tt = Stub()

    class Mover(T._FileMover):
        def rollback(self):
            state["rolling_back"] = True      # a second failure, during rollback, is outside the claim
            return super().rollback()
    raised = None
    try:
        tt.apply(no_conflicts=True, precomputed_delta=[], _mover=Mover())
    except (AttributeError, TypeError, NameError):
        raise                       # not a file-system failure: a programming error (or a gap in the stub) must surface
    except Exception as exc:
        raised = exc
    inj = state["injected"]
    if raised is not None and inj != "delete" and not any(e["kind"] in ("delete", "replace", "rename+replace") and not e["on_disk"]
                                                          for e in entries) and inj is None:
        cx.require(False, "apply failed without any failing file-system operation: %r" % (raised,))
    want = {}
    for e in entries:
        if e["new"] is None:
            continue
        if e["kind"] == "rename":
            if e["on_disk"]:
                want["/t/" + e["new"]] = ("old", e["i"])
        else:
            want["/t/" + e["new"]] = ("new", e["i"])
    if raised is None:
        cx.require(inj is None, "an injected failure was swallowed (%s)" % inj)
        cx.require(fs == want, "after a successful apply the file system is %r, the transformed layout is %r" % (fs, want))
        cx.require(state["metadata"] == "new", "apply succeeded without updating the tree's metadata")
        cx.cover("applied")
    elif inj == "delete" or (inj is None and state["metadata"] == "new"):
        # the failure happened while discarding replaced content: all renames are done, the files are in the new layout.
        # That much is the recorded behaviour of the known finding and is still required inside its class (a complete
        # return to the old layout would be fine as well); a tree that is neither is a different violation.
        tree_now = {k: v for k, v in fs.items() if k.startswith("/t/")}
        cx.require(tree_now == want or fs == initial,
                   "a failure while discarding replaced content left the tree torn: %r is neither the new layout %r nor the "
                   "old one" % (tree_now, want))
        cx.known("C13-failure-while-discarding-content", inj == "delete")
        cx.require(state["metadata"] == "new", "a failure while discarding replaced content left the metadata describing "
                                               "the old layout although the files are in the new layout")
        cx.cover("deletion_failure")
    else:
        cx.require(fs == initial, "after a failed apply the file system is %r, before it was %r" % (fs, initial))
        cx.require(state["metadata"] == "old", "failed apply updated the metadata")
        if inj is not None:
            cx.cover("rolled_back")
        else:
            cx.cover("natural_failure")
    cx.observe("fs", sorted(fs.items()))
    cx.observe("metadata", state["metadata"])


def obligations(tier):
    q = tier == "quick"
    p = dict(nentries=2 if q else 3, maxops=6 if q else 9)
    return [Ob("apply_fault", ob_apply, [TR, BT], p, 900 if q else 7200, 2 if q else 1,
               ["applied", "rolled_back", "natural_failure"], known=["C13-failure-while-discarding-content"],
               bounds="<= %(nentries)d entries (delete / create / rename / replace content / rename and replace) over the names "
                      "a b c in one directory, each old file present on disk or missing; one failure injected at operation index "
                      "0..%(maxops)d (or none) with errno EACCES / EEXIST / ENOTEMPTY / EIO" % p)]
