"""C16 - uncommit: tip / pending-merge arithmetic over the branch, tree and graph interfaces."""
from symx.runner import Ob

ID = "C16"
UC = "breezy.uncommit"
FUNCTIONS = [UC + ":uncommit"]
STUBS = ["branch, master branch, working tree and graph are interface stubs recording every call (locks, "
         "set_last_revision_info, set_parent_ids); remove_tags (src/uncommit.rs) is replaced by a recorder",
         "history = a left-hand chain of <= N revisions, each with 0..2 merged parents; revision ids are concrete and distinct"]
ASSUMPTIONS = ["1 <= revno <= current revno when a revno is given (cmd_uncommit validates the range before calling)",
               "Branch.hooks['post_uncommit'] is empty"]
OUTSIDE = ["commit followed by uncommit on a real branch and working tree (first sentence of C16)", "tag removal "
           "(src/uncommit.rs)", "histories longer than the bound"]


class _Lockable:
    def __init__(self, log, name):
        self.log = log
        self.name = name
        self.locks = 0

    def lock_write(self):
        self.locks += 1
        self.log.append(("lock", self.name))

    def unlock(self):
        self.locks -= 1
        self.log.append(("unlock", self.name))


class _Graph:
    def __init__(self, chain, parents):
        self.chain = chain
        self.parents = parents

    def iter_lefthand_ancestry(self, tip):
        i = self.chain.index(tip)
        return iter(self.chain[i:])

    def get_parent_map(self, keys):
        return {k: self.parents[k] for k in keys if k in self.parents}


class _Repo:
    def __init__(self, graph):
        self._g = graph

    def get_graph(self):
        return self._g


class _Branch(_Lockable):
    def __init__(self, log, name, revno, tip, graph, master=None, bound=False):
        _Lockable.__init__(self, log, name)
        self._revno, self.tip = revno, tip
        self.repository = _Repo(graph)
        self.master = master
        self.bound = bound

    def get_bound_location(self):
        return "master-url" if self.bound else None

    def get_master_branch(self):
        return self.master

    def last_revision_info(self):
        return self._revno, self.tip

    def revno(self):
        return self._revno

    def last_revision(self):
        return self.tip

    def set_last_revision_info(self, revno, revid):
        self.log.append(("set_tip", self.name, revno, revid))
        self._revno, self.tip = revno, revid

    def supports_tags(self):
        return True


class _Tree(_Lockable):
    def __init__(self, log, parents):
        _Lockable.__init__(self, log, "tree")
        self.parents = list(parents)

    def get_parent_ids(self):
        return list(self.parents)

    def set_parent_ids(self, ids):
        self.log.append(("set_parents", list(ids)))
        self.parents = list(ids)


def ob_uncommit(cx):
    U = cx.mod(UC)
    E = cx.real("breezy.errors")
    n = cx.choose("chain", 1, cx.p("chain"))
    chain = [b"r%d" % i for i in range(n, 0, -1)]          # tip first
    parents = {}
    for i, r in enumerate(chain):
        merged = [b"m%d_%d" % (n - i, j) for j in range(cx.choose("merges%d" % (n - i), 0, cx.p("merges")))]
        left = [chain[i + 1]] if i + 1 < len(chain) else []
        parents[r] = tuple(left + merged)
    graph = _Graph(chain, parents)
    log = []
    bound = bool(cx.choose("bound", 0, 1))
    master_in_sync = True
    master = None
    if bound:
        master_in_sync = bool(cx.choose("master_in_sync", 0, 1))
        master = _Branch(log, "master", n, chain[0] if master_in_sync else b"elsewhere", graph)
    branch = _Branch(log, "branch", n, chain[0], graph, master, bound)
    local = bool(cx.choose("local", 0, 1))
    dry_run = bool(cx.choose("dry_run", 0, 1))
    keep_tags = bool(cx.choose("keep_tags", 0, 1))
    pending = [b"pend%d" % j for j in range(cx.choose("pending", 0, 2))]
    tree = _Tree(log, [chain[0]] + pending) if cx.choose("with_tree", 0, 1) else None
    give_revno = bool(cx.choose("give_revno", 0, 1))
    revno = cx.int("revno", 1, n) if give_revno else None
    tags = []
    U.remove_tags = lambda b, g, old_tip, parents: tags.append((old_tip, list(parents)))
    raised = None
    try:
        U.uncommit(branch, dry_run=dry_run, revno=revno, tree=tree, local=local, keep_tags=keep_tags)
    except E.LocalRequiresBoundBranch:
        raised = "LocalRequiresBoundBranch"
    except U.BoundBranchOutOfDate:
        raised = "BoundBranchOutOfDate"
    # every lock that was taken has been released, in reverse order, on every path
    for obj in (branch, master, tree):
        if obj is not None:
            cx.require(obj.locks == 0, "%s left locked (or unlocked too often)" % obj.name)
    locks = [e for e in log if e[0] in ("lock", "unlock")]
    taken = [e[1] for e in locks if e[0] == "lock"]
    released = [e[1] for e in locks if e[0] == "unlock"]
    cx.require(released == list(reversed(taken)), "locks not released in reverse order: %r / %r" % (taken, released))
    sets = [e for e in log if e[0] == "set_tip"]
    parent_sets = [e for e in log if e[0] == "set_parents"]
    if local and not bound:
        cx.require(raised == "LocalRequiresBoundBranch" and not sets and not parent_sets, "local uncommit of an unbound branch")
        cx.cover("local_unbound")
    elif bound and not local and not master_in_sync:
        cx.require(raised == "BoundBranchOutOfDate" and not sets and not parent_sets,
                   "master and local tips differ but uncommit went ahead")
        cx.cover("out_of_date")
    else:
        cx.require(raised is None, "unexpected %s" % raised)
        want_revno = (revno if give_revno else n) - 1
        k = n - want_revno                      # number of revisions removed (symbolic when revno is)
        removed = []
        new_tip = None
        for i, r in enumerate(chain):
            if cx.truth(i == k):
                new_tip = r
                break
            removed.append(r)
        if new_tip is None:
            new_tip = b"null:"
        if dry_run:
            cx.require(not sets and not parent_sets and not tags, "dry run changed something: %r" % (log,))
            cx.cover("dry_run")
        else:
            use_master = bound and not local
            want_sets = ([("set_tip", "master", want_revno, new_tip)] if use_master else []) + \
                        [("set_tip", "branch", want_revno, new_tip)]
            cx.require(len(sets) == len(want_sets), "tip set %d times, expected %d" % (len(sets), len(want_sets)))
            for got, want in zip(sets, want_sets):
                cx.require(got[1] == want[1], "tip updated on %s, expected %s first" % (got[1], want[1]))
                cx.require(got[2] == want[2], "new revno %r, expected %r" % (got[2], want[2]))
                cx.require(got[3] == want[3], "new tip %r is not the left-hand ancestor %r" % (got[3], want[3]))
            merged = list(pending)
            for r in removed:
                merged.extend(reversed(parents[r][1:]))
            want_parents = ([new_tip] if new_tip != b"null:" else []) + list(reversed(merged))
            if tree is not None:
                cx.require(len(parent_sets) == 1 and parent_sets[0][1] == want_parents,
                           "tree parents %r, expected %r" % (parent_sets and parent_sets[0][1], want_parents))
            else:
                cx.require(not parent_sets, "set_parent_ids without a tree")
            cx.require((len(tags) == 1) == (not keep_tags), "tag removal does not follow keep_tags")
            if tags:
                # tags survive only if they point into what is still referenced: the new tip plus the merged
                # revisions that were re-recorded as pending merges *in a working tree*
                still = want_parents if tree is not None else ([new_tip] if new_tip != b"null:" else [])
                cx.require(tags[0][0] == chain[0], "tag removal is not anchored at the old tip")
                cx.require(tags[0][1] == still, "tag removal keeps tags reachable from %r, expected %r" % (tags[0][1], still))
            cx.cover("uncommitted")
            if len(removed) > 1:
                cx.cover("several")
            if new_tip == b"null:":
                cx.cover("to_null")
    cx.observe("log", log)
    cx.observe("raised", raised)


def obligations(tier):
    q = tier == "quick"
    p = dict(chain=3 if q else 5, merges=2)
    return [Ob("uncommit", ob_uncommit, [UC], p, 900 if q else 7200, 3 if q else 1,
               ["local_unbound", "out_of_date", "dry_run", "uncommitted", "several", "to_null"],
               bounds="left-hand chains of <= %(chain)d revisions with 0..%(merges)d merged parents each, symbolic revno in "
                      "1..current, bound/unbound, local, dry_run, keep_tags, with/without tree, 0..2 existing pending merges" % p)]
