"""C17 - tree merges obey the three-way merge laws (name / parent and executable-bit kernels)."""
from symx.runner import Ob

ID = "C17"
MG = "breezy.merge"
FUNCTIONS = [MG + ":Merge3Merger._merge_names", MG + ":Merge3Merger._merge_executable", MG + ":Merge3Merger._three_way",
             MG + ":_path_dirname", MG + ":Merge3Merger._compute_transform"]
STUBS = ["trees and TreeTransform are recording stubs (adjust_path / set_executability / final_kind, _parent_trans_id)",
         "names and parents of the three trees are SYMBOLIC comparators (integers standing for names / directory ids: "
         "_merge_names only compares them); the per-tree paths are fixed strings"]
ASSUMPTIONS = ["the entry exists in all three trees (deletions / additions go through other code paths)",
               "reference = the laws of C17 applied to one attribute at a time: the side that changed it wins, identical "
               "changes and unchanged attributes never conflict, different changes on both sides are a path conflict"]
OUTSIDE = ["_entries3 / _entries_lca over real trees, _do_merge_contents (kinds and texts), LCA and weave merge types, "
           "entries missing in one of the trees, git trees", "conflict cooking and the final tree on disk"]

PATHS = ("bdir/b", "odir/o", "tdir/t")          # BASE, OTHER, THIS


class _TT:
    def __init__(self, kind):
        self.moves = []
        self.execs = []
        self.kind = kind

    def adjust_path(self, name, parent, trans_id):
        self.moves.append((name, parent, trans_id))

    def set_executability(self, value, trans_id):
        self.execs.append((value, trans_id))

    def final_kind(self, trans_id):
        return self.kind


class _Tree:
    supports_file_ids = False

    def __init__(self, who):
        self.who = who


def _merger(cx, kind="file"):
    M = cx.mod(MG)
    m = object.__new__(M.Merge3Merger)
    m.base_tree, m.other_tree, m.this_tree = _Tree("base"), _Tree("other"), _Tree("this")
    m._lca_trees = None
    m.tt = _TT(kind)
    m._raw_conflicts = []
    m._parent_trans_id = lambda tree, path: ("dir-of", tree.who, path)
    return M, m


def ob_names(cx):
    M, m = _merger(cx)
    T = cx.truth
    names = tuple(cx.int("name_" + w, 0, 3) for w in ("base", "other", "this"))
    parents = tuple(cx.int("parent_" + w, 0, 3) for w in ("base", "other", "this"))
    m._merge_names("tid", PATHS, parents, names, m._three_way)

    def side(vals):
        b, o, t = vals
        if T(o == b) or T(o == t):
            return "this"               # OTHER did not touch it, or both made the same change: THIS already has it
        if T(t == b):
            return "other"              # only OTHER changed it
        return "conflict"
    ns, ps = side(names), side(parents)
    conflicts = [c for c in m._raw_conflicts if c[0] == "path conflict"]
    if ns == "conflict" or ps == "conflict":
        cx.require(len(conflicts) == 1, "both sides changed the name / directory differently and no path conflict is recorded")
        c = conflicts[0]
        cx.require(c[1] == "tid" and c[2] == ("dir-of", "this", "tdir") and c[4] == ("dir-of", "other", "odir")
                   and T(c[3] == names[2]) and T(c[5] == names[1]), "path conflict does not describe the two sides")
        cx.cover("conflict")
    else:
        cx.require(not conflicts, "path conflict although at most one side changed each attribute (or both agree)")
    if ns == "this" and ps == "this":
        cx.require(not m.tt.moves, "OTHER left name and directory alone, yet the entry was moved")
        cx.cover("other_unchanged")
    else:
        cx.require(len(m.tt.moves) == 1, "the entry was moved %d times" % len(m.tt.moves))
        name, parent, tid = m.tt.moves[0]
        want_name = names[1] if ns in ("other", "conflict") else names[2]
        want_parent = ("dir-of", "other", "odir") if ps in ("other", "conflict") else ("dir-of", "this", "tdir")
        cx.require(tid == "tid" and T(name == want_name), "the merged entry does not get the name of the side that changed it")
        cx.require(parent == want_parent, "the merged entry does not get the directory of the side that changed it: %r" % (parent,))
        if ns == "other" and ps == "this" and not T(parents[2] == parents[0]):
            cx.cover("union")               # OTHER renamed, THIS moved: both changes survive
        if T(names[2] == names[0]) and T(parents[2] == parents[0]):
            cx.cover("this_unchanged")
    cx.observe("moves", list(m.tt.moves))
    cx.observe("nconflicts", len(conflicts))


def ob_executable(cx):
    M, m = _merger(cx, kind=cx.pick("final_kind", ["file", "directory"]))
    T = cx.truth
    bits = tuple(bool(cx.choose("exec_" + w, 0, 1)) for w in ("base", "other", "this"))
    status = cx.pick("file_status", ["unmodified", "modified", "deleted"])
    m._merge_executable(PATHS, "tid", bits, status, m._three_way)
    b, o, t = bits
    want = o if (o != b) else t          # three-way on a boolean never conflicts when all three exist
    if status == "deleted" or m.tt.kind != "file":
        cx.require(not m.tt.execs, "executable bit set on a deleted entry / a non-file")
        cx.cover("untouched")
    elif (o == b or o == t) and status != "modified":
        cx.require(not m.tt.execs, "THIS already has the merged executable bit and the content is unmodified, yet it was set")
        cx.cover("other_unchanged")
    else:
        cx.require(m.tt.execs == [(want, "tid")], "executable bit after the merge is %r, the three-way result is %r" % (m.tt.execs, want))
        cx.cover("set")
    cx.observe("execs", list(m.tt.execs))


def ob_entry_loop(cx):
    """_compute_transform: the per-entry decisions of one entry depend on that entry alone.  The entry iterator yields a
    symbolic sequence of entries (changed or not, copied or not, content status symbolic); the name / content / executable
    steps are recording stand-ins; each entry's executable step must see the content status of THAT entry ('unmodified'
    when its content did not change), whatever the entries before it were."""
    M = cx.mod(MG)
    T = cx.truth
    n = cx.choose("nentries", 1, cx.p("nentries"))
    entries, want = [], []
    for i in range(n):
        changed = cx.bool("changed%d" % i)
        copied = cx.bool("copied%d" % i)
        status = cx.int("status%d" % i, 0, 3)
        paths3 = ("b%d" % i, "o%d" % i, "t%d" % i)
        entries.append((b"id-%d" % i, changed, paths3, (1, 2, 3), ("b", "o", "t"), (False, True, False), copied))
        want.append((changed, copied, status))
    STATUS = ["unmodified", "modified", "deleted", "conflicted"]
    calls = []

    class TT:
        @staticmethod
        def trans_id_file_id(fid):
            return "tid-" + fid.decode()

        @staticmethod
        def trans_id_tree_path(p):
            return "tid-" + p

        @staticmethod
        def assign_id():
            return "tid-new"

        @staticmethod
        def fixup_new_roots():
            calls.append(("fixup",))

    class PB:
        def __enter__(self):
            return self

        def __exit__(self, *a):
            return False

        def update(self, *a):
            pass

    class UI:
        class ui_factory:
            nested_progress_bar = staticmethod(lambda: PB())
    M.ui = UI
    m = object.__new__(M.Merge3Merger)
    m._lca_trees = None
    m.this_tree = _Tree("this")
    m.this_tree.supports_file_ids = True
    m.tt = TT
    m._entries3 = lambda: iter(entries)
    m._merge_names = lambda trans_id, paths3, parents3, names3, resolver: calls.append(("names", trans_id, paths3))

    def contents(paths3, trans_id):
        k = int(trans_id[len("tid-id-"):])
        calls.append(("contents", trans_id, paths3))
        s = want[k][2]
        return STATUS[0 if T(s == 0) else 1 if T(s == 1) else 2 if T(s == 2) else 3]
    m._do_merge_contents = contents
    m._merge_executable = lambda paths3, trans_id, executable3, file_status, resolver: calls.append(
        ("exec", trans_id, paths3, executable3, file_status))
    m._finish_computing_transform = lambda: calls.append(("finish",))
    M.Merger.hooks = {"merge_file_content": []}          # no per-file merge hooks (plugins)
    m._compute_transform()
    pos = 0
    for i in range(n):
        changed, copied, status = want[i]
        tid = "tid-id-%d" % i
        is_copy = T(copied)
        p3 = (None, "o%d" % i, None) if is_copy else ("b%d" % i, "o%d" % i, "t%d" % i)
        cx.require(calls[pos] == ("names", tid, p3), "entry %d: name step missing or out of order: %r" % (i, calls[pos]))
        pos += 1
        if is_copy or T(changed):
            cx.require(calls[pos] == ("contents", tid, p3), "entry %d: content step missing: %r" % (i, calls[pos]))
            pos += 1
            st = STATUS[0 if T(status == 0) else 1 if T(status == 1) else 2 if T(status == 2) else 3]
            cx.cover("content_merged")
        else:
            st = "unmodified"
            if i > 0:
                cx.cover("unchanged_after_other_entry")
        c = calls[pos]
        cx.require(c[0] == "exec" and c[1] == tid and c[2] == p3, "entry %d: executable step missing or out of order: %r" % (i, c))
        cx.require(c[4] == st, "entry %d: the executable-bit step was told the content is %r, this entry's content is %r" %
                   (i, c[4], st))
        cx.require(c[3] == ((None, True, None) if is_copy else (False, True, False)), "entry %d: wrong executable triple" % i)
        pos += 1
    cx.require(calls[pos:] == [("fixup",), ("finish",)], "unexpected steps after the last entry: %r" % (calls[pos:],))
    cx.observe("steps", [c[0] for c in calls])


def obligations(tier):
    q = tier == "quick"
    to = 900 if q else 3600
    return [
        Ob("entry_loop", ob_entry_loop, [MG], dict(nentries=2 if q else 3), to, 1,
           ["content_merged", "unchanged_after_other_entry"],
           bounds="<= %d entries, each changed / unchanged / copied with content status unmodified / modified / deleted / "
                  "conflicted (symbolic)" % (2 if q else 3)),
        Ob("merge_names", ob_names, [MG], {}, to, 1, ["conflict", "other_unchanged", "this_unchanged", "union"],
           bounds="name and directory of the entry in BASE / OTHER / THIS: six symbolic comparators (4 values each, enough for "
                  "every equality pattern of three values)"),
        Ob("merge_executable", ob_executable, [MG], {}, to, 1, ["untouched", "other_unchanged", "set"],
           bounds="executable bit in BASE / OTHER / THIS, file status unmodified / modified / deleted, final kind file / directory"),
    ]
