"""C17 - tree merges obey the three-way merge laws (name / parent and executable-bit kernels)."""
from symx.runner import Ob

ID = "C17"
MG = "breezy.merge"
FUNCTIONS = [MG + ":Merge3Merger._merge_names", MG + ":Merge3Merger._merge_executable", MG + ":Merge3Merger._three_way",
             MG + ":_path_dirname"]
STUBS = ["trees and TreeTransform are recording stubs (adjust_path / set_executability / final_kind, _parent_trans_id)",
         "names and parents of the three trees are SYMBOLIC comparators (integers standing for names / directory ids: "
         "_merge_names only compares them); the per-tree paths are fixed strings"]
ASSUMPTIONS = ["the entry exists in all three trees (deletions / additions go through other code paths)",
               "reference = the laws of C17 applied to one attribute at a time: the side that changed it wins, identical "
               "changes and unchanged attributes never conflict, different changes on both sides are a path conflict"]
OUTSIDE = ["_entries3 / _entries_lca over real trees, _do_merge_contents (kinds and texts), LCA and weave merge types, "
           "entries missing in one of the trees, git trees", "conflict cooking and the final tree on disk"]

PATHS = ("bdir/b", "odir/o", "tdir/t")          # BASE, OTHER, THIS


class _TT:
    def __init__(self, kind):
        self.moves = []
        self.execs = []
        self.kind = kind

    def adjust_path(self, name, parent, trans_id):
        self.moves.append((name, parent, trans_id))

    def set_executability(self, value, trans_id):
        self.execs.append((value, trans_id))

    def final_kind(self, trans_id):
        return self.kind


class _Tree:
    supports_file_ids = False

    def __init__(self, who):
        self.who = who


def _merger(cx, kind="file"):
    M = cx.mod(MG)
    m = object.__new__(M.Merge3Merger)
    m.base_tree, m.other_tree, m.this_tree = _Tree("base"), _Tree("other"), _Tree("this")
    m._lca_trees = None
    m.tt = _TT(kind)
    m._raw_conflicts = []
    m._parent_trans_id = lambda tree, path: ("dir-of", tree.who, path)
    return M, m


def ob_names(cx):
    M, m = _merger(cx)
    T = cx.truth
    names = tuple(cx.int("name_" + w, 0, 3) for w in ("base", "other", "this"))
    parents = tuple(cx.int("parent_" + w, 0, 3) for w in ("base", "other", "this"))
    m._merge_names("tid", PATHS, parents, names, m._three_way)

    def side(vals):
        b, o, t = vals
        if T(o == b) or T(o == t):
            return "this"               # OTHER did not touch it, or both made the same change: THIS already has it
        if T(t == b):
            return "other"              # only OTHER changed it
        return "conflict"
    ns, ps = side(names), side(parents)
    conflicts = [c for c in m._raw_conflicts if c[0] == "path conflict"]
    if ns == "conflict" or ps == "conflict":
        cx.require(len(conflicts) == 1, "both sides changed the name / directory differently and no path conflict is recorded")
        c = conflicts[0]
        cx.require(c[1] == "tid" and c[2] == ("dir-of", "this", "tdir") and c[4] == ("dir-of", "other", "odir")
                   and T(c[3] == names[2]) and T(c[5] == names[1]), "path conflict does not describe the two sides")
        cx.cover("conflict")
    else:
        cx.require(not conflicts, "path conflict although at most one side changed each attribute (or both agree)")
    if ns == "this" and ps == "this":
        cx.require(not m.tt.moves, "OTHER left name and directory alone, yet the entry was moved")
        cx.cover("other_unchanged")
    else:
        cx.require(len(m.tt.moves) == 1, "the entry was moved %d times" % len(m.tt.moves))
        name, parent, tid = m.tt.moves[0]
        want_name = names[1] if ns in ("other", "conflict") else names[2]
        want_parent = ("dir-of", "other", "odir") if ps in ("other", "conflict") else ("dir-of", "this", "tdir")
        cx.require(tid == "tid" and T(name == want_name), "the merged entry does not get the name of the side that changed it")
        cx.require(parent == want_parent, "the merged entry does not get the directory of the side that changed it: %r" % (parent,))
        if ns == "other" and ps == "this" and not T(parents[2] == parents[0]):
            cx.cover("union")               # OTHER renamed, THIS moved: both changes survive
        if T(names[2] == names[0]) and T(parents[2] == parents[0]):
            cx.cover("this_unchanged")
    cx.observe("moves", list(m.tt.moves))
    cx.observe("nconflicts", len(conflicts))


def ob_executable(cx):
    M, m = _merger(cx, kind=cx.pick("final_kind", ["file", "directory"]))
    T = cx.truth
    bits = tuple(bool(cx.choose("exec_" + w, 0, 1)) for w in ("base", "other", "this"))
    status = cx.pick("file_status", ["unmodified", "modified", "deleted"])
    m._merge_executable(PATHS, "tid", bits, status, m._three_way)
    b, o, t = bits
    want = o if (o != b) else t          # three-way on a boolean never conflicts when all three exist
    if status == "deleted" or m.tt.kind != "file":
        cx.require(not m.tt.execs, "executable bit set on a deleted entry / a non-file")
        cx.cover("untouched")
    elif (o == b or o == t) and status != "modified":
        cx.require(not m.tt.execs, "THIS already has the merged executable bit and the content is unmodified, yet it was set")
        cx.cover("other_unchanged")
    else:
        cx.require(m.tt.execs == [(want, "tid")], "executable bit after the merge is %r, the three-way result is %r" % (m.tt.execs, want))
        cx.cover("set")
    cx.observe("execs", list(m.tt.execs))


def obligations(tier):
    q = tier == "quick"
    to = 900 if q else 3600
    return [
        Ob("merge_names", ob_names, [MG], {}, to, 1, ["conflict", "other_unchanged", "this_unchanged", "union"],
           bounds="name and directory of the entry in BASE / OTHER / THIS: six symbolic comparators (4 values each, enough for "
                  "every equality pattern of three values)"),
        Ob("merge_executable", ob_executable, [MG], {}, to, 1, ["untouched", "other_unchanged", "set"],
           bounds="executable bit in BASE / OTHER / THIS, file status unmodified / modified / deleted, final kind file / directory"),
    ]
