"""C18 - merge decision rules are symmetric and consistent with their LCA extension."""
from symx.runner import Ob

ID = "C18"
MG = "breezy.merge"
FUNCTIONS = [MG + ":Merge3Merger._three_way", MG + ":Merge3Merger._lca_multi_way"]
STUBS = []
ASSUMPTIONS = ["attribute values are compared only with == / in, so unbounded integers stand for arbitrary hashable "
               "values (set(...) of symbolic values is an association-list set decided by ==)"]
OUTSIDE = ["more LCAs than the stated bound", "the tree-level merge that calls these rules (C17)"]

SWAP = {"this": "other", "other": "this", "conflict": "conflict"}


def _vals(cx):
    base, other, this = cx.atom("base"), cx.atom("other"), cx.atom("this")
    n = cx.choose("nlca", 0, cx.p("nlca"))
    lcas = [cx.atom("lca%d" % i) for i in range(n)]
    return base, other, this, lcas


def ob_three_way(cx):
    M = cx.mod(MG).Merge3Merger
    base, other, this = cx.atom("base"), cx.atom("other"), cx.atom("this")
    r = M._three_way(base, other, this)
    rs = M._three_way(base, this, other)
    cx.require(r in SWAP, "result %r not one of this/other/conflict" % (r,))
    if cx.truth(this == other):
        cx.require(r == "this" and rs == "this", "tie-break when both sides agree: %r/%r" % (r, rs))
        cx.cover("agree")
    else:
        cx.require(rs == SWAP[r], "exchanging THIS and OTHER gave %r, expected %r" % (rs, SWAP[r]))
        if cx.truth(this == base):
            cx.require(r == "other", "THIS unchanged, OTHER changed, but result %r" % (r,))
            cx.cover("other_wins")
        elif cx.truth(other == base):
            cx.require(r == "this", "OTHER unchanged, THIS changed, but result %r" % (r,))
        else:
            cx.require(r == "conflict", "both sides changed differently but result %r" % (r,))
            cx.cover("conflict")
    cx.observe("r", r)


def ob_lca(cx):
    M = cx.mod(MG).Merge3Merger
    base, other, this, lcas = _vals(cx)
    allow = bool(cx.choose("allow_overriding_lca", 0, 1))
    r = M._lca_multi_way((base, list(lcas)), other, this, allow_overriding_lca=allow)
    rs = M._lca_multi_way((base, list(lcas)), this, other, allow_overriding_lca=allow)
    cx.require(r in SWAP, "result %r not one of this/other/conflict" % (r,))
    agree = cx.truth(this == other)
    if agree:
        cx.require(r == "this" and rs == "this", "tie-break when both sides agree: %r/%r" % (r, rs))
    else:
        cx.require(rs == SWAP[r], "exchanging THIS and OTHER gave %r, expected %r" % (rs, SWAP[r]))
    anc = [base] + lcas
    this_in = any(cx.truth(this == a) for a in anc)
    other_in = any(cx.truth(other == a) for a in anc)
    # all LCAs carry the same value (or there are none): must equal the plain three-way decision
    if all(cx.truth(l == lcas[0]) for l in lcas):
        v = lcas[0] if lcas else base
        cx.require(r == M._three_way(v, other, this), "LCA decision differs from the three-way decision on the common LCA value")
        if lcas and all(cx.truth(l == base) for l in lcas):
            cx.require(r == M._three_way(base, other, this), "LCAs equal to BASE must not change the decision")
        cx.cover("uniform")
    if not agree:
        if this_in and not other_in:
            cx.require(r != "this", "THIS carries an ancestor value, OTHER a new one, yet THIS wins")
        if other_in and not this_in:
            cx.require(r != "other", "OTHER carries an ancestor value, THIS a new one, yet OTHER wins")
        if all(cx.truth(this == a) for a in anc):
            cx.require(r == "other", "THIS equals every ancestor and OTHER differs, result %r" % (r,))
            cx.cover("unchanged_this")
        if all(cx.truth(other == a) for a in anc):
            cx.require(r == "this", "OTHER equals every ancestor and THIS differs, result %r" % (r,))
        if not this_in and not other_in:
            cx.require(r == "conflict", "both sides new and different, result %r" % (r,))
            cx.cover("both_new")
    cx.observe("r", r)
    if len(lcas) >= 2 and not cx.truth(lcas[0] == lcas[1]):
        cx.cover("distinct_lcas")


def obligations(tier):
    q = tier == "quick"
    p = dict(nlca=4 if q else 6)
    return [
        Ob("three_way", ob_three_way, [MG], {}, 600, 1, ["agree", "other_wins", "conflict"],
           bounds="unbounded values (integers standing for hashable values)"),
        Ob("lca_multi_way", ob_lca, [MG], p, 900 if q else 7200, 1 if not q else 1,
           ["uniform", "unchanged_this", "both_new", "distinct_lcas"],
           bounds="unbounded values, <= %(nlca)d LCAs, allow_overriding_lca both ways" % p),
    ]
