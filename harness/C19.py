"""C19 - text conflicts are reported exactly when conflict markers are written (text_merge kernel)."""
from symx.runner import Ob

ID = "C19"
MG = "breezy.merge"
M3 = "merge3"
FUNCTIONS = [MG + ":WeaveMerger.text_merge", MG + ":Merge3Merger.text_merge", MG + ":Merge3Merger.get_lines", M3 + ":Merge3.merge_lines",
             M3 + ":Merge3.merge_regions", M3 + ":Merge3.find_sync_regions", M3 + ":Merge3.reprocess_merge_regions"]
STUBS = ["sequence matcher (patiencediff.PatienceSequenceMatcher, compiled) -> stub whose matching blocks are the alignment "
         "of the symbolic edit scripts base->THIS and base->OTHER (kept lines match); for any other pair of regions it "
         "reports no matching lines (a valid, if uninformative, alignment)",
         "trees, TreeTransform (create_file / final_name / final_parent) and _dump_conflicts are recording stubs; "
         "textfile.check_text_lines (binary detection) is a no-op: lines contain no NUL",
         "the pure-python merge3 package is lifted together with breezy.merge"]
ASSUMPTIONS = ["THIS and OTHER are derived from BASE by per-line edit scripts (keep / delete / replace, plus an optional "
               "appended line); line contents are symbolic bytes terminated by LF, or the special line that starts with "
               "breezy's internal conflict sentinel",
               "the reference for 'has conflicting regions' is merge3's own region computation on the same inputs"]
OUTSIDE = ["real trees and TreeTransform, helper-file contents on disk, conflict resolution (take-this / take-other)",
           "the plan-based merges of the weave and lca merge types (versioned files, compiled); only what their text_merge "
           "does with the plan's result is covered", "missing trailing newlines", "texts longer than the bound"]

SENTINEL = b"!START OF MERGE CONFLICT!" + b"I HOPE THIS IS UNIQUE"
K_SENTINEL = "C19-line-starts-with-sentinel"
OPS = ["keep", "delete", "replace"]


def _newline(cx, name):
    if cx.p("sentinel") and cx.choose(name + ".sentinel", 0, 1):
        return SENTINEL + b" x\n", True
    return cx.bytes(name, 1, list(range(1, 256))) + b"\n", False


def _side(cx, tag, base, script=None, fresh=None):
    """Apply an edit script to base.  Returns (lines, matching blocks, script, has_sentinel, fresh lines)."""
    n = len(base)
    if script is None:
        script = [cx.pick("%s.op%d" % (tag, i), OPS) for i in range(n)] + [bool(cx.choose(tag + ".append", 0, 1))]
    lines = []
    blocks = []
    sent = False
    made = []
    k = 0
    for i in range(n):
        op = script[i]
        if op == "keep":
            blocks.append((i, len(lines), 1))
            lines.append(base[i])
        elif op == "replace":
            if fresh is not None:
                l, s = fresh[k]
            else:
                l, s = _newline(cx, "%s.new%d" % (tag, i))
            made.append((l, s))
            k += 1
            sent = sent or s
            lines.append(l)
    if script[n]:
        if fresh is not None:
            l, s = fresh[k]
        else:
            l, s = _newline(cx, "%s.app" % tag)
        made.append((l, s))
        sent = sent or s
        lines.append(l)
    # merge adjacent blocks
    merged = []
    for b in blocks:
        if merged and merged[-1][0] + merged[-1][2] == b[0] and merged[-1][1] + merged[-1][2] == b[1]:
            merged[-1] = (merged[-1][0], merged[-1][1], merged[-1][2] + 1)
        else:
            merged.append(b)
    merged.append((n, len(lines), 0))
    return lines, merged, script, sent, made


class _Tree:
    def __init__(self, lines):
        self.lines = lines

    def kind(self, path):
        return "file"

    def get_file_lines(self, path):
        return self.lines

    def supports_content_filtering(self):
        return False


class _TT:
    def __init__(self):
        self.created = None

    def create_file(self, chunks, trans_id):
        self.created = list(chunks)

    def final_name(self, trans_id):
        return "file"

    def final_parent(self, trans_id):
        return "parent"


def ob_text_merge(cx):
    M = cx.mod(MG)
    nb = cx.choose("nbase", 0, cx.p("nbase"))
    base = [cx.bytes("base%d" % i, 1, list(range(1, 256))) + b"\n" for i in range(nb)]
    mode = cx.pick("mode", ["independent", "other_unchanged", "this_unchanged", "identical"])
    this, this_blocks, tscript, tsent, tfresh = _side(cx, "this", base,
                                                       script=(["keep"] * nb + [False]) if mode == "this_unchanged" else None)
    if mode == "other_unchanged":
        other, other_blocks, oscript, osent, _ = _side(cx, "other", base, script=["keep"] * nb + [False])
    elif mode == "identical":
        other, other_blocks, oscript, osent, _ = _side(cx, "other", base, script=tscript, fresh=tfresh)
    else:
        other, other_blocks, oscript, osent, _ = _side(cx, "other", base)
    cx.known(K_SENTINEL, tsent or osent)
    # three empty texts have identical content and never reach the text merge (the content decision takes a side)
    cx.assume(bool(base or this or other))
    registry = {}

    class Matcher:
        def __init__(self, isjunk, a, b):
            self.blocks = registry.get((id(a), id(b)))
            self.la, self.lb = len(a), len(b)

        def get_matching_blocks(self):
            if self.blocks is not None:
                return list(self.blocks)
            return [(self.la, self.lb, 0)]
    registry[(id(base), id(this))] = this_blocks
    registry[(id(base), id(other))] = other_blocks

    class PD:
        PatienceSequenceMatcher = Matcher
    M.patiencediff = PD

    class TF:
        @staticmethod
        def check_text_lines(lines):
            return None
    M.textfile = TF
    merger = object.__new__(M.Merge3Merger)
    merger.base_tree, merger.this_tree, merger.other_tree = _Tree(base), _Tree(this), _Tree(other)
    merger.cherrypick = False
    merger.show_base = bool(cx.choose("show_base", 0, 1))
    merger.reprocess = (not merger.show_base) and bool(cx.choose("reprocess", 0, 1))
    merger.tt = _TT()
    merger._raw_conflicts = []
    dumped = []
    named = []
    merger._dump_conflicts = (lambda name, paths, parent_id, lines=None, no_base=False:
                              (named.append((name, parent_id)), dumped.append(lines))[0] or [])
    merger.text_merge("trans-id", ("p", "p", "p"))
    out = merger.tt.created
    recorded = ("text conflict", "trans-id") in merger._raw_conflicts
    # reference: does the three-way merge of these texts have conflicting regions?
    from_m3 = cx.mod(M3) if cx.sym else cx.real(M3)
    ref = from_m3.Merge3(base, this, other, is_cherrypick=False, sequence_matcher=Matcher)
    regions = list(ref.merge_regions())
    has_conflict = any(r[0] == "conflict" for r in regions)
    cx.require(recorded == has_conflict,
               "text conflict %s although the three-way merge %s conflicting regions" %
               ("recorded" if recorded else "not recorded", "has" if has_conflict else "has no"))
    if recorded:
        cx.require(len(dumped) == 1 and dumped[0][0] is base and dumped[0][1] is other and dumped[0][2] is this,
                   "helper files are not written from exactly the BASE, OTHER and THIS texts")
        # the helpers sit next to the merged file under ITS name in the result (here the other side renamed p -> file), so
        # that resolving the conflict finds and removes them
        cx.require(named == [("file", "parent")], "helper files are named / placed after %r, the merged file is ('file', 'parent')"
                   % (named,))
        # marker lines end with the text's own newline convention, so compare prefixes (lines are >= 2 bytes long only
        # when they are markers or the sentinel line, which is excluded/known)
        nstart = sum(1 for l in out if len(l) > 12 and cx.truth(l[:12] == b"<<<<<<< TREE"))
        nend = sum(1 for l in out if len(l) > 20 and cx.truth(l[:20] == b">>>>>>> MERGE-SOURCE"))
        ncon = sum(1 for r in regions if r[0] == "conflict")
        cx.require(nstart >= 1 and nend >= 1, "conflict recorded but no conflict markers in the file")
        if not merger.reprocess:
            cx.require(nstart == ncon and nend == ncon, "number of marker pairs differs from the number of conflicting regions")
        cx.cover("conflict")
    else:
        cx.require(not dumped, "helper files written without a conflict")
        # the cleanly merged text: region by region
        want = []
        for r in regions:
            if r[0] == "unchanged":
                want += base[r[1]:r[2]]
            elif r[0] in ("a", "same"):
                want += this[r[1]:r[2]]
            elif r[0] == "b":
                want += other[r[1]:r[2]]
        cx.require(len(out) == len(want), "clean merge has %d lines, expected %d" % (len(out), len(want)))
        for a, b in zip(out, want):
            cx.require(a == b, "clean merge changed a line")
        cx.cover("clean")
    if mode == "other_unchanged":
        cx.require(not recorded and len(out) == len(this) and all(cx.truth(a == b) for a, b in zip(out, this)),
                   "OTHER equals BASE but the result is not THIS / a conflict was recorded")
    if mode == "this_unchanged":
        cx.require(not recorded and len(out) == len(other) and all(cx.truth(a == b) for a, b in zip(out, other)),
                   "THIS equals BASE but the result is not OTHER / a conflict was recorded")
    if mode == "identical":
        cx.require(not recorded and len(out) == len(this) and all(cx.truth(a == b) for a, b in zip(out, this)),
                   "both sides made identical changes but the result is not that text / a conflict was recorded")
    cx.observe("out", out)
    cx.observe("recorded", recorded)
    cx.cover(mode)


def ob_plan_text_merge(cx):
    """WeaveMerger / LCAMerger.text_merge: the plan-based merge (outside: versioned files, compiled) hands back the merged
    lines and, when it found conflicting regions, the reconstructed base text - which may be EMPTY.  A conflict must be
    recorded, with helper files, exactly when the plan reported one, whatever the base text looks like."""
    M = cx.mod(MG)
    klass = cx.pick("merger", ["WeaveMerger", "LCAMerger"])
    conflicts = bool(cx.choose("plan_has_conflicts", 0, 1))
    nbase = cx.choose("nbase", 0, 2)
    base_lines = [cx.bytes("base%d" % i, 1, b"xy") + b"\n" for i in range(nbase)] if conflicts else None
    lines = [cx.bytes("line%d" % i, 1, b"xy") + b"\n" for i in range(cx.choose("nlines", 0, 2))]

    class TF:
        @staticmethod
        def check_text_lines(ls):
            return None
    M.textfile = TF
    merger = object.__new__(getattr(M, klass))
    merger.tt = _TT()
    merger._raw_conflicts = []
    merger._merged_lines = lambda this_path: (iter(lines), base_lines)
    dumped, named = [], []
    group = []

    def dump(name, paths, parent_id, lines=None, no_base=False):
        named.append((name, parent_id))
        dumped.append((lines, no_base))
        return group
    merger._dump_conflicts = dump
    merger.text_merge("trans-id", ("p", "p", "p"))
    out = merger.tt.created
    cx.require(len(out) == len(lines) and all(a is b for a, b in zip(out, lines)), "the merged lines were not written as they are")
    recorded = ("text conflict", "trans-id") in merger._raw_conflicts
    cx.require(recorded == conflicts, "text conflict %s although the merge plan %s conflicting regions (base text of %d lines)" %
               ("recorded" if recorded else "not recorded", "has" if conflicts else "has no", nbase))
    if conflicts:
        cx.require(len(dumped) == 1 and dumped[0][0][0] is base_lines and dumped[0][1] is False,
                   "helper files are not written with the reconstructed BASE text")
        cx.require(named == [("file", "parent")], "helper files are named / placed after %r" % (named,))
        cx.require(group == ["trans-id"], "the merged file is not part of the conflict's file group")
        cx.cover("conflict")
        if nbase == 0:
            cx.cover("conflict_with_empty_base")
    else:
        cx.require(not dumped, "helper files written without a conflict")
        cx.cover("clean")
    cx.observe("recorded", recorded)


def obligations(tier):
    q = tier == "quick"
    p = dict(nbase=2 if q else 3, sentinel=True)
    return [Ob("plan_text_merge", ob_plan_text_merge, [MG], {}, 600, 1, ["conflict", "conflict_with_empty_base", "clean"],
               bounds="weave / lca merge types: merged text <= 2 lines, plan with or without conflicts, reconstructed base text of "
                      "0..2 lines (symbolic bytes)"),
            Ob("text_merge", ob_text_merge, [M3, MG], p, 900 if q else 7200, 3 if q else 1,
               ["conflict", "clean", "independent", "other_unchanged", "this_unchanged", "identical"], known=[K_SENTINEL],
               bounds="BASE <= %(nbase)d lines; THIS / OTHER by per-line keep/delete/replace + optional appended line; symbolic "
                      "1-byte line contents (or the sentinel line); show_base / reprocess options" % p)]
