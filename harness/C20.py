"""C20 - marking conflicts resolved removes exactly the selected conflicts (selection kernel)."""
from symx.runner import Ob
from .util import startswith

ID = "C20"
CF = "breezy.bzr.conflicts"
FUNCTIONS = [CF + ":ConflictList.select_conflicts", CF + ":Conflict.__init__", CF + ":PathConflict.__init__"]
STUBS = ["tree = stub whose path2id answers with a symbolic file id (or None) per requested path",
         "osutils.is_inside_any (Rust) -> python model (a path is inside a directory if equal, or if it starts with "
         "directory + '/', or the directory is ''), compared with the compiled function on all pairs of strings of "
         "length <= 3 over the path alphabet before each run",
         "set()/dict literals of the lifted module are association-list containers"]
ASSUMPTIONS = ["reference: a conflict is selected iff one of its paths is among the given paths (or, with recursion, lies "
               "inside one of them) or one of its file ids is the file id of a given path; the two result lists partition "
               "the conflict list preserving order"]
OUTSIDE = ["persistence of conflict lists and merge hashes (rio stanzas - Rust - on a real working tree)",
           "more conflicts / paths than the bound"]

ALPHA = "ab/"


def m_is_inside(d, f):
    # Rust Path::starts_with: component-wise prefix; repeated / trailing slashes are ignored, a leading '/' is a
    # component of its own
    def comps(p):
        out = ["<root>"] if (len(p) and bool(p[0] == "/")) else []
        return out + [s for s in p.split("/") if len(s)]
    cd, cf = comps(d), comps(f)
    if len(cd) > len(cf):
        return False
    for a, b in zip(cd, cf):
        if not bool(a == b):
            return False
    return True


def m_is_inside_any(dirs, f):
    for d in dirs:
        if m_is_inside(d, f):
            return True
    return False


def m_is_inside_or_parent_of_any(dirs, f):
    for d in dirs:
        if m_is_inside(d, f) or m_is_inside(f, d):
            return True
    return False


def _validate():
    import itertools
    from breezy import osutils
    strs = ["".join(t) for n in range(0, 4) for t in itertools.product(ALPHA, repeat=n)]
    for d in strs:
        for f in strs:
            if bool(osutils.is_inside_any([d], f)) != bool(m_is_inside_any([d], f)):
                raise RuntimeError("is_inside_any model differs on %r, %r" % (d, f))
            if bool(osutils.is_inside_or_parent_of_any([d], f)) != bool(m_is_inside_or_parent_of_any([d], f)):
                raise RuntimeError("is_inside_or_parent_of_any model differs on %r, %r" % (d, f))


class _Osutils:
    def __init__(self, real):
        self._real = real

    is_inside_any = staticmethod(m_is_inside_any)
    is_inside_or_parent_of_any = staticmethod(m_is_inside_or_parent_of_any)
    is_inside = staticmethod(m_is_inside)

    def __getattr__(self, name):
        return getattr(self._real, name)


def setup(ls):
    _validate()
    from breezy import osutils as real
    ls.modules[CF].osutils = _Osutils(real)


class _Tree:
    def __init__(self, table):
        self.table = table          # list of (path object, file id or None)

    def path2id(self, path):
        for p, fid in self.table:
            if p is path:
                return fid
        raise AssertionError("path2id asked about an unexpected path")

    def abspath(self, p):
        return "/tree/" + p


def ob_select(cx):
    C = cx.mod(CF)
    lp = cx.p("lpath")
    nc = cx.choose("nconflicts", cx.p("nconflicts") if cx.p("twins") else 0, cx.p("nconflicts"))
    conflicts = C.ConflictList()
    spec = []
    twins = bool(cx.p("twins"))
    for i in range(nc):
        kind = "path" if twins else cx.pick("kind%d" % i, ["text", "path", "duplicate"])
        if twins and i > 0:
            # a second conflict that COMPARES EQUAL to the first one (same class, path and file id) but is another conflict:
            # its conflict_path differs
            path, fid = spec[0][1][0], spec[0][2][0]
        else:
            path = cx.str("cpath%d" % i, cx.choose("lc%d" % i, 1, lp), ALPHA)
            fid = cx.bytes("cfid%d" % i, 1, b"xyz") if cx.choose("hasfid%d" % i, 0, 1) else None
        if kind == "text":
            c = C.TextConflict(path, file_id=fid)
            spec.append((c, [path], [fid]))
        elif kind == "duplicate":
            # a conflict between TWO entries: two paths and two file ids
            cpath = cx.str("cpath2_%d" % i, cx.choose("lc2_%d" % i, 1, lp), ALPHA)
            fid2 = cx.bytes("cfid2_%d" % i, 1, b"xyz") if cx.choose("hasfid2_%d" % i, 0, 1) else None
            c = C.DuplicateEntry("Moved existing file to", path, cpath, file_id=fid, conflict_file_id=fid2)
            spec.append((c, [path, cpath], [fid, fid2]))
        else:
            cpath = cx.str("cpath2_%d" % i, cx.choose("lc2_%d" % i, 1, lp), ALPHA)
            if twins and i > 0:
                cx.assume(cpath != spec[0][1][1])
            c = C.PathConflict(path, conflict_path=cpath, file_id=fid)
            spec.append((c, [path, cpath], [fid]))
        conflicts.append(c)
    npaths = cx.choose("npaths", 0, cx.p("npaths"))
    paths = [cx.str("path%d" % i, cx.choose("lp%d" % i, 0 if cx.p("allow_empty") else 1, lp), ALPHA) for i in range(npaths)]
    for i in range(npaths):
        for j in range(i):
            cx.assume(paths[i] != paths[j])       # a tree maps a path to ONE file id: the same path twice adds nothing
    ids = [cx.bytes("pid%d" % i, 1, b"xyz") if cx.choose("versioned%d" % i, 0, 1) else None for i in range(npaths)]
    for i in range(npaths):
        for j in range(i):
            if ids[i] is not None and ids[j] is not None:
                cx.assume(ids[i] != ids[j])       # ... and a file id to one path
    recurse = bool(cx.choose("recurse", 0, 1))
    tree = _Tree(list(zip(paths, ids)))
    before = list(conflicts)
    not_sel, sel = conflicts.select_conflicts(tree, list(paths), ignore_misses=True, recurse=recurse)
    cx.require(list(conflicts) == before, "the conflict list itself was modified")
    want_sel = []
    for c, cpaths, cfids in spec:
        hit = False
        for cp in cpaths:
            if any(cx.truth(cp == p) for p in paths):
                hit = True
            if recurse and any(cx.truth(m_is_inside(p, cp)) for p in paths):
                hit = True
        for f in cfids:
            if f is not None and any(i is not None and cx.truth(f == i) for i in ids):
                hit = True
        want_sel.append(hit)
    got_sel = [any(s is c for s in sel) for c, _p, _f in spec]
    got_not = [any(s is c for s in not_sel) for c, _p, _f in spec]
    for k, (c, _p, _f) in enumerate(spec):
        cx.require(got_sel[k] == want_sel[k], "conflict %d %s although it %s be" %
                   (k, "selected" if got_sel[k] else "not selected", "should" if want_sel[k] else "should not"))
        cx.require(got_not[k] == (not want_sel[k]), "conflict %d is in both or neither of the result lists" % k)
    cx.require(len(sel) + len(not_sel) == nc, "the result lists are not a partition of the conflict list")
    cx.require([id(x) for x in sel] == [id(c) for k, (c, _p, _f) in enumerate(spec) if want_sel[k]], "order of selected conflicts changed")
    cx.observe("sel", [k for k in range(nc) if got_sel[k]])
    if any(want_sel):
        cx.cover("selected")
    if nc and not all(want_sel):
        cx.cover("kept")
    if recurse and any(want_sel):
        cx.cover("recursive")
    if twins and want_sel[0] != want_sel[1]:
        cx.cover("one_of_two_equal_conflicts")


def obligations(tier):
    q = tier == "quick"
    p = dict(nconflicts=1, npaths=1, lpath=3 if q else 4, allow_empty=True)
    pt = dict(nconflicts=2, npaths=1, lpath=2 if q else 3, allow_empty=False, twins=True)
    return [Ob("equal_conflicts", ob_select, [(CF, dict(symdict=True))], pt, 900 if q else 7200, 3 if q else 1,
               ["selected", "kept", "one_of_two_equal_conflicts"], setup=setup,
               bounds="two path conflicts with the same path and file id (they compare equal) and different conflict paths, "
                      "symbolic paths of <= %(lpath)d chars, one path to resolve, recursion on/off" % pt),
            Ob("select_conflicts", ob_select, [(CF, dict(symdict=True))], p, 900 if q else 7200, 3 if q else 1,
               ["selected", "kept", "recursive"], setup=setup,
               bounds="<= %(nconflicts)d conflicts (text / path conflicts) with symbolic paths of <= %(lpath)d chars and symbolic "
                      "file ids, <= %(npaths)d paths to resolve (versioned or not), recursion on/off" % p)]
