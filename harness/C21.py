"""C21 - pull and push never silently drop history (tip movement decision kernel)."""
import contextlib
from symx.runner import Ob

ID = "C21"
BR = "breezy.branch"
BB = "breezy.bzr.branch"
FUNCTIONS = [BR + ":GenericInterBranch.push", BR + ":GenericInterBranch._update_revisions", BR + ":GenericInterBranch._pull", BR + ":GenericInterBranch._basic_push",
             BR + ":Branch._check_if_descendant_or_diverged", BR + ":Branch._revision_relations",
             BB + ":BzrBranch.set_last_revision_info", BB + ":BzrBranch8._check_history_violation"]
STUBS = ["history = a family of DAGs with SYMBOLIC sizes: a common trunk of c revisions, t further revisions on the target, "
         "s further revisions on the source, optionally source revision number m merging the target's tip as a non-left "
         "parent; the graph object answers heads / find_distance_to_null / iter_lefthand_ancestry by arithmetic on these",
         "target = instance of the real BzrBranch8 class (created without a control directory): locks, tags, repository and "
         "the write of last-revision are recording stubs; source = interface stub; fetch is recorded, not performed"]
ASSUMPTIONS = ["the recorded revision numbers of both branches are correct before the operation (length of the left-hand history)",
               "reference: without overwrite the tip moves to the requested revision iff that revision is a proper descendant of "
               "the current tip; it stays when the requested revision is an ancestor of (or equal to) the tip; otherwise "
               "DivergedBranches; with overwrite it always moves; with append-only history a move to a revision whose "
               "left-hand history lacks the old tip is refused; the recorded revno is the left-hand length of the tip"]
OUTSIDE = ["the real graph code (vcsgraph heads / distance computations, compiled) and arbitrary DAG shapes beyond the family above, "
           "ghosts", "fetching, hooks, tag merging, RemoteBranch / git branches, pull into a bound branch"]


class Rev(bytes):
    """A revision id of the DAG family: ('C', i) trunk, ('T', j) target-only, ('S', j) source-only; the index is symbolic."""
    def __new__(cls, cx, line, idx):
        self = bytes.__new__(cls, b"rev-" + line.encode())
        self.cx, self.line, self.idx = cx, line, idx
        return self

    def __eq__(self, other):
        if not isinstance(other, Rev):
            return False
        return self.line == other.line and self.cx.truth(self.idx == other.idx)

    def __ne__(self, other):
        return not self.__eq__(other)

    def __hash__(self):
        return hash(self.line)

    def __repr__(self):
        return "<%s%r>" % (self.line, self.idx)


NULL = b"null:"


def _run(cx, bound):
    B = cx.mod(BR)
    Z = cx.mod(BB)
    E = cx.real("breezy.errors")
    c = cx.int("trunk", 0, cx.p("maxtrunk"))
    t = cx.int("target_extra", 0, cx.p("maxextra"))
    s = cx.int("source_extra", 0, cx.p("maxextra"))
    merged_at = cx.int("merged_at", 0, cx.p("maxextra"))      # 0: the source never merged the target's tip
    cx.assume(merged_at <= s)
    if cx.truth(merged_at > 0):
        cx.assume(t > 0)
    T = cx.truth

    def tip(line, extra):
        if T(extra > 0):
            return Rev(cx, line, extra)
        if T(c > 0):
            return Rev(cx, "C", c)
        return NULL

    def anc(x, y):
        """x is an ancestor of, or equal to, y"""
        if not isinstance(x, Rev):
            return True
        if not isinstance(y, Rev):
            return False
        if x.line == "C":
            return T(x.idx <= y.idx) if y.line == "C" else True
        if x.line == y.line:
            return T(x.idx <= y.idx)
        if x.line == "T" and y.line == "S":
            return T(merged_at > 0) and T(y.idx >= merged_at)
        return False

    def lh_len(x):
        if not isinstance(x, Rev):
            return 0
        return x.idx if x.line == "C" else c + x.idx

    def lh_ancestry(x):
        if not isinstance(x, Rev):
            return
        if x.line != "C":
            i = x.idx
            while T(i >= 1):
                yield Rev(cx, x.line, i)
                i = i - 1
            i = c
        else:
            i = x.idx
        while T(i >= 1):
            yield Rev(cx, "C", i)
            i = i - 1

    class Graph:
        @staticmethod
        def heads(revs):
            a, b = revs
            if anc(a, b):
                return {b}
            if anc(b, a):
                return {a}
            return {a, b}

        @staticmethod
        def find_distance_to_null(rev, known):
            return lh_len(rev)

        @staticmethod
        def iter_lefthand_ancestry(rev, stop_revisions=None):
            return lh_ancestry(rev)

    class Repo:
        @staticmethod
        def get_graph(other=None):
            return Graph

    class Tags:
        @staticmethod
        def merge_to(*a, **k):
            return {}, []

    class Fmt:
        supports_reference_locations = False

    append_only = bool(cx.choose("append_only", 0, 1))
    target_tip = tip("T", t)
    source_tip = tip("S", s)

    class Target(Z.BzrBranch8):
        base = user_url = None               # plain attributes instead of the real class's properties

        def __init__(self, tip0, base, master=None):
            self._last_revision_info_cache = (lh_len(tip0), tip0)
            self._revision_history_cache = None
            self._revision_id_to_revno_cache = None
            self._partial_revision_id_to_revno_cache = {}
            self._partial_revision_history_cache = []
            self._master_branch_cache = None
            self._merge_sorted_revisions_cache = None
            self._tags_bytes = None
            self._reference_info = None
            self.repository = Repo
            self.tags = Tags
            self._format = Fmt
            self.written = None
            self.tip0 = tip0
            self.base = self.user_url = base
            self.master = master
            self.oplog = []

        def lock_write(self, token=None):
            return contextlib.nullcontext()

        def lock_read(self):
            return contextlib.nullcontext()

        def get_append_revisions_only(self):
            return append_only

        def get_bound_location(self):
            return None if self.master is None else self.master.base

        def get_master_branch(self, possible_transports=None):
            return self.master

        def _write_last_revision_info(self, revno, revision_id):
            self.written = (revno, revision_id)
            self.oplog.append("write")

        def _read_last_revision_info(self):
            if self.written is not None:
                return self.written
            return (lh_len(self.tip0), self.tip0)

    class Source:
        base = "source/"
        repository = Repo
        tags = Tags
        _format = Fmt

        @staticmethod
        def lock_read():
            return contextlib.nullcontext()

        @staticmethod
        def last_revision_info():
            return lh_len(source_tip), source_tip

        @staticmethod
        def last_revision():
            return source_tip

        @staticmethod
        def _push_should_merge_tags():
            return False

    def inter(src, tgt):
        i = B.GenericInterBranch(src, tgt)
        i.fetch = lambda stop_revision=None, **k: tgt.oplog.append("fetch")
        return i
    B.InterBranch.get = staticmethod(inter)
    target = Target(target_tip, "target/")
    local = None
    if bound:
        # a branch bound to the target (its master): its tip is `behind` revisions back on the master's left-hand history
        behind = cx.int("local_behind", 0, cx.p("maxextra"))
        cx.assume(behind <= c + t)
        pos = c + t - behind
        local_tip = NULL if T(pos == 0) else (Rev(cx, "C", pos) if T(pos <= c) else Rev(cx, "T", pos - c))
        local = Target(local_tip, "local/", master=target)
    ib = inter(Source, local if bound else target)
    op = "bound_push" if bound else cx.pick("op", ["update_revisions", "pull", "push"])
    # pull / push take False, True or a collection of {"history", "tags"}: only "history" permits dropping revisions
    ow_arg = cx.pick("overwrite", [False, True, (), ("tags",), ("history",), ("history", "tags")])
    if op == "update_revisions" and not isinstance(ow_arg, bool):
        cx.assume(False)
    overwrite = ow_arg if isinstance(ow_arg, bool) else ("history" in ow_arg)
    ow_arg = ow_arg if isinstance(ow_arg, bool) else set(ow_arg)
    requested = None
    if op == "push" or cx.choose("explicit_stop", 0, 1):
        # a revision of the source's left-hand history, by position
        pos = cx.int("stop_pos", 1, cx.p("maxtrunk") + cx.p("maxextra"))
        cx.assume(pos <= c + s)
        requested = Rev(cx, "C", pos) if T(pos <= c) else Rev(cx, "S", pos - c)
    stop = requested if requested is not None else source_tip
    outcome = "ok"
    try:
        if op == "update_revisions":
            ib._update_revisions(requested, overwrite=overwrite)
        elif op == "pull":
            res = ib._pull(overwrite=ow_arg, stop_revision=requested, run_hooks=False)
        elif op == "push":
            res = ib._basic_push(ow_arg, requested)
        else:
            res = ib.push(ow_arg, requested)
    except E.DivergedBranches:
        outcome = "diverged"
    except E.AppendRevisionsOnlyViolation:
        outcome = "append_only"

    def classify(tip0):
        if not isinstance(stop, Rev):
            want = "unchanged"                   # nothing to pull from an empty source
        elif anc(stop, tip0):
            want = "moved_back" if (overwrite and not (stop == tip0)) else "unchanged"
        elif anc(tip0, stop):
            want = "moved"
        else:
            want = "moved" if overwrite else "diverged"
        if want in ("moved", "moved_back") and append_only and isinstance(tip0, Rev):
            on_lefthand = stop.line == tip0.line and T(tip0.idx <= stop.idx) or (tip0.line == "C")
            if want == "moved_back" or not on_lefthand:
                want = "append_only"
        return want

    def check(branch, want, what):
        new_revno, new_tip = branch.last_revision_info()
        if want in ("moved", "moved_back"):
            cx.require(new_tip == stop, "%s tip is %r, requested %r" % (what, new_tip, stop))
            cx.require(T(new_revno == lh_len(stop)), "%s: recorded revno %r is not the length of the tip's left-hand history %r" %
                       (what, new_revno, lh_len(stop)))
            cx.require("fetch" in branch.oplog and branch.oplog.index("fetch") < branch.oplog.index("write"),
                       "%s tip moved before the revisions were fetched" % what)
        else:
            cx.require(new_tip == branch.tip0 and T(new_revno == lh_len(branch.tip0)),
                       "%s tip changed (%r -> %r) although the operation should leave it (%s)" % (what, branch.tip0, new_tip, want))
        return new_revno, new_tip
    want = classify(target_tip)
    if not bound:
        if want in ("moved", "moved_back"):
            cx.require(outcome == "ok", "the operation failed (%s) although the requested revision can be reached" % outcome)
        else:
            cx.require(outcome == ("ok" if want == "unchanged" else want), "expected %s, the operation ended with %s" % (want, outcome))
        new_revno, new_tip = check(target, want, "target")
        cx.cover(want)
        if outcome == "ok" and op in ("pull", "push"):
            cx.require(res.old_revid == target_tip and res.new_revid == new_tip and T(res.old_revno == lh_len(target_tip))
                       and T(res.new_revno == new_revno), "result object misreports the old / new tip")
        cx.observe("outcome", (outcome, new_revno))
        return
    # push into a bound branch: the master decides; when it refuses, neither tip moves
    want_local = classify(local.tip0)
    if want in ("diverged", "append_only"):
        cx.require(outcome == want, "the master must refuse (%s), the push ended with %s" % (want, outcome))
        check(target, "unchanged", "master")
        check(local, "unchanged", "bound branch (its master refused the push)")
        cx.cover("master_refused")
    elif want_local in ("diverged", "append_only"):
        cx.require(outcome == want_local, "expected %s for the bound branch, the push ended with %s" % (want_local, outcome))
        check(local, "unchanged", "bound branch")
    else:
        cx.require(outcome == "ok", "the push failed (%s) although master and bound branch can take the revision" % outcome)
        check(target, want, "master")
        new_revno, new_tip = check(local, want_local, "bound branch")
        cx.require(res.new_revid == new_tip and T(res.new_revno == new_revno), "result object misreports the new tip")
        cx.cover("both_" + want_local)
    cx.observe("outcome", (outcome,))


def ob_tip(cx):
    _run(cx, False)


def ob_bound_push(cx):
    _run(cx, True)


def obligations(tier):
    q = tier == "quick"
    p = dict(maxtrunk=3 if q else 12, maxextra=2 if q else 5)
    pb = dict(maxtrunk=2 if q else 6, maxextra=2 if q else 3)
    return [Ob("bound_push", ob_bound_push, [BR, BB], pb, 900 if q else 7200, 2 if q else 1,
               ["master_refused", "both_moved", "both_unchanged"],
               bounds="push into a branch bound to a master: trunk 0..%(maxtrunk)d, 0..%(maxextra)d more revisions on master and "
                      "source, the bound branch 0..%(maxextra)d revisions behind its master; overwrite forms, append-only on/off" % pb),
            Ob("tip_movement", ob_tip, [BR, BB], p, 900 if q else 7200, 2 if q else 1,
               ["moved", "unchanged", "diverged", "append_only", "moved_back"],
               bounds="trunk 0..%(maxtrunk)d revisions, 0..%(maxextra)d more on each branch, optional merge of the target tip into "
                      "any source revision, requested revision = any revision of the source's left-hand history or none; "
                      "_update_revisions / _pull / _basic_push, overwrite on/off, append-only on/off" % p)]
