"""C22 - revision specifiers name the revisions their definitions describe (numeric specifier kernel)."""
from symx.runner import Ob
from .util import fmt

ID = "C22"
RS = "breezy.revisionspec"
BR = "breezy.branch"
FUNCTIONS = [BR + ":Branch.dotted_revno_to_revision_id", BR + ":Branch._do_dotted_revno_to_revision_id",
             BR + ":Branch.revision_id_to_dotted_revno", BR + ":Branch._do_revision_id_to_dotted_revno",
             BR + ":Branch.get_revision_id_to_revno_map", BR + ":Branch._clear_cached_state", RS + ":RevisionSpec.from_string", RS + ":RevisionSpec.in_history", RS + ":RevisionSpec_revno._lookup",
             RS + ":RevisionSpec_last._revno_and_revision_id", RS + ":RevisionSpec_before._match_on",
             RS + ":RevisionSpec_dwim._match_on", RS + ":RevisionInfo"]
STUBS = ["branch = stub with a symbolic number of mainline revisions: last_revision_info(), get_rev_id(n) (null revision "
         "for 0, NoSuchRevision outside 0..last), dotted_revno_to_revision_id recording the requested tuple"]
ASSUMPTIONS = ["the branch's left-hand history has `last` revisions numbered 1..last (what revision numbers mean)",
               "reference semantics from the specifier help texts: n >= 0 names revision n; -n names the n-th revision from "
               "the end, and the first revision when n exceeds the history; last:n = revision last-n+1 for n >= 1; "
               "before:X = the revision before X, an error for the null revision"]
OUTSIDE = ["merge-sorted numbering itself (vcsgraph, compiled): the revision-id -> dotted-revno map is an arbitrary "
           "one-to-one map handed to the real Branch lookup code through _gen_revno_map","revid:, tag:, ancestor:, mainline:, date: specifiers "
           "(need a real branch / repository)", "specifiers with a branch location after ':'"]


class _Branch:
    def __init__(self, cx, last):
        self.cx = cx
        self.last = last
        self.dotted = []

    def last_revision_info(self):
        return self.last, ("rev", self.last)

    def get_rev_id(self, revno, history=None):
        E = self.cx.real("breezy.errors")
        if self.cx.truth(revno == 0):
            return b"null:"
        if self.cx.truth(revno < 0) or self.cx.truth(revno > self.last):
            raise E.NoSuchRevision(self, revno)
        return ("rev", revno)

    def dotted_revno_to_revision_id(self, revno, _cache_reverse=False):
        self.dotted.append(tuple(revno))
        return ("dotted", tuple(revno))

    def lock_read(self):
        import contextlib
        return contextlib.nullcontext()

    def revision_id_to_revno(self, rev_id):
        raise self.cx.real("breezy.errors").NoSuchRevision(self, rev_id)

    @property
    def repository(self):
        outer = self

        class Rev:
            def __init__(self, parent_ids):
                self.parent_ids = parent_ids

        class Repo:
            @staticmethod
            def has_revision(rev_id):
                return True

            @staticmethod
            def get_revision(rev_id):
                return Rev(list(outer.parents_of(rev_id)))

            @staticmethod
            def get_parent_map(keys):
                keys = list(keys)

                class PM:               # a parent map keyed by identity (the ids carry symbolic numbers: not hashable)
                    def __contains__(self, k):
                        return any(k is o for o in keys)

                    def __getitem__(self, k):
                        return tuple(outer.parents_of(k))
                return PM()

            @staticmethod
            def lock_read():
                import contextlib
                return contextlib.nullcontext()
        return Repo

    def parents_of(self, rev_id):
        raise AssertionError("the parents of %r were asked for" % (rev_id,))


def _resolve(cx, R, spec, branch):
    try:
        info = R.RevisionSpec.from_string(spec).in_history(branch)
    except R.InvalidRevisionSpec:
        return "invalid"
    return info


def _same_rev(cx, got, revno):
    if cx.truth(revno == 0):
        return got == b"null:"
    return isinstance(got, tuple) and got[0] == "rev" and cx.truth(got[1] == revno)


def _revno_of(cx, n, last):
    """revno named by the (possibly negative) number n on a branch with `last` revisions, or None."""
    if cx.truth(n >= 0):
        return n if cx.truth(n <= last) else None
    if cx.truth(last == 0):
        return None                  # an empty branch has no first revision
    return 1 if cx.truth(-n >= last) else last + n + 1


def ob_numeric(cx):
    R = cx.mod(RS)
    last = cx.int("last", 0, cx.p("maxlast"))
    n = cx.int("n", -cx.p("maxn"), cx.p("maxn"))
    form = cx.pick("form", ["revno:%d", "%d", "last:%d", "before:%d", "before:revno:%d", "before:before:%d",
                            "before:before:revno:%d", "before:last:%d"])
    spec = fmt(form, n)
    b = _Branch(cx, last)
    if form.startswith("before:before:") or form == "before:last:%d":
        # specifiers nest: before:X is the revision before whatever X names
        if form == "before:last:%d":
            inner = (last - n + 1) if (cx.truth(n >= 1) and cx.truth(n <= last + 1)) else None
            steps = 1
            inner_ok = True
        else:
            inner = _revno_of(cx, n, last)
            steps = 2
            inner_ok = inner is not None
        want = inner
        for _k in range(steps):
            want = None if (want is None or cx.truth(want == 0)) else want - 1
        cx.cover("nested")
    elif form in ("revno:%d", "%d"):
        want = _revno_of(cx, n, last)
        inner_ok = want is not None
        if cx.truth(n < 0):
            cx.cover("negative")
    elif form == "last:%d":
        want = (last - n + 1) if (cx.truth(n >= 1) and cx.truth(n <= last + 1)) else None
        inner_ok = True
        cx.cover("last")
    else:
        base = _revno_of(cx, n, last)
        inner_ok = base is not None
        want = None if (base is None or cx.truth(base == 0)) else base - 1
        cx.cover("before")
    if form in ("%d", "before:%d", "before:before:%d") and not inner_ok:
        # a bare number that is not a revision number is next tried as tag / revision id / date / branch location,
        # which needs a real branch: outside this kernel
        cx.assume(False)
    got = _resolve(cx, R, spec, b)
    if want is None:
        cx.require(got == "invalid", "specifier outside the history resolved instead of being rejected")
        cx.cover("rejected")
    else:
        cx.require(got != "invalid", "valid specifier rejected")
        cx.require(cx.truth(got.revno == want), "specifier resolves to revno %r, definition says %r" % (got.revno, want))
        cx.require(_same_rev(cx, got.rev_id, want), "revision id does not belong to the resolved revno")
        cx.cover("resolved")
    cx.observe("got", "invalid" if got == "invalid" else (got.revno, got.rev_id))


def ob_dotted(cx):
    R = cx.mod(RS)
    k = cx.choose("components", 2, 3)
    parts = tuple(cx.int("c%d" % i, 0, cx.p("maxn")) for i in range(k))
    spec = fmt("revno:" + ".".join(["%d"] * k), parts)
    b = _Branch(cx, 5)
    got = _resolve(cx, R, spec, b)
    cx.require(got != "invalid", "dotted specifier rejected")
    cx.require(len(b.dotted) == 1 and len(b.dotted[0]) == k and all(cx.truth(a == c) for a, c in zip(b.dotted[0], parts)),
               "dotted revision number handed to the branch differs from the one written in the specifier")
    cx.require(got.revno is None and got.rev_id[0] == "dotted", "dotted specifier did not resolve through the dotted map")
    cx.observe("dotted", b.dotted)
    cx.cover("dotted")


def ob_before_merged(cx):
    """before:revno:a.b.c / before:revid-like specifiers on a MERGED revision (no mainline number): the revision before it
    is its left-hand parent - the first of its parents, however many it has - through in_history and as_revision_id."""
    R = cx.mod(RS)
    k = cx.choose("components", 2, 3)
    parts = tuple(cx.int("c%d" % i, 0, cx.p("maxn")) for i in range(k))
    spec = fmt("before:revno:" + ".".join(["%d"] * k), parts)
    nparents = cx.choose("nparents", 0, 3)
    b = _Branch(cx, 5)
    asked = []

    def parents_of(rev_id):
        asked.append(rev_id)
        return [("parent", i) for i in range(nparents)]
    b.parents_of = parents_of
    got = _resolve(cx, R, spec, b)
    cx.require(got != "invalid", "before: on a merged revision rejected")
    cx.require(len(b.dotted) >= 1 and all(cx.truth(a == c) for a, c in zip(b.dotted[0], parts)), "wrong dotted number looked up")
    cx.require(all(a[0] == "dotted" for a in asked), "parents of another revision than the named one were used")
    want = ("parent", 0) if nparents else b"null:"
    cx.require(got.rev_id == want and got.revno is None,
               "before:<merged revision> names %r, its left-hand parent is %r" % (got.rev_id, want))
    if nparents:
        other = R.RevisionSpec.from_string(spec).as_revision_id(b)
        cx.require(other == want, "as_revision_id and in_history disagree: %r / %r" % (other, got.rev_id))
    if nparents >= 2:
        cx.cover("merge_of_a_merge")
    cx.cover("before_merged")
    cx.observe("got", got.rev_id)


def ob_dotted_map(cx):
    """revno:a.b.c through the real Branch.dotted_revno_to_revision_id / revision_id_to_dotted_revno over an arbitrary
    (one-to-one) revision-id -> dotted-revno map: the specifier names exactly the revision carrying that number, the two
    directions are inverse, anything else is rejected."""
    R = cx.mod(RS)
    B = cx.mod(BR)
    E = cx.real("breezy.errors")
    last = cx.choose("last", 0, cx.p("maplast"))
    k = cx.choose("merged", 0, cx.p("merged"))
    mx = cx.p("maxc")

    def triple(tag):
        # 0.x.y numbers belong to merged lines without a mainline ancestor (a second root)
        return (cx.int(tag + "a", 0, mx), cx.int(tag + "b", 1, mx), cx.int(tag + "c", 1, mx))
    ids = [b"merged-%d" % i for i in range(k)]
    nums = []
    for i in range(k):
        t = triple("m%d" % i)
        cx.assume(t[0] <= last)     # the first number is the mainline revno the merged line branched from (0: none)
        for o in nums:
            cx.assume(not (cx.truth(o[0] == t[0]) and cx.truth(o[1] == t[1]) and cx.truth(o[2] == t[2])))   # numbering is one-to-one
        nums.append(t)
    mapping = {}
    for n in range(1, last + 1):
        mapping[b"main-%d" % n] = (n,)
    for i in range(k):
        mapping[ids[i]] = nums[i]

    class Stub(B.Branch):
        def __init__(self):
            self._revision_id_to_revno_cache = None
            self._partial_revision_id_to_revno_cache = {}
            self.gen = 0

            class Repo:
                has_revision = staticmethod(lambda rev_id: True)
            self.repository = Repo

        def lock_read(self):
            import contextlib
            return contextlib.nullcontext()

        def revno(self):
            return last

        def last_revision_info(self):
            return last, (b"main-%d" % last if last else b"null:")

        def get_rev_id(self, revno, history=None):
            if revno == 0:
                return b"null:"
            if revno < 0 or revno > last:
                raise E.RevnoOutOfBounds(revno, (0, last))
            return b"main-%d" % revno

        def revision_id_to_revno(self, revision_id):
            for n in range(1, last + 1):
                if revision_id == b"main-%d" % n:
                    return n
            raise E.NoSuchRevision(self, revision_id)

        def _gen_revno_map(self):
            self.gen += 1
            return dict(mapping)
    b = Stub()
    q = triple("q")
    spec = fmt("revno:%d.%d.%d", q)
    got = _resolve(cx, R, spec, b)
    owners = [i for i in range(k) if cx.truth(nums[i][0] == q[0]) and cx.truth(nums[i][1] == q[1]) and cx.truth(nums[i][2] == q[2])]
    if owners:
        cx.require(got != "invalid", "the dotted revision number of an existing revision was rejected")
        cx.require(got.rev_id == ids[owners[0]], "dotted specifier resolved to a different revision than the one carrying that number")
        back = b.revision_id_to_dotted_revno(got.rev_id)
        cx.require(len(back) == 3 and all(cx.truth(x == y) for x, y in zip(back, q)), "revision id -> dotted revno is not the inverse")
        if cx.truth(q[0] == 0):
            cx.cover("second_root")
        cx.cover("found")
    else:
        cx.require(got == "invalid", "a dotted revision number nobody carries resolved to a revision")
        cx.cover("absent")
    for i in range(k):
        back = b.revision_id_to_dotted_revno(ids[i])
        cx.require(len(back) == 3 and all(cx.truth(x == y) for x, y in zip(back, nums[i])), "revision id -> dotted revno wrong")
        cx.require(b.dotted_revno_to_revision_id(tuple(nums[i])) == ids[i], "dotted revno -> revision id is not the inverse")
    for n in range(1, last + 1):
        cx.require(b.revision_id_to_dotted_revno(b"main-%d" % n) == (n,), "mainline revision has a wrong dotted revno")
        cx.require(b.dotted_revno_to_revision_id((n,)) == b"main-%d" % n, "mainline dotted revno resolves wrongly")
    cx.observe("got", "invalid" if got == "invalid" else got.rev_id)


def ob_renumbered(cx):
    """A dotted specifier is resolved (which stores the reverse mapping in a per-branch cache), then the tip moves - the
    branch drops its cached state, as set_last_revision_info and unlock do - and the merged revisions carry NEW numbers:
    revision id -> number must answer with the new numbering, and the two directions must again be inverse."""
    R = cx.mod(RS)
    B = cx.mod(BR)
    E = cx.real("breezy.errors")
    last = cx.choose("last", 1, cx.p("maplast"))
    k = cx.choose("merged", 1, cx.p("merged"))
    mx = cx.p("maxc")
    T = cx.truth

    def numbering(tag):
        nums = []
        for i in range(k):
            t = (cx.int("%s%da" % (tag, i), 0, mx), cx.int("%s%db" % (tag, i), 1, mx), cx.int("%s%dc" % (tag, i), 1, mx))
            cx.assume(t[0] <= last)
            for o in nums:
                cx.assume(not (T(o[0] == t[0]) and T(o[1] == t[1]) and T(o[2] == t[2])))
            nums.append(t)
        return nums
    ids = [b"merged-%d" % i for i in range(k)]
    phases = [numbering("old"), numbering("new")]
    state = {"phase": 0}

    class Stub(B.Branch):
        def __init__(self):
            # what Branch.__init__ sets up
            self._revision_history_cache = None
            self._revision_id_to_revno_cache = None
            self._partial_revision_id_to_revno_cache = {}
            self._partial_revision_history_cache = []
            self._last_revision_info_cache = None
            self._master_branch_cache = None
            self._merge_sorted_revisions_cache = None

            class Repo:
                has_revision = staticmethod(lambda rev_id: True)
            self.repository = Repo

        def lock_read(self):
            import contextlib
            return contextlib.nullcontext()

        def revno(self):
            return last

        def last_revision_info(self):
            return last, b"main-%d" % last

        def get_rev_id(self, revno, history=None):
            if revno == 0:
                return b"null:"
            if revno < 0 or revno > last:
                raise E.RevnoOutOfBounds(revno, (0, last))
            return b"main-%d" % revno

        def revision_id_to_revno(self, revision_id):
            for n in range(1, last + 1):
                if revision_id == b"main-%d" % n:
                    return n
            raise E.NoSuchRevision(self, revision_id)

        def _gen_revno_map(self):
            m = {}
            for n in range(1, last + 1):
                m[b"main-%d" % n] = (n,)
            for i in range(k):
                m[ids[i]] = phases[state["phase"]][i]
            return m
    b = Stub()
    which = cx.choose("resolved", 0, k - 1)
    got = _resolve(cx, R, fmt("revno:%d.%d.%d", phases[0][which]), b)
    cx.require(got != "invalid" and got.rev_id == ids[which], "the dotted specifier of an existing revision did not resolve to it")
    if cx.choose("also_by_id", 0, 1):
        b.revision_id_to_dotted_revno(ids[which])
    # the tip moves: BzrBranch.set_last_revision_info / unlock drop the cached state, the graph now numbers differently
    b._clear_cached_state()
    state["phase"] = 1
    for i in range(k):
        back = b.revision_id_to_dotted_revno(ids[i])
        cx.require(len(back) == 3 and all(T(x == y) for x, y in zip(back, phases[1][i])),
                   "after the tip moved, revision id -> dotted revno still answers with the number the revision had before")
        cx.require(b.dotted_revno_to_revision_id(tuple(phases[1][i])) == ids[i], "dotted revno -> revision id is not the inverse "
                   "after the tip moved")
    if any(not T(x == y) for x, y in zip(phases[0][which], phases[1][which])):
        cx.cover("resolved_revision_renumbered")
    else:
        cx.cover("number_kept")


def _ref_parse(cx, tail):
    """Reference reading of the text after 'revno:' -> ('int', n) | ('dotted', tuple) | None (invalid)."""
    def as_int(s):
        # python int(): optional surrounding whitespace, optional sign, digits with single underscores
        from symx import rt
        try:
            return rt.m_int(s) if cx.sym else int(s)
        except ValueError:
            return None
    v = as_int(tail)
    if v is not None:
        return ("int", v)
    pieces = tail.split(".")
    vals = [as_int(p) for p in pieces]
    if any(x is None for x in vals):
        return None
    return ("dotted", tuple(vals))


def ob_garbage(cx):
    """Arbitrary short text after 'revno:' (no branch part): resolves per the reference reading or is InvalidRevisionSpec;
    no other exception escapes."""
    R = cx.mod(RS)
    tail = cx.str("tail", cx.choose("len", 0, cx.p("ltail")), "01-. a_+")
    last = cx.int("last", 0, 12)
    b = _Branch(cx, last)
    got = _resolve(cx, R, "revno:" + tail, b)
    ref = _ref_parse(cx, tail)
    if ref is None or len(tail) == 0:
        cx.require(got == "invalid", "malformed revno specifier was accepted")
        cx.cover("rejected")
    elif ref[0] == "dotted":
        cx.require(got != "invalid" and len(b.dotted) == 1 and len(b.dotted[0]) == len(ref[1])
                   and all(cx.truth(a == c) for a, c in zip(b.dotted[0], ref[1])), "dotted specifier mis-parsed")
        cx.cover("dotted")
    else:
        n = ref[1]
        if cx.truth(n >= 0):
            want = n if cx.truth(n <= last) else None
        else:
            want = None if cx.truth(last == 0) else (1 if cx.truth(-n >= last) else last + n + 1)
        if want is None:
            cx.require(got == "invalid", "out-of-range revno accepted")
        else:
            cx.require(got != "invalid" and cx.truth(got.revno == want), "revno mis-resolved")
        cx.cover("number")
    cx.observe("got", "invalid" if got == "invalid" else (got.revno, got.rev_id))


def obligations(tier):
    q = tier == "quick"
    p = dict(maxlast=20 if q else 120, maxn=30 if q else 150, ltail=3 if q else 4, maplast=2 if q else 3,
             merged=2 if q else 3, maxc=9 if q else 99)
    to = 900 if q else 7200
    return [
        Ob("dotted_map", ob_dotted_map, [RS, BR], p, to, 2 if q else 1, ["found", "absent", "second_root"],
           bounds="branch with 0..%(maplast)d mainline revisions and <= %(merged)d merged revisions carrying arbitrary distinct "
                  "dotted numbers a.b.c (a 0..number of mainline revisions, 0 = second root; b, c 1..%(maxc)d); query "
                  "revno:a.b.c arbitrary with a 0..%(maxc)d" % p),
        Ob("renumbered_after_tip_move", ob_renumbered, [RS, BR], dict(p, merged=1 if q else 2), to, 2 if q else 1,
           ["resolved_revision_renumbered", "number_kept"],
           bounds="branch with 1..%(maplast)d mainline revisions and 1..%(nm)d merged revisions with arbitrary distinct dotted "
                  "numbers (components as above) before and after a tip move; one of them resolved through revno:a.b.c first"
                  % dict(p, nm=1 if q else 2)),
        Ob("numeric_specifiers", ob_numeric, [RS], p, to, 1, ["negative", "last", "before", "rejected", "resolved", "nested"],
           bounds="branch with 0..%(maxlast)d revisions, n in -%(maxn)d..%(maxn)d, forms revno:n / n / last:n / before:n / "
                  "before:revno:n / before:before:n / before:before:revno:n / before:last:n" % p),
        Ob("before_merged_revision", ob_before_merged, [RS], p, to, 1, ["before_merged", "merge_of_a_merge"],
           bounds="before:revno:a.b(.c) with symbolic components 0..%(maxn)d on a merged revision with 0..3 parents" % p),
        Ob("dotted_specifiers", ob_dotted, [RS], p, to, 1, ["dotted"],
           bounds="revno:a.b[.c] with components 0..%(maxn)d" % p),
        Ob("malformed_specifiers", ob_garbage, [RS], p, to, 2 if q else 1, ["rejected", "dotted", "number"],
           bounds="'revno:' + any text of <= %(ltail)d chars over '01-. a_+'; branch with 0..12 revisions" % p),
    ]
