"""C23 - checkouts and their master branches stay in step (bound-branch commit kernel)."""
import contextlib
from symx.runner import Ob

ID = "C23"
CM = "breezy.commit"
FUNCTIONS = [CM + ":Commit._check_bound_branch", CM + ":Commit._check_out_of_date_tree", CM + ":Commit._update_branches",
             "breezy.bzr.branch:BzrBranch.get_master_branch", "breezy.bzr.branch:BzrBranch.set_bound_location",
             "breezy.bzr.branch:BzrBranch8.set_bound_location", "breezy.bzr.branch:BzrBranch8.get_bound_location"]
STUBS = ["local branch, master branch, working tree, commit builder, config stack and exit stack are recording stubs; revision "
         "ids are symbolic (integers standing for ids, compared with ==), revision numbers are symbolic integers",
         "the three methods are called in the order Commit.commit() calls them (bound check, out-of-date check, builder.commit, "
         "branch update); the rest of commit() (tree walking, commit builder) is not run"]
ASSUMPTIONS = ["the master records its tip atomically in import_last_revision_info_and_tags and returns (revno, revision id)",
               "reference: a bound, non-local commit is refused with BoundBranchOutOfDate when master tip != local tip and with "
               "OutOfDateTree when the tree's first parent is not the master tip, and then changes neither branch; otherwise the "
               "master is updated first and the local branch second, to the same revision and number (old number + 1); "
               "a --local commit never touches the master"]
OUTSIDE = ["update / pull in a checkout (working-tree merges), the commit builder and the tree walk", "heavyweight vs lightweight "
           "checkout differences, RemoteBranch masters, lossy (foreign) commits"]


class _Id(bytes):
    """symbolic revision id: compared by its symbolic number"""
    def __new__(cls, cx, n):
        self = bytes.__new__(cls, b"revid")
        self.cx, self.n = cx, n
        return self

    def __eq__(self, other):
        if isinstance(other, _Id):
            return self.cx.truth(self.n == other.n)
        return False

    def __ne__(self, other):
        return not self.__eq__(other)

    def __hash__(self):
        return 0


def ob_commit(cx):
    C = cx.mod(CM)
    E = cx.real("breezy.errors")
    T = cx.truth
    NULL = b"null:"
    log = []
    bound = bool(cx.choose("bound", 0, 1))
    local = bool(cx.choose("local", 0, 1))
    master_bound = bool(cx.choose("master_is_bound", 0, 1))
    stores_revno = bool(cx.choose("stores_revno", 0, 1))
    builder_updates = bool(cx.choose("builder_updates_branch", 0, 1)) and not bound

    def rid(name, allow_null=True):
        if allow_null and cx.choose(name + ".null", 0, 1):
            return NULL
        return _Id(cx, cx.int(name, 1, 5))
    local_tip = rid("local_tip")
    master_tip = rid("master_tip") if bound else local_tip
    tree_parent = rid("tree_parent")
    local_revno = cx.int("local_revno", 0, 1000)
    master_revno = cx.int("master_revno", 0, 1000) if bound else local_revno
    if local_tip == master_tip:
        cx.assume(local_revno == master_revno)          # same tip, same left-hand history length
    master_moves = bound and bool(cx.choose("master_moves_before_lock", 0, 1))
    new_id = _Id(cx, 9)

    class Fmt:
        @staticmethod
        def stores_revno():
            return stores_revno

    class Tags:
        def __init__(self, who):
            self.who = who

        def merge_to(self, other, *a, **k):
            log.append(("merge_tags", self.who, other.who))
            return {}, []

    class BranchStub:
        _format = Fmt

        def __init__(self, who, tip, revno, bound_location):
            self.who, self.tip, self.revno, self.bound_location = who, tip, revno, bound_location
            self.tags = Tags(who)
            self.locked = 0

        def get_bound_location(self):
            return self.bound_location

        def last_revision(self):
            return self.tip

        def last_revision_info(self):
            return self.revno, self.tip

        def lock_write(self, token=None):
            self.locked += 1
            log.append(("lock_write", self.who))
            if self.who == "master" and master_moves and self.locked == 1:
                # another checkout committed to the master after the unlocked tip comparison, before we got the lock
                self.tip, self.revno = _Id(cx, 7), self.revno + 1
            return contextlib.nullcontext()

        def set_last_revision_info(self, revno, revid):
            log.append(("set_tip", self.who, revno, revid))
            self.revno, self.tip = revno, revid

        def import_last_revision_info_and_tags(self, source, revno, revid, lossy=False):
            log.append(("import", self.who, revno, revid))
            self.revno, self.tip = revno, revid
            return revno, revid

        def revision_id_to_revno(self, revid):
            return self.revno

        @property
        def repository(self):
            class Repo:
                has_revision = staticmethod(lambda r: True)
            return Repo
    master = BranchStub("master", master_tip, master_revno, "somewhere/" if master_bound else None) if bound else None
    branch = BranchStub("local", local_tip, local_revno, "master/" if bound else None)
    branch.get_master_branch = lambda possible_transports=None: master

    class Tree:
        @staticmethod
        def get_parent_ids():
            return [] if tree_parent == NULL else [tree_parent]

    class Builder:
        updates_branch = builder_updates

    class Config:
        @staticmethod
        def get(name):
            return False

    class Stack:
        @staticmethod
        def enter_context(c):
            return c
    cm = object.__new__(C.Commit)
    cm.branch, cm.work_tree, cm.local, cm.master_branch, cm.bound_branch = branch, Tree, local, None, None
    cm.config_stack, cm.builder, cm._lossy, cm.rev_id, cm.parents = Config, Builder, False, None, []
    cm._set_progress_stage = lambda *a, **k: None
    before = (branch.tip, branch.revno, master.tip if master else None, master.revno if master else None)
    outcome = "ok"
    try:
        cm._check_bound_branch(Stack)
        old_revno, old_revid, new_revno = cm._check_out_of_date_tree()
        cm.rev_id = new_id
        if builder_updates:
            branch.set_last_revision_info(new_revno if new_revno is not None else 1, new_id)   # what such a builder does
            del log[-1]
        cm._update_branches(old_revno, old_revid, new_revno)
    except E.LocalRequiresBoundBranch:
        outcome = "local_requires_bound"
    except E.CommitToDoubleBoundBranch:
        outcome = "double_bound"
    except E.BoundBranchOutOfDate:
        outcome = "bound_out_of_date"
    except E.OutOfDateTree:
        outcome = "tree_out_of_date"
    after = (branch.tip, branch.revno, master.tip if master else None, master.revno if master else None)
    uses_master = bound and not local
    reference = master if uses_master else branch
    ref_tip, ref_revno = (before[2], before[3]) if uses_master else (before[0], before[1])
    if local and not bound:
        want = "local_requires_bound"
    elif uses_master and master_bound:
        want = "double_bound"
    elif uses_master and not (local_tip == master_tip):
        want = "bound_out_of_date"
    elif uses_master and master_moves:
        want = "tree_out_of_date"          # the tip is re-read under the master's lock: the tree is no longer up to date
        cx.cover("master_moved")
    elif not (ref_tip == tree_parent) and not (ref_tip == NULL):
        want = "tree_out_of_date"
    else:
        want = "ok"
    cx.require(outcome == want, "commit ended with %s, expected %s" % (outcome, want))
    if want != "ok":
        if uses_master and master_moves and ("lock_write", "master") in log:
            before = (before[0], before[1], _Id(cx, 7), before[3] + 1)      # what the other committer left
        cx.require(after[0] == before[0] and T(after[1] == before[1]) and after[2] == before[2]
                   and (after[3] is None or T(after[3] == before[3])),
                   "a refused commit changed a branch: %r -> %r" % (before, after))
        cx.require(not [e for e in log if e[0] in ("set_tip", "import")], "a refused commit wrote a tip")
        cx.cover("refused")
        cx.cover(want)
    else:
        cx.require(branch.tip == new_id, "the local branch does not end at the new revision")
        if stores_revno:
            cx.require(T(branch.revno == ref_revno + 1), "local revno %r is not the reference branch's old revno + 1 (%r)" %
                       (branch.revno, ref_revno))
        if uses_master:
            cx.require(master.tip == new_id and (not stores_revno or T(master.revno == branch.revno)),
                       "master and local branch do not end at the same tip")
            writes = [e for e in log if e[0] in ("set_tip", "import")]
            cx.require([e[1] for e in writes] == ["master", "local"], "tips were not written master first, local second: %r" % (writes,))
            cx.require(("lock_write", "master") in log and log.index(("lock_write", "master")) < log.index(writes[0]),
                       "master updated without being write-locked first")
            cx.cover("bound_commit")
        else:
            if bound:
                cx.require(master.tip == before[2] and T(master.revno == before[3]) and not [e for e in log if e[1] == "master"],
                           "a --local commit touched the master branch")
                cx.cover("local_commit")
            else:
                cx.cover("unbound_commit")
    cx.observe("outcome", outcome)


BB = "breezy.bzr.branch"


def ob_master_cache(cx):
    """get_master_branch() is cached per lock; after any sequence of bind / unbind / lookups / lock cycles on ONE branch object
    it must still answer with the branch at the location the branch is bound to NOW (commit in a checkout goes there first)."""
    B = cx.mod(BB)
    from dromedary.errors import NoSuchFile
    opened = []

    class Master:
        def __init__(self, loc):
            self.loc = loc

    class BranchOpener:
        @staticmethod
        def open(loc, possible_transports=None):
            m = Master(loc)
            opened.append(m)
            return m
    B.Branch = BranchOpener
    fmt = cx.pick("format", ["file", "config"])

    class Transport:
        def __init__(self):
            self.files = {}

        def put_bytes(self, name, data, mode=None):
            self.files[name] = data

        def get_bytes(self, name):
            if name not in self.files:
                raise NoSuchFile(name)
            return self.files[name]

        def delete(self, name):
            if name not in self.files:
                raise NoSuchFile(name)
            del self.files[name]

    class Conf:
        """config stack: 'bound' is a boolean option stored as text, the rest are strings"""
        def __init__(self):
            self.d = {}

        def get(self, name):
            v = self.d.get(name)
            if name == "bound":
                return v == "True"
            return v

        def set(self, name, value):
            self.d[name] = value

    class Mixin:
        def _verif_init(self):
            self._transport = Transport()
            self._conf = Conf()
            self._depth = 0
            self._clear_cached_state()

            class CD:
                @staticmethod
                def _get_file_mode():
                    return None
            self.controldir = CD

        def get_config_stack(self):
            return self._conf

        @contextlib.contextmanager
        def _locked(self):
            self._depth += 1
            try:
                yield self
            finally:
                self._depth -= 1
                if self._depth == 0:
                    self._clear_cached_state()      # what BzrBranch.unlock does when the last lock goes

        def lock_read(self):
            return self._locked()

        def lock_write(self, token=None):
            return self._locked()

    base = B.BzrBranch if fmt == "file" else B.BzrBranch8

    class Br(Mixin, base):
        def __init__(self):
            self._verif_init()
    br = Br()
    if fmt == "config":
        # the two master locations are symbolic (possibly equal) strings; the file format encodes them to bytes (C level)
        locs = {"bind_a": cx.str("loc_a", 2, "ab/"), "bind_b": cx.str("loc_b", 2, "ab/")}
    else:
        locs = {"bind_a": "file:///a/", "bind_b": "file:///b/"}
    T = cx.truth

    def same(x, y):
        return (x is None) == (y is None) and (x is None or T(x == y))
    bound = None
    if cx.choose("initially_bound", 0, 1):
        br.set_bound_location(locs["bind_a"])
        bound = locs["bind_a"]
    nops = cx.choose("nops", 0, cx.p("nops"))
    outer = br.lock_write()
    outer.__enter__()
    for i in range(nops):
        op = cx.pick("op%d" % i, ["lookup", "bind_a", "bind_b", "unbind", "relock"])
        if op == "lookup":
            m = br.get_master_branch()
            cx.require(same(m and m.loc, bound),
                       "step %d: get_master_branch answers %r, the branch is bound to %r" % (i, m and m.loc, bound))
        elif op == "unbind":
            br.set_bound_location(None)
            bound = None
        elif op == "relock":
            outer.__exit__(None, None, None)
            outer = br.lock_write()
            outer.__enter__()
        else:
            br.set_bound_location(locs[op])
            bound = locs[op]
    m = br.get_master_branch()
    cx.require(same(m and m.loc, bound),
               "after the sequence get_master_branch answers %r although the branch is bound to %r: a commit would be "
               "recorded in a branch this checkout is not bound to" % (m and m.loc, bound))
    cx.require(same(br.get_bound_location(), bound), "get_bound_location answers %r, expected %r" % (br.get_bound_location(), bound))
    outer.__exit__(None, None, None)
    cx.cover("rebound" if bound else "unbound")
    if opened[:-1]:
        cx.cover("lookup_before_change")


def obligations(tier):
    q = tier == "quick"
    return [Ob("bound_commit", ob_commit, [CM], {}, 900 if q else 3600, 2 if q else 1,
               ["refused", "bound_commit", "local_commit", "unbound_commit", "bound_out_of_date", "tree_out_of_date", "double_bound", "master_moved"],
               bounds="local / master / tree-parent revision ids arbitrary (5 symbolic ids + null), revnos 0..1000 symbolic, "
                      "bound or not, --local or not, master itself bound or not, formats with / without stored revno"),
            Ob("master_cache", ob_master_cache, [BB], dict(nops=3 if q else 5), 600 if q else 3600, 2 if q else 1,
               ["rebound", "unbound", "lookup_before_change"],
               bounds="one BzrBranch (bound file) or BzrBranch8 (config) object, initially bound or not, then <= %d operations "
                      "from lookup / bind to a / bind to b / unbind / release and retake the lock, then the lookup a commit "
                      "makes" % (3 if q else 5))]
