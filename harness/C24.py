"""C24 - tag transfer never loses or silently rewrites tags (reconciliation kernel)."""
from symx.containers import SymDict
from symx.runner import Ob

ID = "C24"
TG = "breezy.tag"
FUNCTIONS = [TG + ":_reconcile_tags"]
STUBS = ["dict literals of the lifted module are association-list dictionaries (keys compared with ==)",
         "tag selector = table of one symbolic boolean per source tag (or no selector)"]
ASSUMPTIONS = ["revision ids are compared only with ==, so unbounded integers stand for arbitrary ids",
               "tag names are short symbolic strings; equalities between names of the two dictionaries are decided by "
               "the solver"]
OUTSIDE = ["storing / loading tag dictionaries (bencode, branch storage)", "InterTags.merge's master-branch handling",
           "dictionaries larger than the bound"]


def _mkdict(cx, prefix, n, lname, alpha):
    d = SymDict() if cx.sym else {}
    ents = []
    for i in range(n):
        name = cx.str("%s.name%d" % (prefix, i), cx.choose("%s.len%d" % (prefix, i), 0, lname), alpha)
        for o, _ in ents:
            cx.assume(o != name)
        val = cx.atom("%s.rev%d" % (prefix, i))
        d[name] = val
        ents.append((name, val))
    return d, ents


def ob_reconcile(cx):
    T = cx.mod(TG)
    ns = cx.choose("nsrc", 0, cx.p("n"))
    nd = cx.choose("ndst", 0, cx.p("n"))
    src, sents = _mkdict(cx, "src", ns, cx.p("lname"), cx.p("alpha"))
    dst, dents = _mkdict(cx, "dst", nd, cx.p("lname"), cx.p("alpha"))
    overwrite = bool(cx.choose("overwrite", 0, 1))
    use_sel = bool(cx.choose("use_selector", 0, 1))
    seltab = [cx.bool("sel%d" % i) for i in range(ns)] if use_sel else None

    def selector(name):
        for i, (n, _) in enumerate(sents):
            if n is name or (not cx.sym and n == name):
                return seltab[i]
        raise AssertionError("selector called with a name that is not a source tag")
    src_before = list(src.items())
    dst_before = list(dst.items())
    result, updates, conflicts = T._reconcile_tags(src, dst, overwrite, selector if use_sel else None)
    cx.require(list(src.items()) == src_before, "source dictionary was modified")
    cx.require(list(dst.items()) == dst_before, "destination dictionary was modified")
    added = 0
    nupd = 0
    nconf = 0
    for i, (name, sv) in enumerate(sents):
        selected = (not use_sel) or cx.truth(seltab[i])
        in_dst = [dv for dn, dv in dents if cx.truth(dn == name)]
        if not selected:
            cx.require(name not in updates, "unselected tag reported as updated")
            if in_dst:
                cx.require(result[name] == in_dst[0], "unselected tag changed the destination value")
            else:
                cx.require(name not in result, "unselected tag was copied")
            cx.cover("unselected")
            continue
        if not in_dst:
            cx.require(name in result and result[name] == sv, "tag only in source was not added with the source value")
            cx.require(name in updates and updates[name] == sv, "added tag not reported as an update")
            added += 1
            nupd += 1
            cx.cover("added")
        elif cx.truth(in_dst[0] == sv):
            cx.require(result[name] == sv, "identical tag changed")
            cx.require(name not in updates, "identical tag reported as updated")
            cx.cover("same")
        elif overwrite:
            cx.require(result[name] == sv, "overwrite did not take the source value")
            cx.require(name in updates and updates[name] == sv, "overwritten tag not reported as an update")
            nupd += 1
            cx.cover("overwritten")
        else:
            cx.require(result[name] == in_dst[0], "conflicting tag did not keep the destination value")
            cx.require(name not in updates, "conflicting tag reported as updated")
            hits = [c for c in conflicts if cx.truth(c[0] == name)]
            cx.require(len(hits) == 1, "conflict reported %d times" % len(hits))
            cx.require(hits[0][1] == sv and hits[0][2] == in_dst[0], "conflict tuple carries the wrong values")
            nconf += 1
            cx.cover("conflict")
    for dn, dv in dents:
        cx.require(dn in result, "tag only in the destination was lost")
        if not any(cx.truth(dn == sn) for sn, _ in sents):
            cx.require(result[dn] == dv, "tag only in the destination was changed")
    cx.require(len(result) == len(dents) + added, "result has unexpected extra or missing tags")
    cx.require(len(updates) == nupd, "updates has unexpected entries")
    cx.require(len(conflicts) == nconf, "conflicts has unexpected entries")
    cx.observe("result", list(result.items()))
    cx.observe("updates", list(updates.items()))
    cx.observe("conflicts", list(conflicts))


def obligations(tier):
    q = tier == "quick"
    p = dict(n=2 if q else 3, lname=2, alpha="abé")
    return [Ob("reconcile", ob_reconcile, [(TG, dict(symdict=True))], p, 900 if q else 7200, 2 if q else 1,
               ["unselected", "added", "same", "overwritten", "conflict"],
               bounds="<= %(n)d tags per dictionary, names <= %(lname)d chars over %(alpha)r, unbounded revision ids, "
                      "overwrite on/off, with and without selector" % p)]
