"""C24 - tag transfer never loses or silently rewrites tags (reconciliation kernel)."""
from symx.containers import SymDict
from symx.runner import Ob

ID = "C24"
TG = "breezy.tag"
FUNCTIONS = [TG + ":_reconcile_tags", TG + ":InterTags.merge", TG + ":InterTags._merge_to",
             "breezy.bzr.tag:BasicTags._serialize_tag_dict", "breezy.bzr.tag:BasicTags._deserialize_tag_dict",
             "breezy.bzr.tag:BasicTags._set_tag_dict", "breezy.bzr.tag:BasicTags.get_tag_dict"]
STUBS = ["dict literals of the lifted module are association-list dictionaries (keys compared with ==)",
         "tag selector = table of one symbolic boolean per source tag (or no selector)",
         "fastbencode.bencode / bdecode (compiled) -> python model for dictionaries bytes -> bytes, compared with the compiled "
         "functions on sample dictionaries before each run"]
ASSUMPTIONS = ["revision ids are compared only with ==, so unbounded integers stand for arbitrary ids",
               "tag names are short symbolic strings; equalities between names of the two dictionaries are decided by "
               "the solver"]
OUTSIDE = ["the compiled bencode implementation itself (replaced by a model compared with it before each run) and the "
           "branch's tag file I/O", "InterTags.merge's master-branch handling",
           "dictionaries larger than the bound"]


def _mkdict(cx, prefix, n, lname, alpha):
    d = SymDict() if cx.sym else {}
    ents = []
    for i in range(n):
        name = cx.str("%s.name%d" % (prefix, i), cx.choose("%s.len%d" % (prefix, i), 0, lname), alpha)
        for o, _ in ents:
            cx.assume(o != name)
        val = cx.atom("%s.rev%d" % (prefix, i))
        d[name] = val
        ents.append((name, val))
    return d, ents


def ob_reconcile(cx):
    T = cx.mod(TG)
    ns = cx.choose("nsrc", 0, cx.p("n"))
    nd = cx.choose("ndst", 0, cx.p("n"))
    src, sents = _mkdict(cx, "src", ns, cx.p("lname"), cx.p("alpha"))
    dst, dents = _mkdict(cx, "dst", nd, cx.p("lname"), cx.p("alpha"))
    overwrite = bool(cx.choose("overwrite", 0, 1))
    use_sel = bool(cx.choose("use_selector", 0, 1))
    seltab = [cx.bool("sel%d" % i) for i in range(ns)] if use_sel else None

    def selector(name):
        for i, (n, _) in enumerate(sents):
            if n is name or (not cx.sym and n == name):
                return seltab[i]
        raise AssertionError("selector called with a name that is not a source tag")
    src_before = list(src.items())
    dst_before = list(dst.items())
    result, updates, conflicts = T._reconcile_tags(src, dst, overwrite, selector if use_sel else None)
    cx.require(list(src.items()) == src_before, "source dictionary was modified")
    cx.require(list(dst.items()) == dst_before, "destination dictionary was modified")
    added = 0
    nupd = 0
    nconf = 0
    for i, (name, sv) in enumerate(sents):
        selected = (not use_sel) or cx.truth(seltab[i])
        in_dst = [dv for dn, dv in dents if cx.truth(dn == name)]
        if not selected:
            cx.require(name not in updates, "unselected tag reported as updated")
            if in_dst:
                cx.require(result[name] == in_dst[0], "unselected tag changed the destination value")
            else:
                cx.require(name not in result, "unselected tag was copied")
            cx.cover("unselected")
            continue
        if not in_dst:
            cx.require(name in result and result[name] == sv, "tag only in source was not added with the source value")
            cx.require(name in updates and updates[name] == sv, "added tag not reported as an update")
            added += 1
            nupd += 1
            cx.cover("added")
        elif cx.truth(in_dst[0] == sv):
            cx.require(result[name] == sv, "identical tag changed")
            cx.require(name not in updates, "identical tag reported as updated")
            cx.cover("same")
        elif overwrite:
            cx.require(result[name] == sv, "overwrite did not take the source value")
            cx.require(name in updates and updates[name] == sv, "overwritten tag not reported as an update")
            nupd += 1
            cx.cover("overwritten")
        else:
            cx.require(result[name] == in_dst[0], "conflicting tag did not keep the destination value")
            cx.require(name not in updates, "conflicting tag reported as updated")
            hits = [c for c in conflicts if cx.truth(c[0] == name)]
            cx.require(len(hits) == 1, "conflict reported %d times" % len(hits))
            cx.require(hits[0][1] == sv and hits[0][2] == in_dst[0], "conflict tuple carries the wrong values")
            nconf += 1
            cx.cover("conflict")
    for dn, dv in dents:
        cx.require(dn in result, "tag only in the destination was lost")
        if not any(cx.truth(dn == sn) for sn, _ in sents):
            cx.require(result[dn] == dv, "tag only in the destination was changed")
    cx.require(len(result) == len(dents) + added, "result has unexpected extra or missing tags")
    cx.require(len(updates) == nupd, "updates has unexpected entries")
    cx.require(len(conflicts) == nconf, "conflicts has unexpected entries")
    cx.observe("result", list(result.items()))
    cx.observe("updates", list(updates.items()))
    cx.observe("conflicts", list(conflicts))


class _Branch:
    def __init__(self, name, log, master=None, has_tags=True):
        self.name = name
        self.log = log
        self.master = master
        self.has_tags = has_tags
        self.tags = None

    def supports_tags(self):
        return self.has_tags

    def lock_write(self):
        import contextlib
        self.log.append(("lock", self.name))

        @contextlib.contextmanager
        def cm():
            try:
                yield
            finally:
                self.log.append(("unlock", self.name))
        return cm()

    def get_master_branch(self):
        return self.master


class _Tags:
    def __init__(self, branch, d):
        self.branch = branch
        self.d = d
        branch.tags = self
        self.sets = []

    def get_tag_dict(self):
        return self.d

    def _set_tag_dict(self, new):
        self.sets.append(new)
        self.d = new


def _expected(cx, src_ents, dst_ents, overwrite):
    """Reference reconciliation on entry lists -> (result entries, updates, conflicts)."""
    res = list(dst_ents)
    upd, conf = [], []
    for name, sv in src_ents:
        hit = [i for i, (dn, _dv) in enumerate(res) if cx.truth(dn == name)]
        if not hit:
            res.append((name, sv))
            upd.append((name, sv))
        elif cx.truth(res[hit[0]][1] == sv):
            pass
        elif overwrite:
            res[hit[0]] = (name, sv)
            upd.append((name, sv))
        else:
            conf.append((name, sv, res[hit[0]][1]))
    return res, upd, conf


def _same_entries(cx, d, ents):
    if len(d) != len(ents):
        return False
    return all((n in d) and cx.truth(d[n] == v) for n, v in ents)


def ob_inter_merge(cx):
    """InterTags.merge: the destination (and its master, unless ignored) end up reconciled; everything is reported."""
    T = cx.mod(TG)
    log = []
    n = cx.p("n_inter")
    src, sents = _mkdict(cx, "src", cx.choose("nsrc", 0, n), cx.p("lname"), cx.p("alpha"))
    dst, dents = _mkdict(cx, "dst", cx.choose("ndst", 0, n), cx.p("lname"), cx.p("alpha"))
    overwrite = bool(cx.choose("overwrite", 0, 1))
    has_master = bool(cx.choose("has_master", 0, 1))
    ignore_master = bool(cx.choose("ignore_master", 0, 1))
    mst, ments = (None, [])
    master = None
    if has_master:
        mst, ments = _mkdict(cx, "mst", cx.choose("nmst", 0, n), cx.p("lname"), cx.p("alpha"))
        master = _Branch("master", log)
        mtags = _Tags(master, mst)
    sb, tb = _Branch("source", log), _Branch("target", log, master)
    stags, ttags = _Tags(sb, src), _Tags(tb, dst)
    inter = T.InterTags(stags, ttags)
    updates, conflicts = inter.merge(overwrite=overwrite, ignore_master=ignore_master)
    want_dst, upd_d, conf_d = _expected(cx, sents, dents, overwrite)
    cx.require(_same_entries(cx, ttags.get_tag_dict(), want_dst), "destination tags are not the reconciliation of source and destination")
    all_upd, all_conf = list(upd_d), list(conf_d)
    if has_master and not ignore_master and sents:
        want_m, upd_m, conf_m = _expected(cx, sents, ments, overwrite)
        cx.require(_same_entries(cx, mtags.get_tag_dict(), want_m), "master tags are not the reconciliation of source and master")
        all_upd += upd_m
        all_conf += conf_m
        cx.cover("master_updated")
    elif has_master:
        cx.require(not mtags.sets, "master tags were modified although the master is to be ignored / nothing to copy")
    for name, sv in all_upd:
        cx.require(name in updates and cx.truth(updates[name] == sv), "an added / overwritten tag is missing from the reported updates")
    for c in all_conf:
        cx.require(any(cx.truth(c[0] == g[0]) and cx.truth(c[1] == g[1]) and cx.truth(c[2] == g[2]) for g in conflicts),
                   "a conflicting tag is missing from the reported conflicts")
    for g in conflicts:
        cx.require(any(cx.truth(c[0] == g[0]) and cx.truth(c[1] == g[1]) and cx.truth(c[2] == g[2]) for c in all_conf),
                   "a conflict was reported that is none")
    locks = [e for e in log if e[0] == "lock"]
    unlocks = [e for e in log if e[0] == "unlock"]
    cx.require(len(locks) == len(unlocks), "a branch was left locked")
    if all_conf:
        cx.cover("conflict")
    if all_upd:
        cx.cover("updated")
    cx.observe("dst", list(ttags.get_tag_dict().items()))
    cx.observe("nupd", len(updates))


BT = "breezy.bzr.tag"


def m_bencode(d):
    """model of fastbencode.bencode for a dictionary bytes -> bytes: keys in sorted order, LENGTH:BYTES items"""
    out = b"d"
    for k in sorted(d.keys()):
        v = d[k]
        out = out + str(len(k)).encode("ascii") + b":" + k + str(len(v)).encode("ascii") + b":" + v
    return out + b"e"


def m_bdecode(data):
    """model of fastbencode.bdecode for what m_bencode produces (the lengths are concrete digits; contents may be symbolic)"""
    def number(i):
        j = i
        while data[j:j + 1] != b":":
            j += 1
        return int(bytes(data[i:j])), j + 1
    if data[0:1] != b"d":
        raise ValueError("not a dictionary")
    i, out = 1, []
    while data[i:i + 1] != b"e":
        n, i = number(i)
        k = data[i:i + n]
        i += n
        n, i = number(i)
        v = data[i:i + n]
        i += n
        out.append((k, v))
    return out


def setup_storage(ls):
    import fastbencode
    for d in ({}, {b"a": b"r1"}, {b"b": b"x", b"a": b"yy"}, {"é".encode(): b"r", b"e\xcc\x81": b"s"}, {b"": b""}):
        if fastbencode.bencode(d) != m_bencode(d):
            raise RuntimeError("bencode model differs on %r" % (d,))
        if dict(m_bdecode(fastbencode.bencode(d))) != fastbencode.bdecode(fastbencode.bencode(d)):
            raise RuntimeError("bdecode model differs on %r" % (d,))

    class BE:
        bencode = staticmethod(m_bencode)

        @staticmethod
        def bdecode(data):
            pairs = m_bdecode(data)
            from symx.containers import make_dict
            return make_dict(pairs)
    ls.modules[BT].bencode = BE


def ob_storage(cx):
    """BasicTags._set_tag_dict / get_tag_dict through the branch's tag bytes: a dictionary with symbolic unicode names
    (composed and decomposed spellings of the same letter included) and symbolic revision ids is read back unchanged."""
    B = cx.mod(BT)
    T = cx.truth
    n = cx.choose("ntags", 0, cx.p("n"))
    ents = []
    for i in range(n):
        name = cx.str("name%d" % i, cx.choose("len%d" % i, 0, cx.p("lname")), cx.p("alpha"))
        for o, _v in ents:
            cx.assume(o != name)
        ents.append((name, cx.bytes("rev%d" % i, 1, b"rs")))
    d = SymDict(ents) if cx.sym else dict(ents)
    stored = []

    class Lock:
        def __enter__(self):
            return self

        def __exit__(self, *a):
            return False

    class Branch:
        lock_read = lock_write = staticmethod(lambda: Lock())

        @staticmethod
        def _set_tags_bytes(b):
            stored.append(b)

        @staticmethod
        def _get_tags_bytes():
            return stored[-1]
    tags = B.BasicTags(Branch)
    tags._set_tag_dict(d)
    back = tags.get_tag_dict()
    items = list(back.items())
    cx.require(len(items) == n, "%d tags stored, %d read back" % (n, len(items)))
    for name, rev in ents:
        hit = [v for k, v in items if len(k) == len(name) and T(k == name)]
        cx.require(len(hit) == 1, "tag %r is not read back under its own name" % (name,))
        cx.require(T(hit[0] == rev), "tag %r is read back with another revision id" % (name,))
    if n >= 2:
        cx.cover("several")
    if any(not all(T(ch < "\x80") for ch in name) for name, _r in ents):
        cx.cover("non_ascii")
    cx.observe("n", n)


def obligations(tier):
    q = tier == "quick"
    p = dict(n=2 if q else 3, lname=2, alpha="abé", n_inter=1 if q else 2)
    ps = dict(n=2, lname=2 if q else 3, alpha="ae\u00e9\u0301")
    lift = [(TG, dict(symdict=True))]
    to = 900 if q else 7200
    return [Ob("reconcile", ob_reconcile, lift, p, to, 2 if q else 1,
               ["unselected", "added", "same", "overwritten", "conflict"],
               bounds="<= %(n)d tags per dictionary, names <= %(lname)d chars over %(alpha)r, unbounded revision ids, "
                      "overwrite on/off, with and without selector" % p),
            Ob("inter_tags_merge", ob_inter_merge, lift, p, to, 2 if q else 1, ["master_updated", "conflict", "updated"],
               bounds="InterTags.merge over stub branches: <= %(n_inter)d tags in each of source / destination / master, "
                      "overwrite, with/without master, ignore_master" % p),
            Ob("storage_roundtrip", ob_storage, [(BT, dict(symdict=True))], ps, to, 2 if q else 1, ["several", "non_ascii"],
               setup=setup_storage,
               bounds="<= %(n)d tags, names <= %(lname)d chars over 'a', 'e', U+00E9 and the combining accent U+0301 (composed "
                      "and decomposed spellings), one-byte revision ids" % ps)]
