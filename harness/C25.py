"""C25 - log lists the requested history completely and consistently (linear range view, ordering laws, generator)."""
from symx.runner import Ob

ID = "C25"
LG = "breezy.log"
FUNCTIONS = [LG + ":_linear_view_revisions", LG + ":_compute_revno_str", LG + ":reverse_by_depth", LG + ":_rebase_merge_depth", LG + ":_DefaultLogGenerator.iter_log_revisions",
             LG + ":LogRevision.__init__", LG + ":_generate_all_revisions", LG + ":_filter_revisions_touching_path"]
STUBS = ["log_generator obligation: _DefaultLogGenerator built with object.__new__; its revision iterator is replaced by a "
         "stub that yields the (symbolic-depth) view in batches"]
ASSUMPTIONS = ["input is a merge-sorted view: depths >= 0 and a depth never exceeds its predecessor's by more than one "
               "(what merge_sort produces); for the involution law the first revision has depth 0 (a tip)",
               "revision ids and revnos are opaque (unbounded integers / tuples), only depths drive the code"]
OUTSIDE = ["view-revision calculation and file filtering over a real branch", "lists longer than the bound"]


def _view(cx, tip0):
    n = cx.choose("n", 0, cx.p("n"))
    revs = []
    prev = None
    for i in range(n):
        d = cx.int("depth%d" % i, 0, n)
        if i == 0:
            if tip0:
                cx.assume(d == 0)
        else:
            cx.assume(d <= prev + 1)
        prev = d
        revs.append((cx.atom("rev%d" % i) if cx.sym else "r%d" % i, (i + 1,), d))
    return revs


def _ids(xs):
    return sorted(id(x) for x in xs)


def ob_reverse(cx):
    L = cx.mod(LG)
    tip0 = bool(cx.choose("tip_first", 0, 1))
    view = _view(cx, tip0)
    out = L.reverse_by_depth(list(view))
    cx.require(_ids(out) == _ids(view), "reverse_by_depth lost, duplicated or rebuilt a revision")
    # depth-0 revisions appear in reversed order, each followed directly by its block of deeper revisions
    blocks = []
    for v in view:
        if cx.truth(v[2] == 0) or not blocks:
            blocks.append([v])
        else:
            blocks[-1].append(v)
    pos = 0
    for b in reversed(blocks):
        got = out[pos:pos + len(b)]
        cx.require(_ids(got) == _ids(b), "a mainline revision was separated from the revisions merged into it")
        if cx.truth(b[0][2] == 0):
            cx.require(got[0] is b[0], "block does not start with its mainline revision")
        pos += len(b)
    # restriction to the mainline commutes with the reversal
    main_in = [v for v in view if cx.truth(v[2] == 0)]
    main_out = [v for v in out if cx.truth(v[2] == 0)]
    cx.require([id(v) for v in main_out] == [id(v) for v in reversed(main_in)], "mainline order is not reversed")
    if tip0:
        again = L.reverse_by_depth(list(out))
        cx.require([id(v) for v in again] == [id(v) for v in view], "reverse_by_depth is not an involution")
        cx.cover("involution")
    cx.observe("order", [view.index(v) for v in out] if not cx.sym else [[id(w) for w in view].index(id(v)) for v in out])
    if any(cx.truth(v[2] >= 2) for v in view):
        cx.cover("nested")


def ob_rebase(cx):
    L = cx.mod(LG)
    n = cx.choose("n", 0, cx.p("n"))
    view = [(cx.atom("rev%d" % i) if cx.sym else "r%d" % i, (i + 1,), cx.int("depth%d" % i, 0)) for i in range(n)]
    out = L._rebase_merge_depth(list(view))
    cx.require(len(out) == n, "length changed")
    both_nonzero = n > 0 and cx.truth(view[0][2] != 0) and cx.truth(view[-1][2] != 0)
    for a, b in zip(out, view):
        cx.require(a[0] is b[0] and a[1] is b[1], "revision or revno changed / reordered")
    if both_nonzero:
        shift = view[0][2] - out[0][2]
        for a, b in zip(out, view):
            cx.require(b[2] - a[2] == shift, "depths not shifted uniformly")
            cx.require(a[2] >= 0, "negative depth after rebasing")
        some_zero = False
        for a in out:
            some_zero = some_zero | (a[2] == 0) if cx.sym else (some_zero or a[2] == 0)
        cx.require(some_zero, "minimum depth is not 0 after rebasing")
        cx.cover("rebased")
    else:
        for a, b in zip(out, view):
            cx.require(a[2] == b[2], "depths changed although an end of the view is at depth 0")
        cx.cover("unchanged")
    cx.observe("depths", [a[2] for a in out])


class _Rev:
    def __init__(self, nparents):
        self.parent_ids = [b"p"] * nparents


def ob_delayed_graph(cx):
    """_generate_all_revisions: listing a range with the merge graph loaded lazily (non-merge revisions first, the graph
    view from the first merge on) gives the same revisions as loading the graph at once, for any placement of the merges -
    in particular when the LOWER limit of the range is itself a merge."""
    L = cx.mod(LG)
    T = cx.truth
    n = cx.choose("mainline", 1, cx.p("n"))
    merges = [cx.bool("is_merge%d" % k) for k in range(n + 1)]           # index = revno, 1..n
    lo = cx.choose("start", 1, n)
    hi = cx.choose("end", lo, n)
    use_start = bool(cx.choose("has_start", 0, 1))

    def rid(k):
        return b"main-%d" % k

    def linear(branch, start_rev_id, end_rev_id, exclude_common_ancestry=False):
        k = int(end_rev_id.split(b"-")[1])
        stop = int(start_rev_id.split(b"-")[1]) if start_rev_id is not None else 1
        while k >= stop:
            yield rid(k), str(k), 0
            k -= 1

    def graph_view(branch, start_rev_id, end_rev_id, rebase_initial_depths=True, exclude_common_ancestry=False):
        for rev_id, revno, depth in linear(branch, start_rev_id, end_rev_id):
            yield rev_id, revno, depth
            k = int(revno)
            if T(merges[k]):
                yield b"merged-by-%d" % k, "%d.1.1" % (k - 1), 1
    L._linear_view_revisions = linear
    L._graph_view_revisions = graph_view
    L._has_merges = lambda branch, rev_id: T(merges[int(rev_id.split(b"-")[1])])

    class Graph:
        @staticmethod
        def is_ancestor(a, b):
            return True

    class Branch:
        class repository:
            get_graph = staticmethod(lambda: Graph)
    start_id = rid(lo) if use_start else None
    direction = cx.pick("direction", ["reverse", "forward"])
    lazy = list(L._generate_all_revisions(Branch, start_id, rid(hi), direction, True))
    eager = list(L._generate_all_revisions(Branch, start_id, rid(hi), direction, False))
    cx.require(lazy == eager, "listing with the graph loaded lazily %r differs from the listing with the graph loaded at once %r" %
               ([r[1] for r in lazy], [r[1] for r in eager]))
    low = lo if use_start else 1
    if T(merges[low]) and hi > low and not any(T(merges[k]) for k in range(low + 1, hi + 1)):
        cx.cover("only_the_lower_limit_is_a_merge")
    if any(r[2] for r in eager):
        cx.cover("merged_revisions_listed")
    cx.observe("n", len(eager))


def ob_generator(cx):
    """_DefaultLogGenerator.iter_log_revisions over a stub revision iterator: level restriction, omit_merges and limit."""
    L = cx.mod(LG)
    view = _view(cx, True)
    n = len(view)
    revs = [_Rev(cx.choose("nparents%d" % i, 1, 2)) for i in range(n)]
    levels = cx.int("levels", 0, 3)
    limit = cx.pick("limit_kind", [None, "int"]) and cx.int("limit", 0, n + 1)
    omit_merges = bool(cx.choose("omit_merges", 0, 1))
    batch = cx.choose("batch", 1, 3)
    gen = object.__new__(L._DefaultLogGenerator)
    gen.branch = None
    gen.levels, gen.limit, gen.omit_merges = levels, limit, omit_merges
    gen.diff_type = None
    gen.show_signature = False
    gen.rev_tag_dict = {}
    gen.specific_files = None
    items = [((b"rev%d" % i, view[i][1], view[i][2]), revs[i], None) for i in range(n)]
    gen._create_log_revision_iterator = lambda: iter([items[k:k + batch] for k in range(0, n, batch)])
    got = list(gen.iter_log_revisions())
    # reference: what the unlimited listing shows, then its first `limit` entries
    shown = []
    for i in range(n):
        hidden = cx.truth(levels != 0) and cx.truth(view[i][2] >= levels)
        if hidden or (omit_merges and len(revs[i].parent_ids) > 1):
            continue
        shown.append(i)
    if limit is not None and cx.truth(limit > 0):
        k = 0
        while k < len(shown) and cx.truth(k < limit):
            k += 1
        want = shown[:k]
    else:
        want = shown
    cx.require(len(got) == len(want), "log lists %d revisions, expected %d (the first `limit` of the unlimited listing)" %
               (len(got), len(want)))
    for lr, i in zip(got, want):
        cx.require(lr.rev is revs[i], "log lists a different revision than the unlimited listing at that position")
        cx.require(lr.revno == str(view[i][1]) and cx.truth(lr.merge_depth == view[i][2]), "revno / merge depth of a listed revision changed")
    if cx.truth(levels == 1) and not omit_merges and limit is None:
        mainline = [i for i in range(n) if cx.truth(view[i][2] == 0)]
        cx.require([id(lr.rev) for lr in got] == [id(revs[i]) for i in mainline],
                   "one-level log does not list exactly the left-hand history")
        cx.cover("one_level")
    if limit is not None and len(want) < len(shown):
        cx.cover("limited")
    if len(shown) < n:
        cx.cover("hidden")
    cx.observe("shown", [lr.revno for lr in got])


def ob_file_filter(cx):
    """_filter_revisions_touching_path (log FILE): over a merge-sorted view with SYMBOLIC merge depths, the result is
    exactly - and in view order - the revisions that changed the file plus, for each of them, the revisions that merged
    it (the nearest earlier revision of each shallower depth), or only the mainline ones without include_merges."""
    L = cx.mod(LG)
    T = cx.truth
    view = _view(cx, True)
    n = len(view)
    if n == 0:
        cx.assume(False)
    ids = [b"rev%d" % i for i in range(n)]
    revs = [(ids[i], view[i][1], view[i][2]) for i in range(n)]
    modified = [bool(cx.choose("modified%d" % i, 0, 1)) for i in range(n)]
    include_merges = bool(cx.choose("include_merges", 0, 1))

    class FileGraph:
        @staticmethod
        def get_parent_map(keys):
            return {k: () for k in keys if modified[ids.index(k[1])]}

    class Tree:
        @staticmethod
        def path2id(path):
            return b"file-id"

    class Branch:
        class repository:
            get_file_graph = staticmethod(lambda: FileGraph)
            revision_tree = staticmethod(lambda rev_id: Tree)
    got = L._filter_revisions_touching_path(Branch, "f", list(revs), include_merges=include_merges)
    # reference
    selected = [False] * n
    for i in range(n):
        if not modified[i]:
            continue
        selected[i] = True
        level = revs[i][2]
        j = i - 1
        while j >= 0 and T(level > 0):
            if T(revs[j][2] < level):
                selected[j] = True           # the revision that merged revision i's line at this level
                level = revs[j][2]
            j -= 1
    want = [revs[i] for i in range(n) if selected[i] and (include_merges or T(revs[i][2] == 0))]
    cx.require(len(got) == len(want), "log FILE lists %d revisions, expected %d (%r)" %
               (len(got), len(want), [ids.index(g[0]) for g in got]))
    for g, w in zip(got, want):
        cx.require(g[0] == w[0], "log FILE lists revision %d where revision %d is expected" % (ids.index(g[0]), ids.index(w[0])))
    if any(T(revs[i][2] >= 2) and modified[i] for i in range(n)):
        cx.cover("deep_change")
    if any(selected[i] and not modified[i] for i in range(n)):
        cx.cover("merging_revision")
    cx.observe("got", [ids.index(g[0]) for g in got])


class _MainRev(bytes):
    """mainline revision number i as a revision id (symbolic i)"""
    def __new__(cls, cx, i):
        self = bytes.__new__(cls, b"rev")
        self.cx, self.i = cx, i
        return self

    def __eq__(self, other):
        return isinstance(other, _MainRev) and self.cx.truth(self.i == other.i)

    def __ne__(self, other):
        return not self.__eq__(other)

    def __hash__(self):
        return 1


def ob_linear_view(cx):
    """_linear_view_revisions over a mainline of symbolic length: log -r A..B lists exactly revisions B down to A (A
    included unless common ancestry is excluded), each with its own number; a start that is not a left-hand ancestor of
    the end is reported, not silently ignored."""
    L = cx.mod(LG)
    E = cx.real("breezy.errors")
    T = cx.truth
    n = cx.int("length", 1, cx.p("maxlen"))
    have_start = bool(cx.choose("have_start", 0, 1))
    have_end = bool(cx.choose("have_end", 0, 1))
    a = cx.int("start", 1, cx.p("maxlen")) if have_start else None
    b = cx.int("end", 1, cx.p("maxlen")) if have_end else None
    if a is not None:
        cx.assume(a <= n)
    if b is not None:
        cx.assume(b <= n)
    exclude = bool(cx.choose("exclude_common_ancestry", 0, 1))

    class Graph:
        @staticmethod
        def iter_lefthand_ancestry(rev, stop=None):
            i = rev.i
            while T(i >= 1):
                yield _MainRev(cx,i)
                i = i - 1

    class Branch:
        class _format:
            stores_revno = staticmethod(lambda: True)

        class repository:
            get_graph = staticmethod(lambda: Graph)

        @staticmethod
        def last_revision_info():
            return n, _MainRev(cx,n)

        @staticmethod
        def last_revision():
            return _MainRev(cx,n)

        @staticmethod
        def revision_id_to_dotted_revno(rev):
            return (rev.i,)
    start = _MainRev(cx,a) if a is not None else None
    end = _MainRev(cx,b) if b is not None else None
    top = b if b is not None else n
    raised = False
    got = []
    try:
        for rev, revno, depth in L._linear_view_revisions(Branch, start, end, exclude_common_ancestry=exclude):
            got.append((rev, revno, depth))
    except L._StartNotLinearAncestor:
        raised = True
    if a is not None and T(a > top):
        cx.require(raised, "a start revision that is not an ancestor of the end was accepted")
        cx.cover("not_ancestor")
    else:
        cx.require(not raised, "start revision rejected although it is a left-hand ancestor of the end")
        low = 1 if a is None else (a + 1 if exclude else a)
        want = top - low + 1
        cx.require(T(want == len(got)), "view lists %d revisions, the range holds %r" % (len(got), want))
        for k, (rev, revno, depth) in enumerate(got):
            cx.require(T(rev.i == top - k), "revision %d of the view is not revision number %r" % (k, top - k))
            cx.require(revno is not None and T(rev.i == (int(revno) if not cx.sym else _int(revno))), "revision shown with another revision's number")
            cx.require(depth == 0, "mainline revision shown with a merge depth")
        if got:
            cx.cover("listed")
        if exclude and a is not None:
            cx.cover("excluded_start")
    cx.observe("n", (len(got), raised))


def _int(s):
    from symx import rt
    return rt.m_int(s) if not isinstance(s, str) else int(s)


def obligations(tier):
    q = tier == "quick"
    p = dict(n=6 if q else 8)
    to = 900 if q else 7200
    return [
        Ob("linear_view", ob_linear_view, [LG], dict(maxlen=5 if q else 9), to, 2 if q else 1,
           ["listed", "not_ancestor", "excluded_start"],
           bounds="mainline of 1..%d revisions (symbolic), start / end anywhere on it or absent, common ancestry excluded or not"
                  % (5 if q else 9)),
        Ob("file_filter", ob_file_filter, [LG], dict(n=5 if q else 7), to, 2 if q else 1, ["deep_change", "merging_revision"],
           bounds="merge-sorted views of <= %d revisions with symbolic merge depths, any subset of them changing the file, "
                  "with / without merge revisions" % (5 if q else 7)),
        Ob("reverse_by_depth", ob_reverse, [LG], p, to, 1, ["involution", "nested"],
           bounds="views of <= %(n)d revisions, symbolic depths constrained to merge-sorted profiles" % p),
        Ob("rebase_merge_depth", ob_rebase, [LG], dict(n=4 if q else 5), to, 1, ["rebased", "unchanged"],
           bounds="views of <= %d revisions with unbounded non-negative symbolic depths" % (4 if q else 5)),
        Ob("delayed_graph", ob_delayed_graph, [LG], dict(n=4 if q else 6), to, 1,
           ["only_the_lower_limit_is_a_merge", "merged_revisions_listed"],
           bounds="mainline of <= %d revisions, each a merge or not (symbolic), any sub-range with or without a lower limit, both "
                  "directions" % (4 if q else 6)),
        Ob("log_generator", ob_generator, [LG], dict(n=4 if q else 5), to, 3 if q else 1, ["one_level", "limited", "hidden"],
           bounds="iter_log_revisions over a stub revision iterator: views of <= %d revisions with symbolic merge depths, "
                  "symbolic levels 0..3, symbolic limit (or none), omit_merges on/off, batch sizes 1..3" % (4 if q else 5)),
    ]
