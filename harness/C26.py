"""C26 - directory locks: per-operation obligations of one locker against an arbitrary environment."""
from symx.runner import Ob
from . import lockdir_env as env

ID = "C26"
LD = env.LD
FUNCTIONS = [LD + ":LockDir._attempt_lock", LD + ":LockDir._create_pending_dir", LD + ":LockDir._handle_lock_contention",
             LD + ":LockDir._remove_pending_dir", LD + ":LockDir.unlock", LD + ":LockDir.confirm",
             LD + ":LockDir.force_break", LD + ":LockDir.peek", LD + ":LockDir._read_info_file",
             LD + ":LockDir.attempt_lock"]
STUBS = ["transport = coherent in-memory file-system state machine; before each of our operations the environment may "
         "release / take / replace the lock (bounded number of interferences) - symbolic choices",
         "LockHeldInfo (Rust) -> python record (nonce, is_lock_holder_known_dead answer); rand_chars, ui, config stubbed"]
ASSUMPTIONS = ["other parties never write our nonce (nonces are unique) and never touch our pending / temporary directories",
               "nobody breaks the lock of a live holder, except in the obligations that model user intervention explicitly",
               "is_lock_holder_known_dead (Rust) is a symbolic predicate of the holder record"]
OUTSIDE = ["interleavings of two or three real lockers (concurrency over I/O)", "real transports", "src/lockdir.rs "
           "(holder liveness detection)", "more environment interferences per operation than the stated budget"]

K_BREAK = "C26-force-break-later-holder"


def _errs(L):
    from dromedary.errors import PathError, TransportError
    return (L.LockContention, L.LockFailed, L.LockBroken, L.LockBreakMismatch, L.LockNotHeld, TransportError, PathError)


def _known_behaviour(cx, fs, removed, exc_name):
    """Inside the input class of the known finding (the lock changed hands between force_break's peek and its rename) the
    recorded behaviour is: the later holder's directory has been moved to broken.*.tmp, the mismatch is DETECTED
    (LockBreakMismatch) and the moved directory still carries that holder's information.  Anything worse in the same class
    - reporting success, deleting the later holder's lock - is still a violation."""
    cx.require(exc_name == "LockBreakMismatch",
               "the lock changed hands before the rename and the mismatch went unreported (%s): a live holder's lock was "
               "removed silently" % (exc_name or "success",))
    kept = [d for d, info in fs.dirs.items() if info is not None and info is not env.NOINFO and cx.truth(info.nonce == removed.nonce)]
    cx.require(len(kept) == 1, "the later holder's lock directory was destroyed instead of being left for inspection")


def ob_attempt(cx):
    """_attempt_lock: success only if the info read after the rename carries our nonce; stealing only from a holder that
    is known dead and only when configured."""
    steal = bool(cx.choose("steal_dead", 0, 1))
    L, fs, ld = env.make_env(cx, interfere=cx.p("interfere"), steal_dead=steal)
    if cx.choose("initially_held", 0, 1):
        fs.held = fs.fresh_foreign()
    ok = False
    exc_name = None
    try:
        ld.attempt_lock()
        ok = True
    except _errs(L) as e:
        exc_name = type(e).__name__
    if ok:
        cx.require(ld._lock_held is True, "attempt_lock returned without marking the lock held")
        cx.require(fs.last_peek not in (None, "absent") and cx.truth(fs.last_peek.nonce == env.OUR_NONCE),
                   "lock reported as acquired although the last info read does not carry our nonce")
        cx.require(any(op == "rename_to_held" for op, _ in fs.log), "acquired without renaming the pending dir into place")
        cx.cover("acquired")
    else:
        cx.require(ld._lock_held is False, "failed acquisition left _lock_held set")
        cx.require(not fs._is_ours(fs.held), "failed acquisition left the lock held by us")
        cx.cover("refused")
    # every lock we removed (stolen) belonged to a holder reported dead, stealing was enabled, and it is the holder we looked at
    for removed, last_peek in fs.removed:
        cx.require(steal, "a lock was broken although locks.steal_dead is off")
        in_class = last_peek == "absent" or not cx.truth(last_peek.nonce == removed.nonce)
        if in_class:
            _known_behaviour(cx, fs, removed, exc_name)
        cx.known(K_BREAK, in_class)
        cx.require(removed.dead, "a lock was stolen from a holder that is not known to be dead")
        cx.require(last_peek != "absent" and cx.truth(last_peek.nonce == removed.nonce),
                   "the lock that was removed is not the one whose holder information was examined")
        cx.cover("stolen")
    cx.observe("ok", ok)
    cx.observe("log", [op for op, _ in fs.log])


def ob_unlock(cx):
    """unlock: renames held/ away only after a confirm that showed our nonce; a broken lock is reported, not removed."""
    L, fs, ld = env.make_env(cx, interfere=0, break_ours=True)
    ld.attempt_lock()          # set-up: undisturbed acquisition
    cx.require(ld._lock_held, "setup: lock not acquired")
    fs.interfere_budget = cx.p("interfere")
    fs.log.clear()
    fs.removed.clear()
    exc = None
    try:
        ld.unlock()
    except (L.LockBroken, L.LockNotHeld) as e:
        exc = type(e).__name__
    for removed, last_peek in fs.removed:
        cx.require(last_peek != "absent" and cx.truth(last_peek.nonce == env.OUR_NONCE),
                   "unlock removed the lock without having confirmed that it is ours")
        if "taken_over_empty" in fs.env_log:
            # only our own operations can leave held/ in place without its info file
            cx.require(cx.truth(removed.nonce == env.OUR_NONCE),
                       "unlock emptied held/ before moving it away: another locker took the lock through the empty "
                       "directory and its lock was then moved away by our rename")
    if exc == "LockBroken":
        cx.cover("broken_detected")
    if exc is None and fs.removed:
        cx.require(ld._lock_held is False, "unlock succeeded but the lock is still marked held")
        cx.cover("released")
    cx.observe("exc", exc)
    cx.observe("log", [op for op, _ in fs.log])


def ob_force_break(cx):
    """force_break(info): removes only the lock whose holder information was examined."""
    L, fs, ld = env.make_env(cx, interfere=cx.p("interfere"))
    examined = fs.fresh_foreign()
    state = cx.pick("state", ["same_holder", "other_holder", "free"])
    if state == "same_holder":
        fs.held = examined
    elif state == "other_holder":
        fs.held = fs.fresh_foreign()
        cx.assume(fs.held.nonce != examined.nonce)
    exc = None
    res = None
    from dromedary.errors import NoSuchFile
    try:
        res = ld.force_break(examined)
    except L.LockBreakMismatch:
        exc = "LockBreakMismatch"
    except NoSuchFile:
        exc = "NoSuchFile"          # the holder released the lock while we were breaking it: nothing was removed
        cx.require(not fs.removed, "NoSuchFile although a lock was moved away")
    for removed, last_peek in fs.removed:
        if not cx.truth(removed.nonce == examined.nonce):
            _known_behaviour(cx, fs, removed, exc)
        cx.known(K_BREAK, not cx.truth(removed.nonce == examined.nonce))
        cx.require(cx.truth(removed.nonce == examined.nonce),
                   "force_break moved away the lock of a holder other than the one that was examined")
    if exc is None and res is not None:
        cx.require(len(fs.removed) == 1, "force_break reported success without removing exactly one lock")
        cx.cover("broken")
    if exc == "LockBreakMismatch":
        cx.cover("mismatch")
    if state == "other_holder" and fs.interfere_budget == cx.p("interfere"):
        cx.require(exc == "LockBreakMismatch" and not fs.removed, "a different holder's lock was not left alone")
    cx.observe("exc", exc)
    cx.observe("log", [op for op, _ in fs.log])


def obligations(tier):
    q = tier == "quick"
    p = dict(interfere=2 if q else 3)
    to = 900 if q else 7200
    return [
        Ob("attempt_lock", ob_attempt, [LD], p, to, 1, ["acquired", "refused", "stolen"], setup=env.setup, known=[K_BREAK],
           bounds="one attempt_lock against an environment that interferes <= %(interfere)d times (release / take / replace "
                  "before any of our transport operations); steal_dead on/off" % p),
        Ob("unlock", ob_unlock, [LD], p, to, 1, ["released", "broken_detected"], setup=env.setup,
           bounds="one unlock; the environment (a user) may break our lock and others may take it, <= %(interfere)d "
                  "interferences" % p),
        Ob("force_break", ob_force_break, [LD], p, to, 1, ["broken", "mismatch"], setup=env.setup, known=[K_BREAK],
           bounds="one force_break(info) from the states same holder / other holder / free, <= %(interfere)d interferences" % p),
    ]
