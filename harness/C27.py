"""C27 - lock operations leave recoverable state: failed acquisitions, injected transport errors."""
from symx.runner import Ob
from . import lockdir_env as env

ID = "C27"
LD = env.LD
FUNCTIONS = [LD + ":LockDir._attempt_lock", LD + ":LockDir._create_pending_dir", LD + ":LockDir._remove_pending_dir",
             LD + ":LockDir.unlock", LD + ":LockDir.force_break", LD + ":LockDir.force_break_corrupt",
             LD + ":LockDir.confirm", LD + ":LockDir.peek"]
STUBS = ["transport = coherent in-memory file-system state machine; every one of our transport operations may fail with "
         "TransportError (bounded number of injected faults, symbolic choice of which) and the environment may interfere",
         "LockHeldInfo (Rust) -> python record; rand_chars, ui, config stubbed"]
ASSUMPTIONS = ["an injected fault means the operation had no effect (the error is raised before the file system changes)",
               "other parties never write our nonce and never touch our temporary directories"]
OUTSIDE = ["process crashes between two transport operations (prefix enumeration over a concrete operation sequence)",
           "faults that take effect partially", "real transports"]

K_LEAK = "C27-error-in-post-rename-peek"


def _errs(L):
    from dromedary.errors import PathError, TransportError
    return (L.LockContention, L.LockFailed, L.LockBroken, L.LockBreakMismatch, L.LockNotHeld, TransportError, PathError)


def _recoverable(cx, fs):
    """The lock is free, or held with readable holder information."""
    cx.require(fs.held is None or isinstance(fs.held, env.Info), "held/ exists without readable holder information")


def ob_attempt_faults(cx):
    L, fs, ld = env.make_env(cx, interfere=cx.p("interfere"), faults=cx.p("faults"))
    if cx.choose("initially_held", 0, 1):
        fs.held = fs.fresh_foreign()
    ok = False
    try:
        ld.attempt_lock()
        ok = True
    except _errs(L):
        pass
    _recoverable(cx, fs)
    faulted = [d for op, d in fs.log if op == "FAULT"]
    if ok:
        cx.require(ld._lock_held is True, "attempt_lock returned without marking the lock held")
        cx.cover("acquired")
    else:
        cx.require(ld._lock_held is False, "failed acquisition left _lock_held set")
        ours = fs._is_ours(fs.held)
        # class of the known finding: the rename into place succeeded and the confirming read failed
        renamed = any(op == "rename_to_held" for op, _ in fs.log)
        cx.known(K_LEAK, ours and renamed and "get" in faulted)
        cx.require(not ours, "a failed acquisition left the lock held by the failing process (operations: %r)" %
                   ([op if op != "FAULT" else "FAULT:" + d for op, d in fs.log],))
        cx.cover("failed")
    if faulted:
        cx.cover("fault")
    cx.observe("ok", ok)
    cx.observe("log", [op for op, _ in fs.log])


def ob_unlock_faults(cx):
    L, fs, ld = env.make_env(cx)
    ld.attempt_lock()
    cx.require(ld._lock_held, "setup: lock not acquired")
    fs.fault_budget = cx.p("faults")
    fs.log.clear()
    try:
        ld.unlock()
    except _errs(L):
        pass
    _recoverable(cx, fs)
    faulted = [d for op, d in fs.log if op == "FAULT"]
    released = any(op == "rename_from_held" for op, _ in fs.log)
    if released:
        cx.require(fs.held is None, "lock renamed away but still present")
        cx.require(ld._lock_held is False, "lock released on disk but still marked held")
        cx.cover("released")
    else:
        cx.require(fs._is_ours(fs.held), "unlock failed before the rename but the lock is no longer ours")
        cx.cover("still_held")
    cx.observe("log", [op for op, _ in fs.log])


def ob_break_faults(cx):
    L, fs, ld = env.make_env(cx)
    holder = fs.fresh_foreign()
    fs.held = holder
    fs.fault_budget = cx.p("faults")
    corrupt = bool(cx.choose("corrupt_path", 0, 1))
    try:
        if corrupt:
            ld.force_break_corrupt(holder)
        else:
            ld.force_break(holder)
    except _errs(L):
        pass
    _recoverable(cx, fs)
    moved = any(op == "rename_from_held" for op, _ in fs.log)
    cx.require((fs.held is None) == moved, "force_break left held/ in a state that does not match its operations")
    if moved:
        cx.cover("broken")
    else:
        cx.require(fs.held is holder, "force_break failed early but changed the holder record")
        cx.cover("untouched")
    cx.observe("log", [op for op, _ in fs.log])


def obligations(tier):
    q = tier == "quick"
    p = dict(interfere=1 if q else 2, faults=1 if q else 2)
    to = 900 if q else 7200
    return [
        Ob("attempt_lock_faults", ob_attempt_faults, [LD], p, to, 1, ["acquired", "failed", "fault"], setup=env.setup,
           known=[K_LEAK], bounds="one attempt_lock with <= %(faults)d injected transport error(s) at any operation and "
                                  "<= %(interfere)d environment interference(s)" % p),
        Ob("unlock_faults", ob_unlock_faults, [LD], p, to, 1, ["released", "still_held"], setup=env.setup,
           bounds="one unlock with <= %(faults)d injected transport error(s) at any operation" % p),
        Ob("force_break_faults", ob_break_faults, [LD], p, to, 1, ["broken", "untouched"], setup=env.setup,
           bounds="force_break / force_break_corrupt with <= %(faults)d injected transport error(s)" % p),
    ]
