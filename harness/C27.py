"""C27 - lock operations leave recoverable state: failed acquisitions, injected transport errors."""
from symx.runner import Ob
from . import lockdir_env as env

ID = "C27"
LD = env.LD
FUNCTIONS = [LD + ":LockDir._attempt_lock", LD + ":LockDir._create_pending_dir", LD + ":LockDir._remove_pending_dir",
             LD + ":LockDir.unlock", LD + ":LockDir.force_break", LD + ":LockDir.force_break_corrupt",
             LD + ":LockDir.confirm", LD + ":LockDir.peek"]
STUBS = ["transport = coherent in-memory file-system state machine; every one of our transport operations may fail with "
         "TransportError (bounded number of injected faults, symbolic choice of which) and the environment may interfere",
         "LockHeldInfo (Rust) -> python record; rand_chars, ui, config stubbed"]
ASSUMPTIONS = ["an injected fault means the operation had no effect (the error is raised before the file system changes)",
               "other parties never write our nonce and never touch our temporary directories"]
OUTSIDE = ["process crashes between two transport operations (prefix enumeration over a concrete operation sequence)",
           "faults that take effect partially", "real transports"]

K_LEAK = "C27-error-in-post-rename-peek"


def _errs(L):
    from dromedary.errors import PathError, TransportError
    return (L.LockContention, L.LockFailed, L.LockBroken, L.LockBreakMismatch, L.LockNotHeld, TransportError, PathError)


def _recoverable(cx, fs):
    """The lock is free, or held with readable holder information."""
    cx.require(fs.held is None or isinstance(fs.held, env.Info), "held/ exists without readable holder information")


def ob_attempt_faults(cx):
    L, fs, ld = env.make_env(cx, interfere=cx.p("interfere"), faults=cx.p("faults"))
    if cx.choose("initially_held", 0, 1):
        fs.held = fs.fresh_foreign()
    ok = False
    try:
        ld.attempt_lock()
        ok = True
    except _errs(L):
        pass
    _recoverable(cx, fs)
    faulted = [d for op, d in fs.log if op == "FAULT"]
    if ok:
        cx.require(ld._lock_held is True, "attempt_lock returned without marking the lock held")
        cx.cover("acquired")
    else:
        cx.require(ld._lock_held is False, "failed acquisition left _lock_held set")
        ours = fs._is_ours(fs.held)
        # class of the known finding: the rename into place succeeded and the confirming read failed
        renamed = any(op == "rename_to_held" for op, _ in fs.log)
        cx.known(K_LEAK, ours and renamed and "get" in faulted)
        cx.require(not ours, "a failed acquisition left the lock held by the failing process (operations: %r)" %
                   ([op if op != "FAULT" else "FAULT:" + d for op, d in fs.log],))
        cx.cover("failed")
    if faulted:
        cx.cover("fault")
    cx.observe("ok", ok)
    cx.observe("log", [op for op, _ in fs.log])


def ob_unlock_faults(cx):
    L, fs, ld = env.make_env(cx)
    ld.attempt_lock()
    cx.require(ld._lock_held, "setup: lock not acquired")
    fs.fault_budget = cx.p("faults")
    fs.log.clear()
    try:
        ld.unlock()
    except _errs(L):
        pass
    _recoverable(cx, fs)
    faulted = [d for op, d in fs.log if op == "FAULT"]
    released = any(op == "rename_from_held" for op, _ in fs.log)
    if released:
        cx.require(fs.held is None, "lock renamed away but still present")
        cx.require(ld._lock_held is False, "lock released on disk but still marked held")
        cx.cover("released")
    else:
        cx.require(fs._is_ours(fs.held), "unlock failed before the rename but the lock is no longer ours")
        cx.cover("still_held")
    cx.observe("log", [op for op, _ in fs.log])


def ob_break_faults(cx):
    L, fs, ld = env.make_env(cx)
    holder = fs.fresh_foreign()
    fs.held = holder
    fs.fault_budget = cx.p("faults")
    corrupt = bool(cx.choose("corrupt_path", 0, 1))
    try:
        if corrupt:
            ld.force_break_corrupt(holder)
        else:
            ld.force_break(holder)
    except _errs(L):
        pass
    _recoverable(cx, fs)
    moved = any(op == "rename_from_held" for op, _ in fs.log)
    cx.require((fs.held is None) == moved, "force_break left held/ in a state that does not match its operations")
    if moved:
        cx.cover("broken")
    else:
        cx.require(fs.held is holder, "force_break failed early but changed the holder record")
        cx.cover("untouched")
    cx.observe("log", [op for op, _ in fs.log])


def ob_crash_retry(cx):
    """The locking process STOPS before a symbolic one of its transport operations (no clean-up code runs).  Whatever
    it leaves behind, a later locker - same user, host and pid, e.g. the same long-lived process or a reused pid - can
    take the lock, at worst after breaking the lock the dead process held: the state is free or breakable, never stuck."""
    L, fs, ld = env.make_env(cx)
    if cx.choose("initially_held", 0, 1):
        fs.held = fs.fresh_foreign()
    what = cx.pick("interrupted", ["attempt_lock", "unlock"])
    if what == "unlock":
        cx.assume(fs.held is None)
        ld.attempt_lock()
    fs.crash_at = cx.int("crash_before_op", 0, cx.p("maxops"))
    fs.opcount = 0
    crashed = False
    try:
        if what == "attempt_lock":
            ld.attempt_lock()
        else:
            ld.unlock()
    except env.Crash:
        crashed = True
    except _errs(L):
        pass
    fs.crash_at = None
    if not crashed:
        cx.assume(False)                 # the operation finished before the crash point: covered by the other obligations
    debris = sorted(fs.dirs)
    ld2 = L.LockDir(fs, "lock")
    ld2.get_config = lambda: {"locks.steal_dead": False}
    steps = []
    try:
        try:
            ld2.attempt_lock()
            steps.append("acquired")
        except L.LockContention:
            holder = ld2.peek()
            steps.append("contention")
            if holder is None:
                # held/ without readable holder information: the documented way out is force_break_corrupt
                ld2.force_break_corrupt([])
                steps.append("broke_corrupt")
            else:
                ld2.force_break(holder)
                steps.append("broke")
            ld2.attempt_lock()
            steps.append("acquired")
    except _errs(L) as e:
        cx.require(False, "after a crash before operation %s of %s the lock can neither be taken nor broken (%s: %s; "
                          "left behind: %r)" % (fs.log[-1][1] if fs.log else "?", what, type(e).__name__, steps, debris))
    cx.require(ld2._lock_held is True and fs._is_ours(fs.held), "recovery did not end with the lock held by the new locker")
    if "broke" in steps or "broke_corrupt" in steps:
        cx.cover("broken_then_acquired")
    else:
        cx.cover("acquired_directly")
    if debris:
        cx.cover("debris")
    cx.observe("steps", steps)


def obligations(tier):
    q = tier == "quick"
    p = dict(interfere=1 if q else 2, faults=1 if q else 2)
    to = 900 if q else 7200
    return [
        Ob("attempt_lock_faults", ob_attempt_faults, [LD], p, to, 1, ["acquired", "failed", "fault"], setup=env.setup,
           known=[K_LEAK], bounds="one attempt_lock with <= %(faults)d injected transport error(s) at any operation and "
                                  "<= %(interfere)d environment interference(s)" % p),
        Ob("unlock_faults", ob_unlock_faults, [LD], p, to, 1, ["released", "still_held"], setup=env.setup,
           bounds="one unlock with <= %(faults)d injected transport error(s) at any operation" % p),
        Ob("force_break_faults", ob_break_faults, [LD], p, to, 1, ["broken", "untouched"], setup=env.setup,
           bounds="force_break / force_break_corrupt with <= %(faults)d injected transport error(s)" % p),
        Ob("crash_then_retry", ob_crash_retry, [LD], dict(maxops=8), to, 1, ["acquired_directly", "broken_then_acquired", "debris"],
           setup=env.setup,
           bounds="attempt_lock or unlock interrupted before transport operation 0..8 (symbolic), lock initially free or held "
                  "by another process; then a new locker with the same identity recovers (attempt, break, attempt)"),
    ]
