"""C28 - reentrant locking acquires and releases the physical lock exactly once.

Form 1 (inductive step): arbitrary pre-state satisfying the representation
invariant with an *unbounded symbolic* lock count, one arbitrary operation,
invariant + physical acquire/release obligations afterwards.  Covers call
histories of any length.  Form 2: bounded call sequences from the initial
state against a reference counter (checks that the invariant is the reachable
one and cross-checks form 1)."""
from symx.runner import Ob

ID = "C28"
CL = "breezy.counted_lock"
LF = "breezy.bzr.lockable_files"
PR = "breezy.bzr.pack_repo"
FUNCTIONS = [CL + ":CountedLock.lock_read", CL + ":CountedLock.lock_write", CL + ":CountedLock.unlock",
             CL + ":CountedLock.is_locked", CL + ":CountedLock.break_lock",
             LF + ":LockableFiles.lock_read", LF + ":LockableFiles.lock_write", LF + ":LockableFiles.unlock",
             LF + ":LockableFiles.is_locked",
             PR + ":PackRepository.lock_read", PR + ":PackRepository.lock_write", PR + ":PackRepository.unlock",
             PR + ":PackRepository.is_locked", PR + ":PackRepository.is_write_locked"]
STUBS = ["physical lock: records acquire/release, may refuse an acquisition (LockContention) by symbolic choice, "
         "validates tokens ('tok' valid, anything else TokenMismatch)",
         "PackRepository built with object.__new__: control_files = stub reentrant lock with its own symbolic count, "
         "fallback repositories / _unstacked_provider / _refresh_data / abort_write_group are recording stubs"]
ASSUMPTIONS = ["representation invariant as stated in DESIGN.md C28 (count >= 0, count == 0 <=> mode None <=> physical "
               "lock free); initial objects satisfy it (checked by the init obligations)"]
OUTSIDE = ["Branch / WorkingTree wrappers (they delegate to LockableFiles / CountedLock)", "real lock implementations"]


class Phys:
    """Physical lock stub."""

    def __init__(self, cx, held):
        self.cx = cx
        self.held = held
        self.log = []
        self.n = 0

    def _refuse(self):
        self.n += 1
        return self.cx.choose("refuse%d" % self.n, 0, 1)

    def lock_read(self):
        if self._refuse():
            raise self.cx.real("breezy.errors").LockContention("phys")
        self.cx.require(self.held is None, "physical lock acquired while already held")
        self.held = "r"
        self.log.append("acquire_r")

    def lock_write(self, token=None):
        if token not in (None, "tok"):
            raise self.cx.real("breezy.errors").TokenMismatch(token, "tok")
        if self._refuse():
            raise self.cx.real("breezy.errors").LockContention("phys")
        self.cx.require(self.held is None, "physical lock acquired while already held")
        self.held = "w"
        self.log.append("acquire_w")
        return "tok"

    def validate_token(self, token):
        if token not in (None, "tok"):
            raise self.cx.real("breezy.errors").TokenMismatch(token, "tok")

    def unlock(self):
        self.cx.require(self.held is not None, "physical lock released while not held")
        self.held = None
        self.nrel = getattr(self, "nrel", 0) + 1
        if self.cx.choose("release_fails%d" % self.nrel, 0, 1):
            # somebody broke the lock in the meantime: the release reports it, the lock is gone either way
            self.log.append("release_failed")
            raise self.cx.real("breezy.errors").LockBroken(self)
        self.log.append("release")

    def break_lock(self):
        self.held = None
        self.log.append("break")

    def peek(self):
        return self.held


def _pre_state(cx):
    """(mode, count) satisfying the invariant; count is an unbounded symbolic integer."""
    mode = cx.pick("mode", [None, "r", "w"])
    if mode is None:
        count = 0
    else:
        count = cx.int("count", 1)
    return mode, count


def _one_op(cx, obj, E):
    op = cx.pick("op", ["lock_read", "lock_write", "unlock"])
    token = cx.pick("token", [None, "tok", "bad"]) if op == "lock_write" else None
    exc = None
    try:
        if op == "lock_read":
            obj.lock_read()
        elif op == "lock_write":
            obj.lock_write(token=token)
        else:
            obj.unlock()
    except (E.LockContention, E.TokenMismatch, E.ReadOnlyError, E.LockNotHeld, E.LockBroken) as e:
        exc = type(e).__name__
    return op, token, exc


def _check_step(cx, pre_mode, pre_count, mode, count, phys, op, token, exc):
    """Obligations shared by CountedLock and LockableFiles."""
    # invariant afterwards
    cx.require(count >= 0, "negative lock count")
    if mode is None:
        cx.require(count == 0, "mode None with non-zero count")
        cx.require(phys.held is None, "logically unlocked but physical lock still held")
    else:
        cx.require(count >= 1, "locked with zero count")
        cx.require(phys.held == mode, "physical lock %r does not match logical mode %r" % (phys.held, mode))
    first = pre_mode is None
    if exc == "LockBroken":
        # the final release found the physical lock broken: the object must end fully unlocked (mode, count and
        # everything derived from them), so that a later lock acquires the physical lock again
        cx.require(op == "unlock" and cx.truth(pre_count == 1), "LockBroken from an operation that does not release")
        cx.require(mode is None and cx.truth(count == 0), "a failed final release left the object half locked "
                                                          "(mode %r, count %r)" % (mode, count))
        cx.require(phys.log == ["release_failed"], "physical calls %r" % (phys.log,))
        cx.cover("release_failed")
        cx.observe("res", (op, token, exc, mode, count, list(phys.log)))
        return
    if exc is not None:
        cx.require(cx.truth(count == pre_count) and mode == pre_mode, "failed %s changed the lock state" % op)
        cx.require(phys.log == [], "failed %s touched the physical lock: %r" % (op, phys.log))
    if op in ("lock_read", "lock_write"):
        if exc is None:
            cx.require(count == pre_count + 1, "successful %s did not increment the count" % op)
            want = (["acquire_" + ("r" if op == "lock_read" else "w")] if first else [])
            cx.require(phys.log == want, "physical calls %r, expected %r" % (phys.log, want))
        if op == "lock_write" and pre_mode == "r":
            cx.require(exc == "ReadOnlyError", "write lock on a read-locked object gave %r" % (exc,))
        if op == "lock_write" and pre_mode == "w" and token == "bad":
            cx.require(exc == "TokenMismatch", "bad token accepted")
    else:
        if first:
            cx.require(exc == "LockNotHeld", "unlock of an unlocked object gave %r" % (exc,))
        else:
            cx.require(exc is None, "unlock of a locked object raised %r" % (exc,))
            cx.require(count == pre_count - 1, "unlock did not decrement the count")
            last = cx.truth(pre_count == 1)
            cx.require(phys.log == (["release"] if last else []), "physical calls on unlock: %r (last=%r)" % (phys.log, last))
            if last:
                cx.cover("released")
    if exc:
        cx.cover(exc)
    cx.observe("res", (op, token, exc, mode, count, list(phys.log)))


def ob_counted_step(cx):
    C = cx.mod(CL)
    E = cx.real("breezy.errors")
    mode, count = _pre_state(cx)
    phys = Phys(cx, mode)
    c = C.CountedLock(phys)
    c._lock_mode, c._lock_count = mode, count
    if mode == "w":
        c._token = "tok"
    op, token, exc = _one_op(cx, c, E)
    cx.require(bool(c.is_locked()) == (c._lock_mode is not None), "is_locked inconsistent")
    _check_step(cx, mode, count, c._lock_mode, c._lock_count, phys, op, token, exc)


def _mk_lockable(cx, mode, count, phys):
    L = cx.mod(LF)
    T = cx.real("breezy.transactions")
    lf = object.__new__(L.LockableFiles)
    lf._transport = "transport"
    lf.lock_name = "lock"
    lf._lock = phys
    lf._lock_mode = mode
    lf._lock_count = count
    lf._transaction = None if mode is None else (T.WriteTransaction() if mode == "w" else T.ReadOnlyTransaction())
    lf._token_from_lock = "tok" if mode == "w" else None
    return lf


def ob_lockable_step(cx):
    E = cx.real("breezy.errors")
    mode, count = _pre_state(cx)
    phys = Phys(cx, mode)
    lf = _mk_lockable(cx, mode, count, phys)
    op, token, exc = _one_op(cx, lf, E)
    cx.require(bool(lf.is_locked()) == (lf._lock_mode is not None), "is_locked inconsistent")
    cx.require((lf._transaction is None) == (lf._lock_mode is None), "transaction does not follow the lock state")
    if lf._lock_mode == "w":
        cx.require(lf.get_transaction().writeable(), "write-locked without a writeable transaction")
    _check_step(cx, mode, count, lf._lock_mode, lf._lock_count, phys, op, token, exc)


class _CF:
    """control_files stand-in for PackRepository: reentrant read lock with a symbolic count."""

    def __init__(self, cx, count):
        self.cx = cx
        self.count = count
        self.log = []

    def is_locked(self):
        return self.count >= 1

    def lock_read(self):
        if self.cx.choose("cf_refuse", 0, 1):
            raise self.cx.real("breezy.errors").LockContention("cf")
        if self.cx.truth(self.count == 0):
            self.log.append("acquire_r")
        self.count = self.count + 1

    def unlock(self):
        if self.cx.truth(self.count == 0):
            raise self.cx.real("breezy.errors").LockNotHeld(self)
        self.count = self.count - 1
        if self.cx.truth(self.count == 0):
            self.log.append("release")

    def get_transaction(self):
        return "cf-transaction"


class _Fallback:
    def __init__(self, log, name):
        self.log = log
        self.name = name

    def lock_read(self):
        self.log.append("lock:" + self.name)

    def unlock(self):
        self.log.append("unlock:" + self.name)


class _Provider:
    def __init__(self, log):
        self.log = log

    def enable_cache(self, cache_misses=True):
        self.log.append("enable_cache")

    def disable_cache(self):
        self.log.append("disable_cache")


def ob_packrepo_step(cx):
    P = cx.mod(PR)
    E = cx.real("breezy.errors")
    T = cx.real("breezy.transactions")
    kind = cx.pick("state", ["unlocked", "read", "write"])
    wc = cx.int("wcount", 1) if kind == "write" else 0
    rc = cx.int("rcount", 1) if kind == "read" else 0
    nfb = cx.choose("nfallbacks", 0, 2)
    log = []
    repo = object.__new__(P.PackRepository)
    repo._write_lock_count = wc
    repo.control_files = cf = _CF(cx, rc)
    repo._fallback_repositories = [_Fallback(log, "fb%d" % i) for i in range(nfb)]
    repo._unstacked_provider = _Provider(log)
    repo._refresh_data = lambda: log.append("refresh")
    repo._transaction = T.WriteTransaction() if kind == "write" else None
    repo._write_group = None
    repo._prev_lock = None
    repo.abort_write_group = lambda: log.append("abort_write_group")
    op = cx.pick("op", ["lock_read", "lock_write", "unlock"])
    exc = None
    try:
        getattr(repo, op)()
    except (E.LockContention, E.ReadOnlyError, E.LockNotHeld) as e:
        exc = type(e).__name__
    wc2, rc2 = repo._write_lock_count, cf.count
    cx.require(wc2 >= 0, "negative write lock count")
    cx.require(rc2 >= 0, "negative read lock count")
    cx.require(not (cx.truth(wc2 > 0) and cx.truth(rc2 > 0)), "both write-counted and read-locked")
    cx.require((repo._transaction is not None) == cx.truth(wc2 > 0), "write transaction does not follow the write count")
    was_locked = kind != "unlocked"
    now_locked = cx.truth(wc2 > 0) or cx.truth(rc2 > 0)
    cx.require(bool(repo.is_locked()) == now_locked, "is_locked inconsistent")
    cx.require(bool(repo.is_write_locked()) == cx.truth(wc2 > 0), "is_write_locked inconsistent")
    fb_locks = [e for e in log if e.startswith("lock:")]
    fb_unlocks = [e for e in log if e.startswith("unlock:")]
    want_lock = ["lock:fb%d" % i for i in range(nfb)] if (not was_locked and now_locked) else []
    want_unlock = ["unlock:fb%d" % i for i in range(nfb)] if (was_locked and not now_locked) else []
    cx.require(fb_locks == want_lock, "fallback lock calls %r, expected %r" % (fb_locks, want_lock))
    cx.require(fb_unlocks == want_unlock, "fallback unlock calls %r, expected %r" % (fb_unlocks, want_unlock))
    cx.require(("enable_cache" in log) == (not was_locked and now_locked), "cache enabled at the wrong time")
    cx.require(("disable_cache" in log) == (was_locked and not now_locked), "cache disabled at the wrong time")
    if exc is not None:
        cx.require(cx.truth(wc2 == wc) and cx.truth(rc2 == rc), "failed %s changed the lock state" % op)
        cx.require(log == [], "failed %s had side effects %r" % (op, log))
    if op == "lock_write":
        if kind == "read":
            cx.require(exc == "ReadOnlyError", "write lock on a read-locked repository gave %r" % (exc,))
        else:
            cx.require(exc is None and cx.truth(wc2 == wc + 1), "lock_write did not count")
    elif op == "lock_read":
        if kind == "write":
            cx.require(exc is None and cx.truth(wc2 == wc + 1), "lock_read under a write lock did not count")
        elif exc is None:
            cx.require(cx.truth(rc2 == rc + 1), "lock_read did not count")
            cx.require(cf.log == (["acquire_r"] if kind == "unlocked" else []), "control files lock calls %r" % (cf.log,))
    else:
        if kind == "unlocked":
            cx.require(exc == "LockNotHeld", "unlock of an unlocked repository gave %r" % (exc,))
        elif kind == "write":
            cx.require(exc is None and cx.truth(wc2 == wc - 1), "unlock did not decrement the write count")
        else:
            cx.require(exc is None and cx.truth(rc2 == rc - 1), "unlock did not decrement the read count")
            cx.require(cf.log == (["release"] if cx.truth(rc == 1) else []), "control files unlock calls %r" % (cf.log,))
    if exc:
        cx.cover(exc)
    if was_locked and not now_locked:
        cx.cover("released")
    cx.observe("res", (kind, op, exc, wc2, rc2, list(log)))


def ob_sequences(cx):
    """Form 2: bounded call sequences from the freshly constructed object against a reference counter."""
    E = cx.real("breezy.errors")
    which = cx.pick("class", ["CountedLock", "LockableFiles"])
    phys = Phys(cx, None)
    phys._refuse = lambda: 0
    if which == "CountedLock":
        obj = cx.mod(CL).CountedLock(phys)
    else:
        obj = _mk_lockable(cx, None, 0, phys)
    n = cx.choose("len", 0, cx.p("seqlen"))
    mode, count = None, 0
    for i in range(n):
        op = cx.pick("op%d" % i, ["lock_read", "lock_write", "unlock"])
        before = len(phys.log)
        exc = None
        try:
            getattr(obj, op)()
        except (E.ReadOnlyError, E.LockNotHeld, E.LockBroken) as e:
            exc = type(e).__name__
        calls = phys.log[before:]
        if op == "unlock":
            if count == 0:
                cx.require(exc == "LockNotHeld" and calls == [], "step %d: unlock at count 0" % i)
            else:
                count -= 1
                if count == 0:
                    mode = None
                if calls == ["release_failed"]:
                    # the physical lock had been broken: reported, and the object is unlocked all the same
                    cx.require(exc == "LockBroken" and count == 0, "step %d: failed release" % i)
                    cx.cover("release_failed")
                else:
                    cx.require(exc is None and calls == (["release"] if count == 0 else []), "step %d: unlock" % i)
        elif op == "lock_write" and mode == "r":
            cx.require(exc == "ReadOnlyError" and calls == [], "step %d: write lock while read-locked" % i)
        else:
            m = "r" if op == "lock_read" else "w"
            want = ["acquire_" + m] if count == 0 else []
            if count == 0:
                mode = m
            count += 1
            cx.require(exc is None and calls == want, "step %d: %s made physical calls %r, expected %r" % (i, op, calls, want))
        cx.require(bool(obj.is_locked()) == (count > 0), "step %d: is_locked" % i)
        cx.require(phys.held == mode, "step %d: physical lock state %r, expected %r" % (i, phys.held, mode))
    cx.observe("final", (mode, count, list(phys.log)))
    if n == cx.p("seqlen"):
        cx.cover("full_length")


def obligations(tier):
    q = tier == "quick"
    ps = dict(seqlen=5 if q else 8)
    return [
        Ob("counted_lock_step", ob_counted_step, [CL], {}, 600, 1, ["released", "ReadOnlyError", "LockNotHeld",
                                                                     "TokenMismatch", "LockContention"],
           bounds="one operation from any invariant-satisfying state; lock count an unbounded symbolic integer"),
        Ob("lockable_files_step", ob_lockable_step, [LF], {}, 600, 1, ["released", "ReadOnlyError", "LockNotHeld",
                                                                         "TokenMismatch", "LockContention"],
           bounds="one operation from any invariant-satisfying state; lock count an unbounded symbolic integer"),
        Ob("pack_repository_step", ob_packrepo_step, [PR], {}, 600, 1, ["released", "ReadOnlyError", "LockNotHeld",
                                                                          "LockContention"],
           bounds="one operation from any invariant-satisfying state; write/read counts unbounded symbolic integers; "
                  "0..2 fallback repositories"),
        Ob("sequences", ob_sequences, [CL, LF], ps, 900 if q else 7200, 1, ["full_length"],
           bounds="every call sequence of length <= %(seqlen)d from the initial state (no tokens, no refusals)" % ps),
    ]
