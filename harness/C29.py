"""C29 - smart protocol messages survive the wire unchanged."""
from functools import partial

from symx.runner import Ob
from . import smartproto as sp

ID = "C29"
WHAT = "content"
FUNCTIONS = sp.FUNCTIONS
STUBS = sp.STUBS
ASSUMPTIONS = sp.ASSUMPTIONS
OUTSIDE = sp.OUTSIDE

# per-obligation bounds: (quick, thorough)
BASE_Q = dict(nbody=4, ntail=2, ncuts=2, nchunks=2, lchunk=2, errors=True, nargs=2, larg=2, npairs=2, maxoff=99999,
              readv=True, short=1)
BASE_T = dict(nbody=8, ntail=3, ncuts=3, nchunks=3, lchunk=3, errors=True, nargs=2, larg=3, npairs=3,
              maxoff=99999, readv=True, short=2)
OVER = {
    "chunked": (dict(ntail=1), dict(ncuts=2, ntail=1, lchunk=2)),
    "v_request": (dict(nbody=2, ntail=1, nargs=1, larg=2, ncuts=1, nchunks=2, lchunk=1, maxoff=999),
                  dict(nbody=2, ntail=1, nargs=2, larg=2, ncuts=2, nchunks=2, lchunk=2, maxoff=99999)),
    "v_response": (dict(nbody=2, ntail=1, larg=1, nchunks=2, lchunk=1, short=1),
                   dict(nbody=4, ntail=2, larg=2, nchunks=2, lchunk=2, short=2)),
    "pipe": (dict(nbody=2, larg=1, short=1), dict(nbody=4, larg=2, short=3)),
}


def params(tier, group=None):
    i = 0 if tier == "quick" else 1
    p = dict((BASE_Q, BASE_T)[i])
    if group:
        p.update(OVER[group][i])
    return p


def _b(p, keys):
    return ", ".join("%s<=%s" % (k, p[k]) for k in keys)


def obligations(tier, what=WHAT):
    p = params(tier)
    to = 900 if tier == "quick" else 7200
    ve = 1 if tier == "thorough" else 3
    obs = []
    if what == "content":
        obs.append(Ob("tuple", sp.ob_tuple, [sp.PROTO], p, to, 1, ["decoded"],
                      bounds="verb + " + _b(p, ["nargs", "larg"]) + " symbolic bytes, no 0x01/0x0A"))
        for k in ("v12", "v3"):
            obs.append(Ob("offsets_" + k, partial(sp.ob_offsets, enc_kind=k), [sp.PROTO, sp.VFS], p, to, 1,
                          ["nonempty"], bounds=_b(p, ["npairs", "maxoff"])))
    obs.append(Ob("length_prefixed", partial(sp.ob_length_prefixed, what=what), [sp.PROTO], p, to, ve,
                  ["body+tail"], bounds=_b(p, ["nbody", "ntail", "ncuts"]) + "; all segmentations"))
    pc = params(tier, "chunked")
    obs.append(Ob("chunked", partial(sp.ob_chunked, what=what), [sp.REQ, sp.PROTO], pc, to, ve,
                  ["chunks+tail", "error"], bounds=_b(pc, ["nchunks", "lchunk", "ntail", "ncuts"]) + "; error tuples <=2"))
    rq = params(tier, "v_request")
    rs = params(tier, "v_response")
    rqb = _b(rq, ["nargs", "larg", "nbody", "ntail", "ncuts", "nchunks", "lchunk", "maxoff"])
    rsb = _b(rs, ["larg", "nbody", "ntail", "nchunks", "lchunk", "short"])
    for v in (1, 2):
        obs.append(Ob("v%d_request" % v, partial(sp.ob_v12_request, what=what, version=v), sp.LIFT_ALL, rq, to, ve,
                      ["body", "nobody", "readv"], bounds=rqb))
        obs.append(Ob("v%d_response" % v, partial(sp.ob_v12_response, what=what, version=v), sp.LIFT_ALL, rs, to,
                      ve, ["none", "body"] + (["stream", "failed"] if v == 2 else []), bounds=rsb))
    obs.append(Ob("v3_request", partial(sp.ob_v3_request, what=what), sp.LIFT_ALL, rq, to, ve,
                  ["none", "body", "stream", "readv", "stream_fails", "unexpected_body"],
                  bounds=rqb + "; args from 3 concrete tuples"))
    obs.append(Ob("v3_response", partial(sp.ob_v3_response, what=what), sp.LIFT_ALL, rs, to, ve,
                  ["none", "body", "stream", "failed", "raises"], known=["C29-v3-stream-error-before-first-chunk"],
                  bounds=rsb + "; args from 3 concrete tuples"))
    pg = dict(rq)
    pg.update(nparts=2 if tier == "quick" else 3, lchunk=1 if tier == "quick" else 2, ncuts=2, ntail=1)
    obs.append(Ob("v3_grammar", partial(sp.ob_v3_grammar, what=what), [sp.PROTO], pg, to, ve, ["ends_with_byte_part", "full"],
                  bounds="hand-built v3 messages: empty headers + " + _b(pg, ["nparts"]) + " parts, each a one-byte part / bytes "
                         "part of " + _b(pg, ["lchunk"]) + " symbolic bytes / structure part, then 'e'; " + _b(pg, ["ntail", "ncuts"])))
    pp = params(tier, "pipe")
    obs.append(Ob("pipe_server", partial(sp.ob_pipe_server, what=what), sp.LIFT_ALL, pp, to, ve,
                  ["v1", "v2", "v3"], bounds=_b(pp, ["larg", "nbody", "short"])))
    ps = dict(pp)
    ps.update(ncuts=1 if tier == "quick" else 2, nbody=1 if tier == "quick" else 2, larg=1)
    obs.append(Ob("socket_pipelined", partial(sp.ob_socket_pipelined, what=what), sp.LIFT_ALL, ps, to, ve,
                  ["pipelined", "straddling_read"],
                  bounds="two back-to-back requests (any version pair), " + _b(ps, ["larg", "nbody", "ncuts"]) +
                         "; every split of the byte stream into ncuts+1 socket reads"))
    return obs
