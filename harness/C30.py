"""C30 - a smart server (or client) never waits for bytes beyond the current message."""
from . import C29 as _c29
from . import smartproto as sp

ID = "C30"
FUNCTIONS = sp.FUNCTIONS
STUBS = sp.STUBS
ASSUMPTIONS = sp.ASSUMPTIONS
OUTSIDE = sp.OUTSIDE


def obligations(tier):
    return _c29.obligations(tier, "readsize")
