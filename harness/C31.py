"""C31 - smart server clients cannot reach files outside the served directory (breezy's own path translation)."""
import urllib.parse

from symx.runner import Ob
from .util import s_or, startswith

ID = "C31"
RQ = "breezy.bzr.smart.request"
VF = "breezy.bzr.smart.vfs"
FUNCTIONS = [RQ + ":SmartServerRequest.__init__", RQ + ":SmartServerRequest.translate_client_path",
             RQ + ":SmartServerRequest.transport_from_client_path", VF + ":VfsRequest.translate_client_path",
             RQ + ":_pre_open_hook", RQ + ":SmartServerRequest.setup_jail"]
STUBS = ["urlutils.joinpath / escape / unescape (Rust, dromedary._transport_rs) -> python reference models executed "
         "symbolically; compared with the compiled functions on every string of length <= 4 over the path alphabet "
         "before each run",
         "backing transport = recording stub (clone(relpath)); jail transports = stubs with the base-class relpath rule"]
ASSUMPTIONS = ["client paths are ASCII (the engine's UTF-8 model); the alphabet is chosen so that every %XX escape decodes "
               "either to an ASCII character or to a byte that cannot be part of valid UTF-8"]
OUTSIDE = ["what the backing transport (chroot / path filter, dromedary) does with a translated relpath", "user-directory "
           "expansion in BzrServerFactory", "non-ASCII client paths", "paths longer than the bound"]

ALPHA = "x./%2EFe~\x00"       # no hex digit that could form a UTF-8 continuation byte (0x80..0xBF) after '%'
SAFE = set("abcdefghijklmnopqrstuvwxyzABCDEFGHIJKLMNOPQRSTUVWXYZ0123456789_.-~/")


# ---------------------------------------------------------------- leaf models (work on str and SymStr)
def _err(name):
    from dromedary import urlutils as U
    import dromedary.errors as E
    return getattr(E, name, None) or getattr(U, name)


def m_joinpath(base, *args):
    path = base.split("/")
    if len(path) > 1 and path[-1] == "":
        path.pop()
    for arg in args:
        if arg.startswith("/"):
            path = []
        for chunk in arg.split("/"):
            if chunk == ".":
                continue
            elif chunk == "..":
                if path == [""]:
                    raise _err("InvalidURLJoin")("Cannot go above root", base, args)
                path.pop()
            else:
                path.append(chunk)
    if path == [""]:
        return "/"
    r = path[0] if path else ""
    for p in path[1:]:
        r = r + "/" + p
    return r


def m_escape(relpath, safe="/~"):
    from symx import core
    from symx.values import SymStr, mkseq
    import z3
    if not isinstance(relpath, SymStr):
        return urllib.parse.quote(relpath.encode("utf-8"), safe=safe)
    eng = core.cur()
    safe_codes = sorted(ord(c) for c in set("abcdefghijklmnopqrstuvwxyzABCDEFGHIJKLMNOPQRSTUVWXYZ0123456789_.-~") | set(safe))
    out = []
    for it in relpath.items:
        if isinstance(it, int):
            out += [ord(c) for c in urllib.parse.quote(chr(it).encode("utf-8"), safe=safe)]
            continue
        if eng.branch(z3.Or([it == c for c in safe_codes])):
            out.append(it)
        else:
            if eng.branch(it >= 128):
                eng.unsupported("escape of a non-ASCII symbolic character")
            hi, lo = it / 16, it % 16
            out += [37, z3.If(hi < 10, hi + 48, hi + 55), z3.If(lo < 10, lo + 48, lo + 55)]
    return mkseq("str", out)


def _hexval(cx_truth, it):
    """value of a hex digit item or None"""
    import z3
    from symx import core
    if isinstance(it, int):
        ch = chr(it)
        return int(ch, 16) if ch in "0123456789abcdefABCDEF" else None
    eng = core.cur()
    k = eng.decide([z3.And(it >= 48, it <= 57), z3.And(it >= 97, it <= 102), z3.And(it >= 65, it <= 70),
                    z3.Not(z3.Or(z3.And(it >= 48, it <= 57), z3.And(it >= 97, it <= 102), z3.And(it >= 65, it <= 70)))])
    if k == 3:
        return None
    return it - (48, 87, 55)[k]


def m_unescape(url):
    from symx import core
    from symx.values import SymStr, mkseq
    if not isinstance(url, SymStr):
        try:
            url.encode("ascii")
        except UnicodeError:
            raise _err("InvalidURL")(url, "URL was not a plain ASCII url")
        raw = urllib.parse.unquote_to_bytes(url)
        try:
            return raw.decode("utf-8")
        except UnicodeError:
            return url          # the compiled function leaves the whole url untouched in this case
    eng = core.cur()
    items = url.items
    out = []
    i = 0
    n = len(items)
    while i < n:
        it = items[i]
        is_pct = (it == 37) if isinstance(it, int) else eng.branch(it == 37)
        if not is_pct:
            ok = (it < 128) if isinstance(it, int) else eng.branch(it < 128)
            if not ok:
                raise _err("InvalidURL")("<symbolic>", "URL was not a plain ASCII url")
            out.append(it)
            i += 1
            continue
        h1 = h2 = None
        if i + 2 < n:
            h1 = _hexval(None, items[i + 1])
            if h1 is not None:
                h2 = _hexval(None, items[i + 2])
        if h1 is None or h2 is None:
            out.append(37)
            i += 1
            continue
        v = h1 * 16 + h2
        ascii_ = (v < 128) if isinstance(v, int) else eng.branch(v < 128)
        if not ascii_:
            # with the harness alphabet no continuation byte (0x80..0xBF) can be produced, so any byte >= 0x80 makes the
            # sequence invalid UTF-8; a byte in 0x80..0xBF would need the full decoder
            cont = (128 <= v < 192) if isinstance(v, int) else eng.branch(v < 192)
            if cont:
                eng.unsupported("unescape producing a UTF-8 continuation byte")
            return url          # not valid UTF-8: the compiled function returns the url unchanged
        out.append(v)
        i += 3
    return mkseq("str", out)


def _validate_models():
    import itertools
    from dromedary import urlutils as U
    for n in range(0, 5):
        for t in itertools.product(ALPHA, repeat=n):
            s = "".join(t)
            for f, m, args in ((U.joinpath, m_joinpath, ("/", s)), (U.escape, m_escape, (s,)), (U.unescape, m_unescape, (s,))):
                try:
                    a = ("ok", f(*args))
                except Exception as e:
                    a = ("exc", type(e).__name__)
                try:
                    b = ("ok", m(*args))
                except Exception as e:
                    b = ("exc", type(e).__name__)
                if a != b:
                    raise RuntimeError("leaf model %s disagrees with the compiled function on %r: %r vs %r" %
                                       (m.__name__, args, a, b))


class _UrlutilsView:
    """urlutils as seen by the lifted modules: the three Rust leaves replaced by the models."""

    def __init__(self, real):
        self._real = real

    joinpath = staticmethod(m_joinpath)
    escape = staticmethod(m_escape)
    unescape = staticmethod(m_unescape)

    def __getattr__(self, name):
        return getattr(self._real, name)


def setup(ls):
    _validate_models()
    from breezy import urlutils as real
    for mod in ls.modules.values():
        if getattr(mod, "urlutils", None) is not None:
            mod.urlutils = _UrlutilsView(real)


ROOTS = [None, "/", "/r/", "/r/s/", "r"]


def _segments_ok(cx, rel):
    """rel is '.' or starts with './' and has no '..' (or empty-after-dot-dot) segment."""
    if cx.truth(rel == "."):
        return True
    if not cx.truth(rel.startswith("./")):
        return False
    for seg in rel.split("/"):
        if cx.truth(seg == ".."):
            return False
    return True


def ob_translate(cx):
    R = cx.mod(RQ)
    V = cx.mod(VF)
    root = cx.pick("root", ROOTS)
    vfs = bool(cx.choose("vfs", 0, 1))
    path = cx.str("client_path", cx.choose("len", 0, cx.p("lpath")), cx.p("alpha"))
    cls = V.VfsRequest if vfs else R.SmartServerRequest
    req = cls(None, root)
    E = cx.real("dromedary.errors")
    U = cx.real("dromedary.urlutils")
    allowed = (E.PathNotChild, U.InvalidURLJoin, U.InvalidURL, ValueError, UnicodeDecodeError)
    try:
        rel = req.translate_client_path(path.encode("ascii"))
    except allowed as e:
        cx.observe("raised", type(e).__name__)
        cx.cover("rejected")
        return
    if root is None:
        cx.require(rel == (m_unescape(path) if vfs else path), "without a root the client path must be passed through (VFS: unescaped once)")
        cx.cover("no_root")
        cx.observe("rel", rel)
        return
    cx.require(_segments_ok(cx, rel), "translated path is not '.' or './...' without '..' segments")
    # The relpath handed to the backing transport is URL-escaped; every transport unescapes it before touching the
    # file system.  What it sees then must still not climb above the served directory.
    try:
        seen = m_unescape(rel)
    except U.InvalidURL:
        seen = rel
    depth = 0
    for seg in seen.split("/"):
        if cx.truth(seg == ".."):
            depth -= 1
        elif not cx.truth(seg == ".") and len(seg):
            depth += 1
        cx.require(depth >= 0, "after the transport's unescaping the translated path climbs above the served directory")
    if not vfs:
        for ch in rel:
            cx.require(s_or([ch == c for c in sorted(SAFE | {"%"})]), "translated path contains a character that is not URL-safe")
    # the normalised client path must lie under the root
    norm_root = root if root.startswith("/") else "/" + root
    if not norm_root.endswith("/"):
        norm_root += "/"
    full = path if cx.truth(path.startswith("/")) else "/" + path
    cx.require(cx.truth((full + "/") == norm_root) or cx.truth(full.startswith(norm_root)),
               "a client path outside the root was accepted")
    cx.observe("rel", rel)
    cx.cover("accepted")


class _T:
    def __init__(self, base):
        self.base = base

    def relpath(self, abspath):
        import dromedary.errors as E
        if not (abspath == self.base[:-1] or startswith(abspath, self.base)):
            raise E.PathNotChild(abspath, self.base)
        return abspath[len(self.base):].strip("/")


def ob_jail2(cx):
    """_pre_open_hook raises JailBreak unless the transport base is a child of an allowed base."""
    R = cx.mod(RQ)
    E = cx.real("breezy.errors")
    jailed = bool(cx.choose("jailed", 0, 1))
    njail = cx.choose("njail", 0, 2)
    bases = [cx.str("jail%d" % i, cx.choose("ljail%d" % i, 1, 3), "a/b") + "/" for i in range(njail)]
    target = cx.str("target", cx.choose("ltarget", 0, cx.p("lpath")), "a/b.")
    R.jail_info.transports = [_T(b) for b in bases] if jailed else None
    try:
        try:
            R._pre_open_hook(_T(target))
            raised = False
        except E.JailBreak:
            raised = True
    finally:
        R.jail_info.transports = None
    inside = any(cx.truth(target == b[:-1]) or cx.truth(startswith(target, b)) for b in bases)
    if not jailed:
        cx.require(not raised, "JailBreak raised although no jail is active")
        cx.cover("no_jail")
    elif inside:
        cx.require(not raised, "JailBreak raised for a transport inside the jail")
        cx.cover("inside")
    else:
        cx.require(raised, "a control directory outside the jail could be opened")
        cx.cover("outside")
    cx.observe("raised", raised)
    # setup_jail installs the jail root
    req = R.SmartServerRequest("backing", "/", jail_root="jr")
    req.setup_jail()
    cx.require(R.jail_info.transports == ["jr"], "setup_jail did not install the jail root")
    req.teardown_jail()
    cx.require(R.jail_info.transports is None, "teardown_jail left the jail in place")


SV = "breezy.bzr.smart.server"


def ob_userdirs(cx):
    """BzrServerFactory._expand_userdirs (the path filter in front of the chroot): a '~user/REST' path is turned into the
    user's directory relative to the served directory - and the REST is passed on exactly as received: its escaping level
    is what keeps an escaped separator a literal character further down, so it must be neither unescaped nor re-escaped.
    Paths that do not start with '~', and users whose home is outside the served directory, are passed on untouched."""
    S = cx.mod(SV)
    f = object.__new__(S.BzrServerFactory)
    base = cx.pick("base_path", ["/home/", "/srv/"])
    f.base_path = base
    calls = []

    def expander(path):
        # os.path.expanduser for '~name/rest': the home of name, followed by '/rest' (characters taken literally)
        calls.append(path)
        i = path.find("/")
        if i < 0:
            i = len(path)
        return "/home/" + ("u" if i == 1 else path[1:i]) + path[i:]
    f.userdir_expander = expander
    tilde = bool(cx.choose("starts_with_tilde", 0, 1))
    rest = cx.str("rest", cx.choose("lrest", 0, cx.p("lrest")), "u/.%2Fe")
    path = ("~" + rest) if tilde else rest
    if not tilde and len(rest):
        cx.assume(rest[0] != "~")
    got = f._expand_userdirs(path)
    if not tilde or base != "/home/":
        cx.require(got == path, "a path that is not below a user directory of the served tree was rewritten")
        cx.cover("untouched")
    else:
        i = path.find("/")
        tail = "" if cx.truth(i < 0) else path[i:]
        cx.require(got.endswith(tail) or got.endswith(tail + "/"),
                   "the part of the path below the user directory was rewritten (escaping level changed)")
        cx.require(len(got) <= len(path) + 2, "expanded path longer than the user directory plus the given rest")
        cx.cover("expanded")
        if len(tail) > 1:
            cx.cover("with_rest")
    cx.observe("got", got)


def obligations(tier):
    q = tier == "quick"
    p = dict(lpath=5 if q else 7, alpha=ALPHA)
    to = 900 if q else 7200
    return [
        Ob("translate_client_path", ob_translate, [RQ, VF], p, to, 3 if q else 1, ["rejected", "accepted", "no_root"],
           setup=setup, bounds="client paths <= %d chars over %r; roots %r; VFS and non-VFS requests" % (p["lpath"], ALPHA, ROOTS)),
        Ob("pre_open_hook", ob_jail2, [RQ], dict(lpath=4 if q else 5), to, 1, ["no_jail", "inside", "outside"],
           bounds="<= 2 jail bases of <= 3 chars over 'a/b', target base <= %d chars" % (4 if q else 5)),
        Ob("expand_userdirs", ob_userdirs, [SV], dict(lrest=4 if q else 6), to, 1, ["untouched", "expanded", "with_rest"], setup=setup,
           bounds="paths '~' + <= %d chars over 'u/.%%2Fe' (or without '~'), served directory containing the home directories "
                  "or not" % (4 if q else 6)),
    ]
