"""C33 - search recipes sent to the server describe exactly the intended revisions (serialisation kernel)."""
from symx.runner import Ob
from .util import s_or

ID = "C33"
VS = "breezy.bzr.vf_search"
RM = "breezy.bzr.remote"
SR = "breezy.bzr.smart.repository"
FUNCTIONS = [RM + ":RemoteRepository._serialise_search_recipe", RM + ":RemoteRepository._serialise_search_result",
             VS + ":SearchResult.get_network_struct", VS + ":PendingAncestryResult.get_network_struct",
             SR + ":SmartServerRepositoryRequest.recreate_search",
             SR + ":SmartServerRepositoryRequest.recreate_search_from_recipe"]
STUBS = ["server-side repository / graph / breadth-first searcher are recording stubs: the harness checks which start keys "
         "the searcher is created with, which keys are passed to stop_searching_any and which count is compared",
         "set(...) in the lifted server module is an association-list set (keys compared with ==)"]
ASSUMPTIONS = ["revision ids are non-empty byte strings without space and newline (the revision-id alphabet)",
               "an empty key produced by splitting an empty line denotes 'no key' (it can match no revision)"]
OUTSIDE = ["recipe construction (search_result_from_parent_map, limited_search_result_from_parent_map) and the server's "
           "graph walk: they traverse a concrete parent map with compiled vcsgraph searchers (DAG structure)",
           "more ids per set than the bound"]


def _revid(cx, name, lmax):
    r = cx.bytes(name, cx.choose(name + ".len", 1, lmax))
    for c in r:
        cx.assume((c != 32) & (c != 10) if cx.sym else (c != 32 and c != 10))
    return r


def _ids(cx, prefix, nmax, lmax):
    out = []
    for i in range(cx.choose(prefix + ".n", 0, nmax)):
        r = _revid(cx, "%s%d" % (prefix, i), lmax)
        for o in out:
            cx.assume(o != r)
        out.append(r)
    return out


class _Searcher:
    def __init__(self, rec, start_keys, layers):
        self.rec = rec
        rec["start"] = list(start_keys)
        self.layers = list(layers)
        rec["stop_calls"] = []

    def __next__(self):
        if not self.layers:
            raise StopIteration
        return self.layers.pop(0)

    def stop_searching_any(self, keys):
        self.rec["stop_calls"].append(list(keys))

    def get_state(self):
        return (self.rec["start"], self.rec.get("excludes", []), self.rec["included"])


class _Repo:
    def __init__(self, rec, layers):
        self.rec = rec
        self.layers = layers

    def lock_read(self):
        import contextlib
        return contextlib.nullcontext()

    def get_graph(self):
        repo = self

        class G:
            def _make_breadth_first_searcher(self, start_keys):
                return _Searcher(repo.rec, start_keys, repo.layers)
        return G()


def _same_ids(cx, got, want, what):
    got = [g for g in got if not cx.truth(g == b"")]
    cx.require(len(got) == len(want), "%s: server sees %d ids, client sent %d" % (what, len(got), len(want)))
    for w in want:
        cx.require(s_or([g == w for g in got]), "%s: an id the client sent is not among the ids the server uses" % what)


def ob_recipe(cx):
    R = cx.mod(RM)
    S = cx.mod(SR)
    V = cx.real(VS)
    start = _ids(cx, "start", cx.p("nids"), cx.p("lid"))
    stop = _ids(cx, "stop", cx.p("nids"), cx.p("lid"))
    count = cx.int("count", 0, cx.p("maxcount"))
    via = cx.pick("via", ["recipe", "search_result"])
    if via == "recipe":
        body = b"search\n" + R.RemoteRepository._serialise_search_recipe(None, ("search", start, stop, count))
    else:
        body = R.RemoteRepository._serialise_search_result(None, _NS(cx, start, stop, count))
    included = [b"k%d" % i for i in range(cx.choose("server_found", 0, 2))]
    rec = {"included": included}
    first_layer = list(stop[:1]) + [b"other"]
    req = S.SmartServerRepositoryRequest.__new__(S.SmartServerRepositoryRequest)
    result, err = req.recreate_search(_Repo(rec, [first_layer]), body)
    _same_ids(cx, rec["start"], start, "start keys")
    # what the server passes to stop_searching_any for a layer containing the first stop key
    stopped = [k for call in rec["stop_calls"] for k in call]
    if stop:
        cx.require(s_or([k == stop[0] for k in stopped]) if stopped else False,
                   "a stop key sent by the client does not stop the server's search")
    cx.require(not any(cx.truth(k == b"other") for k in stopped), "the server stopped at a key the client did not list")
    ok_count = cx.truth(count == len(included))
    if ok_count:
        cx.require(err is None and result is not None, "count check failed although the counts agree")
        cx.cover("accepted")
    else:
        cx.require(result is None and err is not None and err.args == (b"NoSuchRevision",),
                   "a count mismatch was not reported as NoSuchRevision")
        cx.cover("count_mismatch")
    cx.observe("nstart", len(rec["start"]))
    cx.observe("ok", ok_count)


class _NSCls:
    pass


def _NS(cx, start, stop, count):
    """An object with the real SearchResult.get_network_struct bound to the given recipe."""
    V = cx.mod(VS)
    sr = V.SearchResult.__new__(V.SearchResult)
    sr._recipe = ("search", start, stop, count)
    return sr


def ob_ancestry(cx):
    R = cx.mod(RM)
    S = cx.mod(SR)
    V = cx.mod(VS)
    heads = _ids(cx, "head", cx.p("nids"), cx.p("lid"))
    par = V.PendingAncestryResult.__new__(V.PendingAncestryResult)
    par.heads = frozenset(heads) if not cx.sym else list(heads)
    par.repo = None
    body = R.RemoteRepository._serialise_search_result(None, par)
    req = S.SmartServerRepositoryRequest.__new__(S.SmartServerRepositoryRequest)
    result, err = req.recreate_search("repo", body)
    cx.require(err is None, "ancestry-of search rejected")
    cx.require(type(result).__name__ == "PendingAncestryResult", "ancestry-of search not recreated as such")
    _same_ids(cx, list(result.heads), heads, "heads")
    cx.observe("n", len(list(result.heads)))
    cx.cover("ancestry")


NULL = b"z"          # stands for NULL_REVISION inside the construction obligation (one byte, the largest letter)


def ob_construction(cx):
    """search_result_from_parent_map: the (start, stop, count) recipe built from a client-side parent map makes a server
    walk include exactly the map's keys (plus the null revision when the walk reaches it and nothing stops it), and count is
    the number of keys that walk includes.  The SHAPE of the graph is symbolic: keys and parents are symbolic one-byte ids,
    the solver decides which of them coincide (edges only lead to larger ids, which keeps the graph acyclic)."""
    V = cx.mod(VS)
    T = cx.truth

    class Rev:
        NULL_REVISION = NULL
    V.revision = Rev
    alpha = b"abcd" + NULL
    nk = cx.choose("nkeys", 0, cx.p("nkeys"))
    keys, parents = [], []
    for i in range(nk):
        k = cx.bytes("key%d" % i, 1, alpha)
        for o in keys:
            cx.assume(o != k)
        ps = []
        for j in range(cx.choose("nparents%d" % i, 0, 2)):
            p = cx.bytes("parent%d_%d" % (i, j), 1, alpha)
            cx.assume(p[0] > k[0])                     # acyclic; the null revision has no parents
            for o in ps:
                cx.assume(o != p)
            ps.append(p)
        keys.append(k)
        parents.append(ps)
    missing = []
    for j in range(cx.choose("nmissing", 0, cx.p("nmissing"))):
        m = cx.bytes("missing%d" % j, 1, alpha)
        for o in missing + keys:
            cx.assume(o != m)                         # a key with known parents is not in the client's "missing" cache
        missing.append(m)
    if cx.sym:
        from symx.containers import SymDict, SymSet
        pm = SymDict([(k, tuple(ps)) for k, ps in zip(keys, parents)])
        ms = SymSet(missing)
    else:
        pm = {k: tuple(ps) for k, ps in zip(keys, parents)}
        ms = set(missing)
    start, stop, count = V.search_result_from_parent_map(pm, ms)
    start, stop = list(start), list(stop)

    def member(x, xs):
        return any(T(x == y) for y in xs)
    # reference: the walk the server performs from `start`, not entering `stop`; ghosts (missing, not null) are absent
    included = []
    frontier = list(start)
    while frontier:
        x = frontier.pop()
        if member(x, included) or member(x, stop):
            continue
        is_key = member(x, keys)
        if not is_key and not T(x == NULL):
            if member(x, missing):
                continue                                  # a ghost: the server has nothing to include
            cx.require(False, "the server walk reaches a revision that is neither in the client's map nor a stop key")
        included.append(x)
        if is_key:
            for k, ps in zip(keys, parents):
                if T(k == x):
                    frontier.extend(ps)
    for k in keys:
        cx.require(member(k, included), "a revision of the client's map is not covered by the walk the recipe describes")
    cx.require(T(count == len(included)), "recipe count %r, the server walk includes %d revisions" % (count, len(included)))
    for s in start:
        cx.require(member(s, keys), "start key outside the map")
    if nk == 0:
        cx.cover("empty")
    if member(NULL, included) and not member(NULL, keys):
        cx.cover("null_counted")
    if member(NULL, keys):
        cx.cover("null_is_key")
    if stop:
        cx.cover("stops")
    cx.observe("recipe", (len(start), len(stop), count))


K_REFINE = "C33-refine-reaches-seen-revision-through-unseen-one"


def ob_refine(cx):
    """SearchResult.refine: a fetch from a stack of repositories asks the first one, notes which revisions it got (seen) and
    which parents those mention (referenced), refines the search and sends the refined description to the next repository.
    Graph shape, and which repository holds which revision, are symbolic.  The walk the refined description makes the second
    repository perform must be exactly the continuation of the first walk: no revision missing, none sent twice."""
    V = cx.mod(VS)
    T = cx.truth
    alpha = b"abcd" + NULL
    n = cx.choose("nkeys", 1, cx.p("nkeys"))
    keys, parents = [], []
    for i in range(n):
        k = cx.bytes("key%d" % i, 1, b"abcd")
        for o in keys:
            cx.assume(o[0] < k[0])                     # listed children first: ids distinct and ordered
        keys.append(k)
    for i in range(n):
        ps = []
        for j in range(cx.choose("nparents%d" % i, 1, 2)):
            p = cx.bytes("parent%d_%d" % (i, j), 1, alpha)
            cx.assume(p[0] > keys[i][0])               # acyclic
            for o in ps:
                cx.assume(o != p)
            cx.assume(T(p == NULL) or any(T(p == k) for k in keys[i + 1:]))     # no ghosts: a parent is a key or null
            ps.append(p)
        parents.append(ps)

    def member(x, xs):
        return any(T(x == y) for y in xs)

    def index(x):
        for i, k in enumerate(keys):
            if T(k == x):
                return i
        return None
    in_first = [cx.bool("in_first%d" % i) for i in range(n)]
    in_second = [cx.bool("in_second%d" % i) for i in range(n)]
    heads = [k for i, k in enumerate(keys) if not any(member(k, ps) for ps in parents)]
    # what the first repository streams: the walk from the heads through the revisions it holds
    seen, frontier = [], list(heads)
    while frontier:
        x = frontier.pop()
        i = index(x)
        if i is None or member(x, seen) or not T(in_first[i]):
            continue
        seen.append(x)
        frontier.extend(parents[i])
    referenced = []
    for s in seen:
        for p in parents[index(s)]:
            if not member(p, referenced):
                referenced.append(p)

    def mkset(xs):
        if cx.sym:
            from symx.containers import SymSet
            return SymSet(xs)
        return set(xs)
    overall = V.SearchResult(mkset(heads), mkset([NULL]), n, mkset(keys))
    refined = overall.refine(mkset(seen), mkset(referenced))
    _kind, start, exclude, count = refined.get_recipe()
    start, exclude = list(start), list(exclude)
    # the second repository replays the refined description: from the start keys, not entering the stop keys, through what it holds
    walked, frontier = [], list(start)
    while frontier:
        x = frontier.pop()
        if member(x, exclude) or member(x, walked) or T(x == NULL):
            continue
        i = index(x)
        cx.require(i is not None, "the refined description starts at an unknown revision")
        if not T(in_second[i]):
            continue                                   # absent there: a ghost for this server
        walked.append(x)
        frontier.extend(parents[i])
    # intended: the continuation of the first walk (what was not seen, reachable from where the first walk stopped)
    intended, frontier = [], [h for h in heads if not member(h, seen)] + [r for r in referenced if not member(r, seen)]
    while frontier:
        x = frontier.pop()
        i = index(x)
        if i is None or member(x, seen) or member(x, intended) or not T(in_second[i]):
            continue
        intended.append(x)
        frontier.extend(parents[i])
    unseen = [k for k in keys if not member(k, seen)]
    in_class = any(member(p, seen) for u in unseen for p in parents[index(u)])
    if in_class:
        # recorded behaviour of the known finding: nothing is missing, and whatever is sent in excess was seen before
        cx.require(all(member(x, walked) for x in intended), "a revision the client still needs is not covered by the refined search")
        cx.require(all(member(w, intended) or member(w, seen) for w in walked), "the refined search walks an unrelated revision")
    cx.known(K_REFINE, in_class)
    cx.require(all(member(x, walked) for x in intended), "a revision the client still needs is not covered by the refined search")
    extra = [w for w in walked if not member(w, intended)]
    cx.require(not extra, "the refined search makes the server send %d revision(s) the client already has" % len(extra))
    cx.require(T(count == n - len(seen)), "refined count %r, %d revisions are still wanted" % (count, n - len(seen)))
    if all(T(in_second[index(u)]) for u in unseen):
        cx.require(T(count == len(walked)), "the server's count check fails: count %r, walk %d" % (count, len(walked)))
        cx.cover("count_matches")
    if seen and unseen:
        cx.cover("split_between_repositories")
    if any(not member(s, heads) for s in seen):
        cx.cover("seen_non_head")
    cx.observe("sizes", (len(seen), len(walked)))


def obligations(tier):
    q = tier == "quick"
    p = dict(nids=2, lid=2 if q else 3, maxcount=99999)
    to = 900 if q else 7200
    lift = [VS, (SR, dict(symdict=True)), RM]
    return [
        Ob("search_recipe", ob_recipe, lift, p, to, 2 if q else 1, ["accepted", "count_mismatch"],
           bounds="<= %(nids)d start keys and <= %(nids)d stop keys of <= %(lid)d bytes, count 0..%(maxcount)d, both "
                  "serialisers (recipe / SearchResult.get_network_struct)" % p),
        Ob("ancestry_of", ob_ancestry, lift, p, to, 1, ["ancestry"],
           bounds="<= %(nids)d heads of <= %(lid)d bytes" % p),
        Ob("recipe_construction", ob_construction, [(VS, dict(symdict=True))], dict(nkeys=2 if q else 3, nmissing=1 if q else 2),
           to, 2 if q else 1, ["empty", "null_counted", "null_is_key", "stops"],
           bounds="parent maps of <= %d keys with 0..2 parents each; keys, parents and <= %d missing keys are symbolic ids over "
                  "5 letters (one of them the null revision), so every graph shape over them is covered"
                  % ((2, 1) if q else (3, 2))),
        Ob("refine", ob_refine, [(VS, dict(symdict=True))], dict(nkeys=3 if q else 4), to, 2 if q else 1,
           ["split_between_repositories", "seen_non_head", "count_matches"], known=[K_REFINE],
           bounds="graphs of <= %d revisions with 1..2 parents each (symbolic ids: every shape), each revision held by the first "
                  "and / or the second repository (symbolic); the search is 'everything from the heads'" % (3 if q else 4)),
    ]
