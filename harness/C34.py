"""C34 - importing then exporting a git commit reproduces it (numeric / flag / message fields, metadata block)."""
from symx.containers import SymDict
from symx.runner import Ob

ID = "C34"
MP = "breezy.git.mapping"
RT = "breezy.git.roundtrip"
FUNCTIONS = [MP + ":BzrGitMapping.import_commit", MP + ":BzrGitMapping.export_commit",
             MP + ":BzrGitMapping._decode_commit_message", MP + ":BzrGitMapping._encode_commit_message",
             MP + ":BzrGitMapping.get_revision_id", MP + ":fix_person_identifier",
             RT + ":extract_bzr_metadata", RT + ":inject_bzr_metadata", RT + ":generate_roundtripping_metadata",
             RT + ":parse_roundtripping_metadata"]
STUBS = ["input commit = attribute record with the fields the mapping reads; exported commit = the real "
         "dulwich.objects.Commit, compared field by field (its serialisation is compiled code and is not executed)",
         "parent lookup functions raise KeyError (parents are mapped through revision_id_foreign_to_bzr)"]
ASSUMPTIONS = ["commit / author times are non-negative integers < 10^6, time zones within +-99999 seconds",
               "message bytes are ASCII (the engine's UTF-8 model); committer and encoding are concrete values from a small "
               "set, the author is the committer or NAME <a@x> with a symbolic NAME of letters and spaces; gpg signature and merge tags are arbitrary byte strings (merge tags are carried by a stand-in for "
               "dulwich's Tag that only keeps the raw bytes); no extra headers",
               "metadata block: revision ids and parent ids contain no whitespace, property names contain no ':' / "
               "whitespace and are not empty-valued collisions, messages do not contain the '--BZR--' separator"]
OUTSIDE = ["byte-for-byte identity of the serialised commit (dulwich as_raw_string) and the parsing of merge tags", "extra "
           "headers, text encodings other than utf-8 / iso8859-1, symbolic non-ASCII messages", "values outside the stated ranges"]


class _Commit:
    pass


def _commit(cx):
    c = _Commit()
    c.id = b"a" * 40
    c.tree = b"b" * 40
    c.parents = [b"c" * 40][:cx.choose("nparents", 0, 1)]
    # identities in git's form NAME SPACE <EMAIL>; the NAME is symbolic (letters and spaces: 'A  <a@x>' has a name ending
    # in a space) and must come back byte for byte
    c.committer = cx.pick("committer", [b"C <c@x>", b"C  <c@x>"])
    if cx.choose("author_is_committer", 0, 1):
        c.author = c.committer
    else:
        c.author = cx.bytes("author_name", cx.choose("author_name.len", 0, cx.p("lname", 2)), b"A ") + b" <a@x>"
    c.encoding = cx.pick("encoding", [None, b"utf-8"])
    c.commit_time = cx.int("commit_time", 0, cx.p("tmax"))
    c.author_time = cx.int("author_time", 0, cx.p("tmax"))
    c.commit_timezone = cx.int("commit_timezone", -cx.p("tzmax"), cx.p("tzmax"))
    c.author_timezone = cx.int("author_timezone", -cx.p("tzmax"), cx.p("tzmax"))
    c._commit_timezone_neg_utc = bool(cx.choose("commit_neg_utc", 0, 1))
    c._author_timezone_neg_utc = bool(cx.choose("author_neg_utc", 0, 1))
    c.gpgsig = None
    c.mergetag = []
    c._extra = []
    c.extra = c._extra
    if cx.choose("has_message", 0, 1):
        c.message = cx.bytes("message", cx.choose("lmsg", 0, cx.p("lmsg")), list(range(0, 128)))
    else:
        c.message = None
    return c


def _nolookup(x):
    raise KeyError(x)


def ob_commit_fields(cx):
    M = cx.mod(MP)
    which = cx.pick("mapping", ["BzrGitMappingv1"])
    m = getattr(M, which)()
    c = _commit(cx)
    cx.known("C34-missing-message-export", c.message is None)
    rev, rt_revid, verifiers = m.import_commit(c, _nolookup)
    out = m.export_commit(rev, c.tree, _nolookup, True, verifiers)
    cx.require(out.commit_time == c.commit_time, "commit_time changed")
    cx.require(out.author_time == c.author_time, "author_time changed")
    cx.require(out.commit_timezone == c.commit_timezone, "commit_timezone changed")
    cx.require(out.author_timezone == c.author_timezone, "author_timezone changed")
    cx.require(bool(out._commit_timezone_neg_utc) == c._commit_timezone_neg_utc, "commit negative-UTC flag changed")
    cx.require(bool(out._author_timezone_neg_utc) == c._author_timezone_neg_utc, "author negative-UTC flag changed")
    cx.require(out.committer == c.committer, "committer changed")
    cx.require(out.author == c.author, "author changed")
    cx.require(out.encoding == c.encoding, "encoding header changed")
    cx.require((out.message is None) == (c.message is None), "missing message not preserved")
    if c.message is not None:
        cx.require(out.message == c.message, "message changed")
        cx.cover("message")
    else:
        cx.cover("no_message")
    cx.require(out.tree == c.tree, "tree changed")
    cx.require(m.get_revision_id(c) == rev.revision_id, "revision id derived from the commit is not stable")
    cx.observe("times", (out.commit_time, out.author_time, out.commit_timezone, out.author_timezone))
    cx.observe("message", out.message)
    if cx.truth(c.commit_time != c.author_time):
        cx.cover("author_time")
    if cx.truth(c.commit_timezone != c.author_timezone):
        cx.cover("author_tz")


class _RawTag:
    """Stand-in for dulwich.objects.Tag: only the raw serialisation travels through the mapping."""
    def __init__(self, raw):
        self.raw = raw

    @classmethod
    def from_string(cls, raw):
        return cls(raw)

    def as_raw_string(self):
        return self.raw


def ob_signature_and_mergetags(cx):
    """gpg signature and merge tags are arbitrary BYTES that must survive import -> export unchanged whatever the commit's
    text encoding is."""
    import dulwich.objects as DO
    M = cx.mod(MP)
    m = M.BzrGitMappingv1()
    c = _Commit()
    c.id, c.tree, c.parents = b"a" * 40, b"b" * 40, []
    c.committer = c.author = b"C <c@x>"
    c.encoding = cx.pick("encoding", [None, b"utf-8", b"iso8859-1"])
    c.commit_time = c.author_time = 1000
    c.commit_timezone = c.author_timezone = 0
    c._commit_timezone_neg_utc = c._author_timezone_neg_utc = False
    c.message = cx.pick("message", [b"m\n", b"caf\xe9\n"]) if c.encoding != b"utf-8" else b"m\n"
    c._extra = []
    c.extra = c._extra
    every = list(range(256))
    # the byte strings are independent of each other: vary one at a time (their product only multiplies codec paths)
    shape = cx.pick("shape", ["signature", "one_tag", "two_tags", "signature_and_tag"])
    c.gpgsig = None
    ntags = 0
    if shape == "signature":
        c.gpgsig = cx.bytes("gpgsig", cx.choose("lsig", 1, cx.p("lraw")), every)
    elif shape == "one_tag":
        ntags = 1
        c.mergetag = [_RawTag(cx.bytes("tag0", cx.choose("ltag0", 1, cx.p("lraw")), every))]
    elif shape == "two_tags":
        ntags = 2
        c.mergetag = [_RawTag(cx.bytes("tag0", 1, every)), _RawTag(cx.bytes("tag1", 1, every))]
    else:
        ntags = 1
        c.gpgsig = cx.bytes("gpgsig", 1, every)
        c.mergetag = [_RawTag(cx.bytes("tag0", 1, every))]
    if not ntags:
        c.mergetag = []
    real_tag = DO.Tag
    DO.Tag = _RawTag                  # export_commit imports Tag from dulwich.objects when it runs
    try:
        rev, rt_revid, verifiers = m.import_commit(c, _nolookup)
        out = m.export_commit(rev, c.tree, _nolookup, True, verifiers)
    finally:
        DO.Tag = real_tag
    cx.require((out.gpgsig is None) == (c.gpgsig is None), "gpg signature appeared / disappeared")
    if c.gpgsig is not None:
        cx.require(out.gpgsig == c.gpgsig, "gpg signature bytes changed")
        cx.cover("signature")
    cx.require(len(out.mergetag) == ntags, "number of merge tags changed")
    for a, b in zip(out.mergetag, c.mergetag):
        cx.require(a.as_raw_string() == b.as_raw_string(), "merge tag bytes changed")
        cx.cover("mergetag")
    cx.require(out.message == c.message and out.encoding == c.encoding, "message / encoding changed")
    if c.encoding == b"iso8859-1":
        cx.cover("latin1")
    cx.observe("sig", out.gpgsig)
    cx.observe("tags", [t.as_raw_string() for t in out.mergetag])


def _token(cx, name, lmax, lo=1, exclude=b" \t\n\r\x0b\x0c"):
    t = cx.bytes(name, cx.choose(name + ".len", lo, lmax), list(range(0, 128)))
    for ch in t:
        for e in exclude:
            cx.assume(ch != e)
    return t


def ob_metadata(cx):
    R = cx.mod(RT)
    md = R.CommitSupplement()
    if cx.choose("has_revid", 0, 1):
        md.revision_id = _token(cx, "revid", cx.p("lid"))
    npar = cx.choose("nparents", 0, 2)
    if npar:
        md.explicit_parent_ids = tuple(_token(cx, "parent%d" % i, cx.p("lid")) for i in range(npar))
    want_props = []
    if cx.choose("has_prop", 0, 1):
        name = _token(cx, "pname", 2, exclude=b" \t\n\r\x0b\x0c:")
        value = cx.bytes("pvalue", cx.choose("pvalue.len", 0, cx.p("lval")), list(range(0, 128)))
        if cx.sym:
            props = SymDict()
            props[name] = value
            md.properties = props
        else:
            md.properties = {name: value}
        want_props.append((name, value))
    if cx.choose("has_verifier", 0, 1):
        md.verifiers = {b"testament3-sha1": b"da39a3ee"}
    msg = cx.bytes("message", cx.choose("lmsg", 0, cx.p("lmsg")), list(range(0, 128)))
    text = R.inject_bzr_metadata(msg, md, "utf-8")
    back_msg, back = R.extract_bzr_metadata(text)
    empty = md.revision_id is None and not npar and not want_props and not md.verifiers
    cx.require(back_msg == msg, "message changed by inject/extract")
    if empty:
        cx.require(back is None, "metadata appeared from nowhere")
        cx.cover("empty")
    else:
        cx.require(back is not None, "metadata block lost")
        cx.require(back.revision_id == md.revision_id, "revision id changed")
        cx.require((back.explicit_parent_ids or ()) == (md.explicit_parent_ids or ()), "explicit parent ids changed")
        cx.require(len(back.properties) == len(want_props), "number of properties changed")
        for name, value in want_props:
            cx.require(name in back.properties, "property lost")
            cx.require(back.properties[name] == value, "property value changed")
        cx.require(dict(back.verifiers) == dict(md.verifiers), "verifiers changed")
        # a canonical block re-serialises to itself
        again = R.inject_bzr_metadata(back_msg, back, "utf-8")
        cx.require(again == text, "inject(extract(text)) != text")
        cx.cover("block")
    cx.observe("text", text)


def obligations(tier):
    q = tier == "quick"
    p = dict(tmax=999 if q else 999999, tzmax=99 if q else 99999, lmsg=2 if q else 4, lid=2 if q else 3, lval=2 if q else 4,
             lraw=2 if q else 3)
    to = 900 if q else 7200
    return [
        Ob("signature_and_mergetags", ob_signature_and_mergetags, ["breezy.revision", "breezy.foreign", RT, MP], p, to,
           2 if q else 1, ["signature", "mergetag", "latin1"],
           bounds="gpg signature and <= 2 merge tags of <= %(lraw)d ARBITRARY bytes each (0..255); commit encoding header "
                  "absent / utf-8 / iso8859-1, ASCII or latin-1 message" % p),
        Ob("commit_fields", ob_commit_fields, ["breezy.revision", "breezy.foreign", RT, MP], p, to, 3 if q else 1, ["message", "author_time", "author_tz"],
           known=["C34-missing-message-export"],
           bounds="times 0..%(tmax)d, time zones +-%(tzmax)d, both negative-UTC flags, author = / != committer, encoding "
                  "header present/absent, message None or <= %(lmsg)d ASCII bytes" % p),
        Ob("metadata_block", ob_metadata, [(RT, dict(symdict=True))], p, to, 3 if q else 1, ["empty", "block"],
           bounds="revision id / <= 2 parent ids of <= %(lid)d bytes, <= 1 property (name <= 2, value <= %(lval)d bytes), "
                  "optional verifier, message <= %(lmsg)d bytes" % p),
    ]
