"""C36 - git identifier mappings round-trip (Python-side mappings)."""
from symx.runner import Ob
from .util import s_and, s_or

ID = "C36"
MP = "breezy.git.mapping"
RF = "breezy.git.refs"
FUNCTIONS = ["breezy.git.urls:git_url_to_bzr_url", MP + ":escape_file_id", MP + ":unescape_file_id", MP + ":BzrGitMapping.generate_file_id",
             MP + ":BzrGitMapping.parse_file_id", MP + ":BzrGitMapping.revision_id_foreign_to_bzr",
             MP + ":BzrGitMapping.revision_id_bzr_to_foreign", MP + ":GitMappingRegistry.revision_id_bzr_to_foreign",
             RF + ":branch_name_to_ref", RF + ":ref_to_branch_name", RF + ":tag_name_to_ref", RF + ":ref_to_tag_name",
             RF + ":is_tag", RF + ":is_peeled"]
STUBS = ["git_url_passthrough: urlutils.URL (Rust) is replaced by a stand-in whose printing yields a marker string - re-serialising a URL is treated as producing a different string, which is witnessed on the real class before each run"]
ASSUMPTIONS = ["paths for generate_file_id / parse_file_id are arbitrary bytes (the engine models the UTF-8 codec including "
               "surrogateescape); branch / tag names are over an ASCII alphabet; file ids for escape/unescape are "
               "arbitrary bytes"]
OUTSIDE = ["the URL class and bzr_url_to_git_url themselves (Rust) and rsync-style locations (dulwich parsing): only the "
           "decision of git_url_to_bzr_url to pass a URL through untouched or to re-serialise it is checked",
           "GitBranch.set_parent (config I/O)",
           "non-ASCII names and paths", "ids longer than the bounds"]

NAME_ALPHA = "a/refshdtg_ "
HEX = b"0123456789abcdef"


def ob_escape(cx):
    M = cx.mod(MP)
    x = cx.bytes("file_id", cx.choose("n", 0, cx.p("n")))
    e = M.escape_file_id(x)
    cx.require(s_and([(c != 32) & (c != 12) if not isinstance(c, int) else (c != 32 and c != 12) for c in e]),
               "escaped file id contains a space or form feed")
    back = M.unescape_file_id(e)
    cx.require(back == x, "unescape_file_id(escape_file_id(x)) != x")
    cx.observe("e", e)
    if len(x) == cx.p("n"):
        cx.cover("full")


def ob_unescape(cx):
    M = cx.mod(MP)
    y = cx.bytes("escaped", cx.choose("n", 0, cx.p("n")), b"_sc ab\x0c")
    try:
        x = M.unescape_file_id(y)
    except ValueError:
        cx.cover("rejected")
        cx.observe("x", None)
        return
    except IndexError:
        cx.require(False, "unescape_file_id raised IndexError instead of ValueError")
    has_raw = s_or([(c == 32) | (c == 12) if not isinstance(c, int) else (c == 32 or c == 12) for c in y])
    if not cx.truth(has_raw):
        cx.require(M.escape_file_id(x) == y, "escape_file_id(unescape_file_id(y)) != y for a well-formed y")
        cx.cover("wellformed")
    cx.observe("x", x)


def ob_file_id(cx):
    M = cx.mod(MP)
    m = M.BzrGitMappingv1()
    p = cx.bytes("path", cx.choose("n", 0, cx.p("n")))          # arbitrary bytes, including invalid UTF-8
    fid = m.generate_file_id(p)
    back = m.parse_file_id(fid)
    ps = p.decode("utf-8", "surrogateescape")
    cx.require(back == ps, "parse_file_id(generate_file_id(path)) is not the (surrogate-escaped) path")
    cx.require(M.encode_git_path(back) == p, "path bytes not recovered from the parsed file id")
    cx.require(m.generate_file_id(ps) == fid, "generate_file_id differs between str and bytes path")
    cx.observe("fid", fid)
    if len(p) and any(cx.truth(c >= 0x80) for c in p):
        cx.cover("non_ascii")
    if len(p):
        cx.cover("nonempty")
    else:
        cx.cover("root")


def ob_revid(cx):
    M = cx.mod(MP)
    sha = cx.bytes("sha", 40, HEX)
    m = M.BzrGitMappingv1()
    revid = m.revision_id_foreign_to_bzr(sha)
    back, mp = M.mapping_registry.revision_id_bzr_to_foreign(revid)
    cx.require(back == sha, "revision id -> sha does not invert sha -> revision id")
    zero = cx.truth(sha == b"0" * 40)
    if zero:
        cx.require(revid == b"null:", "ZERO_SHA does not map to the null revision")
        cx.cover("zero")
    else:
        cx.require(type(mp).__name__ == type(m).__name__, "mapping returned for the revision id is not the generating mapping")
        cx.require(m.revision_id_bzr_to_foreign(revid)[0] == sha, "mapping-level inverse differs")
        cx.cover("nonzero")
    cx.require(m.revision_id_foreign_to_bzr(sha) == revid, "revision id not stable")
    cx.observe("revid", revid)


def ob_refs(cx):
    R = cx.mod(RF)
    n = cx.str("name", cx.choose("n", 0, cx.p("nname")), cx.p("alpha"))
    cx.known("C36-refs-prefixed-branch-name", n.startswith("refs/"))
    ref = R.branch_name_to_ref(n)
    back = R.ref_to_branch_name(ref)
    cx.require(back == n, "ref_to_branch_name(branch_name_to_ref(name)) != name")
    cx.require(R.branch_name_to_ref(back) == ref, "branch ref not stable under name round trip")
    tref = R.tag_name_to_ref(n)
    cx.require(R.is_tag(tref), "tag ref not recognised by is_tag")
    cx.require(R.ref_to_tag_name(tref) == n, "ref_to_tag_name(tag_name_to_ref(name)) != name")
    if len(n) == 0:
        cx.require(ref == b"HEAD", "empty branch name is not HEAD")
        cx.cover("head")
    else:
        cx.require(ref.startswith(b"refs/heads/"), "branch ref outside refs/heads/")
        cx.require(not R.is_tag(ref), "branch ref recognised as tag")
        cx.cover("named")
    cx.observe("ref", ref)


def ob_refs_reverse(cx):
    """ref -> name -> ref for refs under refs/heads/ and refs/tags/."""
    R = cx.mod(RF)
    rest = cx.bytes("rest", cx.choose("n", 1, cx.p("nname")), [ord(c) for c in cx.p("alpha")])
    cx.known("C36-refs-prefixed-branch-name", rest.startswith(b"refs/"))
    ref = b"refs/heads/" + rest
    name = R.ref_to_branch_name(ref)
    cx.require(R.branch_name_to_ref(name) == ref, "branch_name_to_ref(ref_to_branch_name(ref)) != ref")
    tref = b"refs/tags/" + rest
    cx.require(R.tag_name_to_ref(R.ref_to_tag_name(tref)) == tref, "tag ref round trip")
    cx.require(bool(R.is_peeled(tref)) == cx.truth(rest.endswith(b"^{}")), "is_peeled")
    cx.observe("name", name)
    cx.cover("done")


GU = "breezy.git.urls"
_MARK = "\x00re-serialised\x00"


def _url_setup(ls):
    """Parsing a URL and printing it again is NOT the identity for the compiled URL class (it drops passwords and empty
    ports and re-cases escapes): that is why a URL that needs no rewriting has to be handed on untouched.  Witnessed here on
    the real class, so that the abstraction used by the obligation (re-serialisation = a different string) stays honest."""
    from breezy import urlutils
    lossy = [u for u in ("https://u:p@h/%7ex", "git://h:/x", "http://h/%2fa") if str(urlutils.URL.from_string(u)) != u]
    if len(lossy) != 3:
        raise RuntimeError("URL re-serialisation is expected to be lossy on the witnesses; got %r" % (lossy,))


def ob_git_url(cx):
    """git_url_to_bzr_url without branch / ref: a URL whose scheme git understands natively is passed through UNCHANGED
    (only ssh:// is rewritten, to git+ssh://), so that bzr_url_to_git_url gets back the URL the user wrote."""
    G = cx.mod(GU)
    schemes = ["git+ssh", "git", "http", "https", "ftp", "ssh", "chroot-1"]
    scheme = cx.pick("scheme", schemes)
    rest = cx.str("rest", cx.choose("lrest", 1, cx.p("lrest")), "a:@/%7~.")
    location = scheme + "://" + rest
    made = []

    class URL:
        def __init__(self, scheme):
            self.scheme = scheme
            made.append(self)

        @classmethod
        def from_string(cls, loc):
            assert loc is location
            return cls(scheme)

        def __str__(self):
            return _MARK + self.scheme

    class U:
        def __getattr__(self, name):
            return getattr(cx.real("breezy.urlutils"), name)
    u = U()
    u.URL = URL
    G.urlutils = u
    got = G.git_url_to_bzr_url(location)
    if scheme == "ssh":
        cx.require(got == _MARK + "git+ssh", "ssh:// URL not rewritten to git+ssh://")
        cx.cover("ssh")
    else:
        cx.require(got is location or got == location, "a URL that needs no rewriting was parsed and printed again "
                                                       "(lossy: passwords, empty ports and escapes change)")
        cx.cover("passthrough")
    cx.observe("same", got is location)


def obligations(tier):
    q = tier == "quick"
    p = dict(n=5 if q else 8, nname=6 if q else 8, alpha=NAME_ALPHA)
    to = 900 if q else 7200
    kn = ["C36-refs-prefixed-branch-name"]
    return [
        Ob("escape_roundtrip", ob_escape, [MP], p, to, 1, ["full"], bounds="file ids <= %(n)d arbitrary bytes" % p),
        Ob("unescape_roundtrip", ob_unescape, [MP], dict(n=p["n"] + 1), to, 1, ["rejected", "wellformed"],
           bounds="escaped ids <= %d bytes over '_', 's', 'c', ' ', 'a', 'b', 0x0c" % (p["n"] + 1)),
        Ob("file_id_roundtrip", ob_file_id, [MP], dict(n=3 if q else 4), to, 3 if q else 1, ["nonempty", "root", "non_ascii"],
           bounds="paths <= %d arbitrary bytes (0..255, valid and invalid UTF-8; surrogateescape codec modelled)" % (3 if q else 4)),
        Ob("revision_id", ob_revid, [MP], p, to, 1, ["zero", "nonzero"], bounds="40 symbolic lowercase hex digits"),
        Ob("ref_names", ob_refs, [RF], p, to, 1, ["head", "named"], known=kn,
           bounds="names <= %(nname)d chars over %(alpha)r" % p),
        Ob("ref_names_reverse", ob_refs_reverse, [RF], p, to, 1, ["done"], known=kn,
           bounds="refs/heads/ and refs/tags/ + <= %(nname)d chars over %(alpha)r" % p),
        Ob("git_url_passthrough", ob_git_url, [GU], dict(lrest=3 if q else 5), to, 1, ["ssh", "passthrough"], setup=_url_setup,
           bounds="scheme in git+ssh / git / http / https / ftp / ssh / chroot-*, rest of the URL <= %d symbolic chars over "
                  "'a:@/%%7~.'; no branch / ref parameter" % (3 if q else 5)),
    ]
