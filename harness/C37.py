"""C37 - conditional git ref updates honour the expected old value (one operation of a second updater at a time)."""
import io
import posixpath

from symx.runner import Ob

ID = "C37"
TG = "breezy.git.transportgit"
DR = "dulwich.refs"
IR = "breezy.git.interrepo"
FUNCTIONS = [IR + ":InterToLocalGitRepository.fetch_refs", IR + ":InterToLocalGitRepository._get_target_either_refs",
             TG + ":TransportRefsContainer.allkeys",TG + ":TransportRefsContainer.set_if_equals", TG + ":TransportRefsContainer.remove_if_equals",
             TG + ":TransportRefsContainer.add_if_new", TG + ":TransportRefsContainer.read_loose_ref",
             TG + ":TransportRefsContainer.get_packed_refs", TG + ":TransportRefsContainer._remove_packed_ref",
             DR + ":RefsContainer.follow", DR + ":RefsContainer.read_ref", DR + ":read_packed_refs",
             DR + ":read_packed_refs_with_peeled", DR + ":write_packed_refs"]
STUBS = ["transport: in-memory dictionary of files (get/get_bytes/put_bytes/delete/has/clone/open_write_stream)",
         "dulwich.refs.valid_hexsha and git_line (imported from dulwich.objects, which uses binascii / compiled code) are "
         "replaced by equivalent pure-python versions inside the lifted dulwich.refs module"]
ASSUMPTIONS = ["ref values are 40 lowercase hex digits (symbolic); ref names come from a small concrete set",
               "an absent ref is expected as ZERO_SHA (dulwich convention for compare-and-swap)"]
OUTSIDE = ["interleavings finer than one whole operation of the second updater (there is no lock around read-compare-write; "
           "two updaters inside that window are concurrency over I/O)", "ref names outside the enumerated set",
           "pushes to remote git repositories (send_pack)"]

HEX = b"0123456789abcdef"
ZERO = b"0" * 40


def _valid_hexsha(h):
    if len(h) not in (40, 64):
        return False
    for c in h:
        if not ((48 <= c) & (c <= 57) | (97 <= c) & (c <= 102) | (65 <= c) & (c <= 70)
                if not isinstance(c, int) else (48 <= c <= 57 or 97 <= c <= 102 or 65 <= c <= 70)):
            return False
    return True


def _git_line(*items):
    r = items[0]
    for it in items[1:]:
        r = r + b" " + it
    return r + b"\n"


def setup(ls):
    D = ls.modules[DR]
    D.valid_hexsha = _valid_hexsha
    D.git_line = _git_line


class MemTransport:
    def __init__(self, files=None, prefix=""):
        self.files = {} if files is None else files
        self.prefix = prefix
        self.log = []

    def _p(self, path):
        return posixpath.normpath(posixpath.join(self.prefix, path)) if self.prefix else path

    def _open(self, data):
        if isinstance(data, bytes):
            return io.BytesIO(data)
        from symx.rt import SymBytesIO
        return SymBytesIO(data)

    def _missing(self, path):
        from dromedary.errors import NoSuchFile
        return NoSuchFile(path)

    def get(self, path):
        p = self._p(path)
        if p not in self.files:
            raise self._missing(path)
        return self._open(self.files[p])

    def get_bytes(self, path):
        p = self._p(path)
        if p not in self.files:
            raise self._missing(path)
        return self.files[p]

    def has(self, path):
        return self._p(path) in self.files

    def put_bytes(self, path, data, mode=None):
        self.log.append(("put", self._p(path)))
        self.files[self._p(path)] = data

    def delete(self, path):
        p = self._p(path)
        if p not in self.files:
            raise self._missing(path)
        self.log.append(("delete", p))
        del self.files[p]

    def clone(self, sub=None):
        t = MemTransport(self.files, self._p(sub) if sub else self.prefix)
        t.log = self.log
        return t

    def create_prefix(self):
        pass

    def iter_files_recursive(self):
        pre = self.prefix + "/" if self.prefix else ""
        found = [p[len(pre):] for p in sorted(self.files) if p.startswith(pre)]
        if self.prefix and not found:
            raise self._missing(self.prefix)
        return iter(found)

    def mkdir(self, path, mode=None):
        pass

    def local_abspath(self, path):
        from dromedary.errors import NotLocalUrl
        raise NotLocalUrl(path)

    def open_write_stream(self, path):
        outer = self

        class W:
            def __init__(self):
                self.parts = []

            def write(self, b):
                self.parts.append(b)

            def __enter__(self):
                return self

            def __exit__(self, *a):
                data = b""
                for p in self.parts:
                    data = data + p
                outer.log.append(("rewrite", outer._p(path)))
                outer.files[outer._p(path)] = data
                return False
        return W()


NAME = b"refs/heads/a"


def _scenario(cx):
    """Build the pre-state.  Returns (transport, how, current value or None)."""
    how = cx.pick("state", ["absent", "loose", "packed", "packed_peeled", "loose_and_packed", "symref"])
    cur = cx.bytes("current", 40, HEX)
    other = cx.bytes("other_packed", 40, HEX)
    files = {}
    if how in ("loose", "loose_and_packed", "symref"):
        files["refs/heads/a"] = cur + b"\n"
    if how in ("packed", "loose_and_packed"):
        files["packed-refs"] = (other if how == "loose_and_packed" else cur) + b" refs/heads/a\n" + other + b" refs/heads/z\n"
    if how == "packed_peeled":
        files["packed-refs"] = b"# pack-refs with: peeled \n" + cur + b" refs/heads/a\n" + other + b" refs/tags/t\n^" + cur + b"\n"
    if how == "symref":
        files["HEAD"] = b"ref: refs/heads/a\n"
    return MemTransport(files), how, (None if how == "absent" else cur)


def _snapshot(t):
    return sorted(t.files.items(), key=lambda kv: kv[0])


def _same(a, b):
    if len(a) != len(b):
        return False
    r = True
    for (ka, va), (kb, vb) in zip(a, b):
        if ka != kb:
            return False
        e = va == vb
        r = e & r if not isinstance(e, bool) else (r if e else False)
    return r


def ob_set_if_equals(cx):
    T = cx.mod(TG)
    t, how, cur = _scenario(cx)
    refs = T.TransportRefsContainer(t)
    name = b"HEAD" if how == "symref" and cx.choose("via_head", 0, 1) else NAME
    use_old = cx.choose("have_old", 0, 1)
    old = cx.bytes("old", 40, HEX) if use_old else None
    new = cx.bytes("new", 40, HEX)
    before = _snapshot(t)
    ok = refs.set_if_equals(name, old, new)
    expected_cur = cur if cur is not None else ZERO
    should = (old is None) or cx.truth(old == expected_cur)
    if should:
        cx.require(ok is True, "set_if_equals refused although the expected value matches")
        refs2 = T.TransportRefsContainer(t)
        cx.require(refs2[NAME] == new, "ref does not read back as the new value after a successful update")
        if how == "symref":
            cx.require(t.files.get("HEAD") == b"ref: refs/heads/a\n", "symbolic ref was overwritten")
        cx.cover("updated")
    else:
        cx.require(ok is False, "set_if_equals reported success although the ref holds a different value")
        cx.require(_same(_snapshot(t), before), "failed conditional update changed the stored refs")
        cx.cover("refused")
    cx.observe("ok", ok)
    cx.cover(how)


def ob_remove_if_equals(cx):
    T = cx.mod(TG)
    t, how, cur = _scenario(cx)
    if how == "symref":
        how, name = "loose", NAME      # remove_if_equals does not follow symrefs; treat as the loose ref
    refs = T.TransportRefsContainer(t)
    use_old = cx.choose("have_old", 0, 1)
    old = cx.bytes("old", 40, HEX) if use_old else None
    before = _snapshot(t)
    ok = refs.remove_if_equals(NAME, old)
    expected_cur = cur if cur is not None else ZERO
    should = (old is None) or cx.truth(old == expected_cur)
    if should:
        cx.require(ok is True, "remove_if_equals refused although the expected value matches")
        refs2 = T.TransportRefsContainer(t)
        cx.require(refs2.read_loose_ref(NAME) is None and NAME not in refs2.get_packed_refs(),
                   "ref still present after a successful conditional delete")
        if "packed" in how:
            cx.require((b"refs/heads/z" in refs2.get_packed_refs()) or (b"refs/tags/t" in refs2.get_packed_refs()),
                       "deleting one packed ref lost another packed ref")
        cx.cover("removed")
    else:
        cx.require(ok is False, "remove_if_equals reported success although the ref holds a different value")
        cx.require(_same(_snapshot(t), before), "failed conditional delete changed the stored refs")
        cx.cover("refused")
    cx.observe("ok", ok)
    cx.cover(how)


def ob_add_if_new(cx):
    T = cx.mod(TG)
    t, how, cur = _scenario(cx)
    refs = T.TransportRefsContainer(t)
    name = b"HEAD" if how == "symref" and cx.choose("via_head", 0, 1) else NAME
    new = cx.bytes("new", 40, HEX)
    before = _snapshot(t)
    ok = refs.add_if_new(name, new)
    if cur is None:
        cx.require(ok is True, "add_if_new refused to create an absent ref")
        cx.require(T.TransportRefsContainer(t)[NAME] == new, "new ref does not read back")
        cx.cover("added")
    else:
        cx.require(ok is False, "add_if_new reported success on an existing ref")
        cx.require(_same(_snapshot(t), before), "add_if_new overwrote an existing ref")
        cx.cover("kept")
    cx.observe("ok", ok)
    cx.cover(how)


def ob_fetch_refs(cx):
    """The real InterToLocalGitRepository.fetch_refs (push into a local git repository) writes each ref conditionally on the
    value it saw in its snapshot: a second updater that changes, creates or deletes the ref after the snapshot is never
    overwritten."""
    T = cx.mod(TG)
    I = cx.mod(IR)
    t, how, cur = _scenario(cx)
    if how == "symref":
        cx.assume(False)
    refs = T.TransportRefsContainer(t)
    ours = cx.bytes("new", 40, HEX)
    theirs = cx.bytes("theirs", 40, HEX)
    for v in (ours, theirs) + (() if cur is None else (cur,)):
        cx.assume(v != ZERO)          # the all-zero id means "no such ref" in the compare-and-swap convention; no object has it
    interference = cx.pick("interference", ["none", "set", "delete"])
    if interference == "delete" and cur is None:
        cx.assume(False)

    class Store:
        @staticmethod
        def lock_read():
            import contextlib
            return contextlib.nullcontext()

        @staticmethod
        def lookup_git_sha(sha):
            raise KeyError(sha)

    class Git:
        pass
    Git.refs = refs

    class Target:
        _git = Git
    inter = object.__new__(I.InterToLocalGitRepository)
    inter.source_store, inter.source, inter.target, inter.target_refs, inter.mapping = Store, None, Target, refs, None
    inter._warn_slow = lambda: None
    inter.fetch_revs = lambda revs, lossy=False: {}
    seen = {}

    def update_refs(old_refs):
        seen["snapshot"] = old_refs.get(NAME)
        other = T.TransportRefsContainer(t)          # the second updater, after our snapshot
        if interference == "set":
            other[NAME] = theirs
        elif interference == "delete":
            del other[NAME]
        return {NAME: (ours, b"some-revid")}
    inter.fetch_refs(update_refs, lossy=False)
    snap = seen["snapshot"]
    cx.require((snap is None) == (cur is None) and (cur is None or snap[0] == cur), "snapshot does not show the ref's value")
    final = T.TransportRefsContainer(t)
    try:
        got = final[NAME]
    except KeyError:
        got = None
    if interference == "none" or (interference == "set" and cur is not None and cx.truth(theirs == cur)):
        cx.require(got is not None and got == ours, "uncontended push did not store the new value")
        cx.cover("pushed")
    elif interference == "set":
        cx.require(got is not None and got == theirs, "push overwrote a value another updater stored after the snapshot")
        cx.cover("kept_theirs")
        if cur is None:
            cx.cover("created_meanwhile")
    else:
        cx.require(got is None, "push re-created a ref another updater deleted after the snapshot")
        cx.cover("kept_deleted")
    cx.observe("got", got)
    cx.cover(how)


def ob_stale_cache(cx):
    """A container that has already read packed-refs keeps working while ANOTHER process repacks the refs (git pack-refs:
    the value moves from the loose file into packed-refs) and possibly advances the ref afterwards.  A conditional delete
    through the first container must still compare against, and remove, what is on disk now."""
    T = cx.mod(TG)
    t, how, cur = _scenario(cx)
    if how in ("symref", "packed_peeled", "absent"):
        cx.assume(False)
    other = cx.bytes("other_entry", 40, HEX)
    newer = cx.bytes("newer", 40, HEX)
    for v in (cur, newer):
        cx.assume(v != ZERO)
    refs = T.TransportRefsContainer(t)
    refs.get_packed_refs()                         # the first container's view of packed-refs, from before the repack
    env = cx.pick("other_process", ["pack", "pack_then_advance"])
    t.files["packed-refs"] = cur + b" refs/heads/a\n" + other + b" refs/heads/z\n"
    t.files.pop("refs/heads/a", None)
    current = cur
    if env == "pack_then_advance":
        cx.assume(newer != cur)
        t.files["refs/heads/a"] = newer + b"\n"
        current = newer
    use_old = cx.choose("have_old", 0, 1)
    old = cx.bytes("old", 40, HEX) if use_old else None
    before = _snapshot(t)
    ok = refs.remove_if_equals(NAME, old)
    should = (old is None) or cx.truth(old == current)
    fresh = T.TransportRefsContainer(t)
    if should:
        cx.require(ok is True, "conditional delete refused although the expected value is the current one")
        cx.require(fresh.read_loose_ref(NAME) is None and NAME not in fresh.get_packed_refs(),
                   "the ref was reported deleted but is still there (an entry written by the repack survived)")
        cx.require(b"refs/heads/z" in fresh.get_packed_refs(), "deleting one ref lost another packed ref")
        cx.cover("deleted")
    else:
        cx.require(ok is False, "conditional delete succeeded although the ref holds a different value now")
        cx.require(_same(_snapshot(t), before), "failed conditional delete changed the stored refs")
        cx.cover("refused")
    cx.observe("ok", ok)
    cx.cover(env)


STATES = ["absent", "loose", "packed", "packed_peeled", "loose_and_packed", "symref"]


def obligations(tier):
    to = 900 if tier == "quick" else 3600
    lift = [DR, TG]
    b = "ref states %r; current / expected / new values: 40 symbolic hex digits each" % (STATES,)
    return [
        Ob("set_if_equals", ob_set_if_equals, lift, {}, to, 1, ["updated", "refused"] + STATES, setup=setup, bounds=b,
           known=["C37-cas-ignores-expected-value"]),
        Ob("remove_if_equals", ob_remove_if_equals, lift, {}, to, 1,
           ["removed", "refused"] + [s for s in STATES if s != "symref"], setup=setup, bounds=b,
           known=["C37-cas-ignores-expected-value"]),
        Ob("add_if_new", ob_add_if_new, lift, {}, to, 1, ["added", "kept"] + STATES, setup=setup, bounds=b),
        Ob("stale_cache_delete", ob_stale_cache, lift, {}, to, 1, ["deleted", "refused", "pack", "pack_then_advance"], setup=setup,
           bounds=b + "; the deleting container read packed-refs before another process repacked (and possibly advanced) "
                      "the ref"),
        Ob("fetch_refs", ob_fetch_refs, lift + [IR], {}, to, 1,
           ["pushed", "kept_theirs", "kept_deleted", "created_meanwhile"] + [s for s in STATES if s != "symref"], setup=setup,
           bounds=b + "; one interfering updater (set / delete / create with a symbolic value) between fetch_refs' snapshot and "
                      "its write"),
    ]
