"""C39 - diffs apply back to the text they describe (application / statistics half)."""
from symx.runner import Ob
from .util import fmt

ID = "C39"
PT = "breezy.patches"
FUNCTIONS = [PT + ":iter_patched_from_hunks", PT + ":Hunk.get_header", PT + ":Hunk.range_str", PT + ":Hunk.as_bytes",
             PT + ":Hunk.shift_to_mod", PT + ":Hunk.shift_to_mod_lines", PT + ":Patch.stats_values",
             PT + ":Patch.pos_in_mod", PT + ":Patch.iter_inserted", PT + ":parse_line", PT + ":HunkLine.get_str",
             PT + ":PatchConflict.__init__", PT + ":iter_hunks", PT + ":hunk_from_header", "breezy.diff:unified_diff_bytes"]
STUBS = ["generate_parse_apply: the sequence matcher (patiencediff, compiled) is replaced by a difflib.SequenceMatcher "
         "subclass whose opcodes are the alignment of the symbolic edit script; grouping into hunks is difflib's own code"]
ASSUMPTIONS = ["an edit script (leading unchanged lines, hunks of context/insert/remove lines, trailing unchanged lines) "
               "stands for the diff of the old text it deletes from and the new text it inserts into; hunk positions "
               "follow the unified-diff convention (1-based, counted on each side)",
               "lines are newline-terminated byte strings with symbolic content"]
OUTSIDE = ["diff generation (patiencediff, compiled)", "parsing of headers and ranges (crates/patch: parse_range, "
           "iter_lines_handle_nl - the latter replaced by a model compared with it before each run)", "scripts longer than the bound"]

KINDS = ["context", "insert", "remove"]


def _line(cx, name):
    return cx.bytes(name, cx.p("lline")) + b"\n"


def _script(cx, nh_max):
    """A random edit script -> (old lines, new lines, hunks, per-old-line expected new position)."""
    P = cx.mod(PT)
    old, new, hunks = [], [], []
    mapping = []                      # for each old line: index in new or None
    nh = cx.choose("nhunks", 1, nh_max)
    for h in range(nh):
        lead = cx.choose("lead%d" % h, 1 if h else 0, cx.p("lead"))     # unchanged lines before the hunk
        for i in range(lead):
            l = _line(cx, "u%d_%d" % (h, i))
            mapping.append(len(new))
            old.append(l)
            new.append(l)
        n = cx.choose("hlen%d" % h, 1, cx.p("hlen"))
        hunk = P.Hunk(len(old) + 1, 0, len(new) + 1, 0)
        for i in range(n):
            kind = cx.pick("kind%d_%d" % (h, i), KINDS)
            l = _line(cx, "h%d_%d" % (h, i))
            if kind == "context":
                hunk.lines.append(P.ContextLine(l))
                mapping.append(len(new))
                old.append(l)
                new.append(l)
                hunk.orig_range += 1
                hunk.mod_range += 1
            elif kind == "insert":
                hunk.lines.append(P.InsertLine(l))
                new.append(l)
                hunk.mod_range += 1
            else:
                hunk.lines.append(P.RemoveLine(l))
                mapping.append(None)
                old.append(l)
                hunk.orig_range += 1
        hunks.append(hunk)
    trail = cx.choose("trail", 0, cx.p("lead"))
    for i in range(trail):
        l = _line(cx, "t%d" % i)
        mapping.append(len(new))
        old.append(l)
        new.append(l)
    return old, new, hunks, mapping


def ob_apply(cx):
    P = cx.mod(PT)
    old, new, hunks, mapping = _script(cx, cx.p("nhunks"))
    got = list(P.iter_patched_from_hunks(list(old), list(hunks)))
    cx.require(len(got) == len(new), "patched text has %d lines, expected %d" % (len(got), len(new)))
    for a, b in zip(got, new):
        cx.require(a == b, "patched line differs from the new text")
    patch = P.Patch(b"old", b"new")
    patch.hunks = list(hunks)
    ins = sum(1 for h in hunks for l in h.lines if isinstance(l, P.InsertLine))
    rem = sum(1 for h in hunks for l in h.lines if isinstance(l, P.RemoveLine))
    cx.require(patch.stats_values() == (ins, rem, len(hunks)), "stats_values %r != %r" %
               (patch.stats_values(), (ins, rem, len(hunks))))
    inserted = list(patch.iter_inserted())
    cx.require(len(inserted) == ins, "iter_inserted count")
    for pos, line in inserted:
        cx.require(new[pos] == line.contents, "iter_inserted position does not hold the inserted line")
    for pos, want in enumerate(mapping):
        cx.require(patch.pos_in_mod(pos) == want, "pos_in_mod(%d) = %r, expected %r" % (pos, patch.pos_in_mod(pos), want))
    cx.observe("got", got)
    if ins and rem:
        cx.cover("ins+rem")
    if len(hunks) > 1:
        cx.cover("two_hunks")


def ob_conflict(cx):
    """One old line inside a hunk's context/removed range differs from the diff: must be PatchConflict."""
    P = cx.mod(PT)
    old, new, hunks, mapping = _script(cx, 1)
    h = hunks[0]
    inside = [i for i in range(h.orig_pos - 1, h.orig_pos - 1 + h.orig_range)]
    if not inside:
        cx.assume(False)
    k = cx.pick("perturb", inside)
    if cx.pick("difference", ["content", "final_newline"]) == "content":
        bad = _line(cx, "bad")
        cx.assume(bad != old[k])
    else:
        # the text to patch ends without a newline where the diff's old side has one: still a different text
        if k != len(old) - 1:
            cx.assume(False)
        bad = old[k][:-1]
        cx.cover("terminator_only")
    old2 = list(old)
    old2[k] = bad
    raised = None
    try:
        list(P.iter_patched_from_hunks(old2, list(hunks)))
    except P.PatchConflict as e:
        raised = "PatchConflict"
        cx.require(e.line_no == k + 1, "conflict reported at line %r, expected %d" % (e.line_no, k + 1))
    cx.require(raised == "PatchConflict", "a text that does not match the diff's context was patched without a conflict")
    cx.observe("raised", raised)
    cx.cover("conflict")


def ob_lines(cx):
    """parse_line inverts HunkLine.as_bytes; header formatting."""
    P = cx.mod(PT)
    kind = cx.pick("kind", KINDS)
    content = cx.bytes("content", cx.choose("n", 0, cx.p("lcontent"))) + b"\n"
    cls = {"context": P.ContextLine, "insert": P.InsertLine, "remove": P.RemoveLine}[kind]
    l = cls(content)
    text = l.as_bytes()
    back = P.parse_line(text)
    cx.require(type(back) is cls, "parse_line returned %s for a %s" % (type(back).__name__, cls.__name__))
    cx.require(back.contents == content, "line contents changed")
    cx.require(len(text) == len(content) + 1, "as_bytes added more than the lead character")
    pos = cx.int("pos", 0, 99999)
    rng = cx.int("range", 0, 99999)
    hk = P.Hunk(pos, rng, pos, rng)
    s = hk.range_str(pos, rng)
    if cx.truth(rng == 1):
        cx.require(s == fmt(b"%d", pos), "range_str for a one-line range")
    else:
        cx.require(s == fmt(b"%d,%d", (pos, rng)), "range_str")
    hd = hk.get_header()
    cx.require(hd == b"@@ -" + s + b" +" + s + b" @@\n", "hunk header format")
    cx.observe("text", text)
    cx.observe("hd", hd)
    cx.cover(kind)


NO_NL = b"\\ No newline at end of file\n"


def m_handle_nl(lines):
    """model of patches.iter_lines_handle_nl (Rust): a marker line takes the final newline off the line before it"""
    last = None
    for line in lines:
        if len(line) == len(NO_NL) and bool(line == NO_NL):
            if last is None or not bool(last[len(last) - 1:] == b"\n"):
                raise AssertionError("marker without a terminated line before it")
            last = last[:len(last) - 1]
            continue
        if last is not None:
            yield last
        last = line
    if last is not None:
        yield last


def setup_hunks(ls):
    from breezy import patches
    for sample in ([b" a\n", b"-b\n", NO_NL, b"+b\n"], [b" a\n"], [b"-x\n", NO_NL, b"+y\n", NO_NL], []):
        if list(patches.iter_lines_handle_nl(iter(sample))) != list(m_handle_nl(sample)):
            raise RuntimeError("iter_lines_handle_nl model differs on %r" % (sample,))


def ob_hunk_roundtrip(cx):
    """Hunk.as_bytes -> iter_hunks: a hunk whose old and / or new text ends WITHOUT a newline (the last old-side line, the
    last new-side line, or both) is written with the 'No newline at end of file' markers and parses back to the same lines."""
    P = cx.mod(PT)
    n = cx.choose("nlines", 1, cx.p("hlen"))
    kinds = [cx.pick("kind%d" % i, KINDS) for i in range(n)]
    last_old = max([i for i, k in enumerate(kinds) if k != "insert"], default=None)
    last_new = max([i for i, k in enumerate(kinds) if k != "remove"], default=None)
    old_open = last_old is not None and bool(cx.choose("old_text_unterminated", 0, 1))
    new_open = last_new is not None and bool(cx.choose("new_text_unterminated", 0, 1))
    if last_old is not None and last_old == last_new and old_open != new_open:
        cx.assume(False)                      # a shared last (context) line is the end of both texts
    if old_open and kinds[last_old] == "context" and last_new != last_old:
        cx.assume(False)                      # an unterminated context line must end the new text too
    if new_open and kinds[last_new] == "context" and last_new != last_old:
        cx.assume(False)
    lines = []
    for i, kd in enumerate(kinds):
        body = cx.bytes("c%d" % i, 1, b"ab\\ ")
        term = b"" if ((old_open and i == last_old) or (new_open and i == last_new)) else b"\n"
        cls = {"context": P.ContextLine, "insert": P.InsertLine, "remove": P.RemoveLine}[kd]
        lines.append(cls(body + term))
    nold = sum(1 for k in kinds if k != "insert")
    nnew = sum(1 for k in kinds if k != "remove")
    hk = P.Hunk(1, nold, 1, nnew)
    hk.lines = list(lines)
    text = hk.as_bytes()
    back = list(P.iter_hunks(m_handle_nl(text.splitlines(True))))
    cx.require(len(back) == 1, "the written hunk parses to %d hunks" % len(back))
    h2 = back[0]
    cx.require((h2.orig_pos, h2.orig_range, h2.mod_pos, h2.mod_range) == (1, nold, 1, nnew), "hunk ranges changed")
    cx.require(len(h2.lines) == n, "the written hunk has %d lines, it parses to %d" % (n, len(h2.lines)))
    for l1, l2 in zip(lines, h2.lines):
        cx.require(type(l1) is type(l2) and len(l1.contents) == len(l2.contents) and cx.truth(l1.contents == l2.contents),
                   "a hunk line changed on the way through its written form")
    if old_open != new_open:
        cx.cover("one_side_unterminated")
    if old_open and new_open:
        cx.cover("both_unterminated")
    if not old_open and not new_open:
        cx.cover("terminated")
    cx.observe("text", text)


DF = "breezy.diff"


def _opcodes(kinds):
    """difflib-style opcodes for an alignment given as a list of 'context' / 'insert' / 'remove' items."""
    ops = []
    i = j = 0
    k = 0
    n = len(kinds)
    while k < n:
        if kinds[k] == "context":
            k0 = k
            while k < n and kinds[k] == "context":
                k += 1
            ops.append(("equal", i, i + (k - k0), j, j + (k - k0)))
            i += k - k0
            j += k - k0
        else:
            rem = ins = 0
            while k < n and kinds[k] != "context":
                if kinds[k] == "remove":
                    rem += 1
                else:
                    ins += 1
                k += 1
            tag = "replace" if rem and ins else ("delete" if rem else "insert")
            ops.append((tag, i, i + rem, j, j + ins))
            i += rem
            j += ins
    return ops


def ob_generate(cx):
    """unified_diff_bytes (with the matcher replaced by the alignment of the edit script) -> iter_hunks -> patcher."""
    import difflib
    D = cx.mod(DF)
    P = cx.mod(PT)
    n = cx.choose("nlines", 0, cx.p("glines"))
    kinds = [cx.pick("kind%d" % i, KINDS) for i in range(n)]
    old, new = [], []
    for i, kd in enumerate(kinds):
        l = _line(cx, "l%d" % i)
        if kd != "insert":
            old.append(l)
        if kd != "remove":
            new.append(l)
    ops = _opcodes(kinds)

    class Matcher(difflib.SequenceMatcher):
        def __init__(self, isjunk, a, b):
            self.a, self.b = a, b

        def get_opcodes(self):
            return list(ops)
    context = cx.pick("context", cx.p("contexts"))
    lines = list(D.unified_diff_bytes(old, new, b"old", b"new", n=context, sequencematcher=Matcher))
    changed = any(kd != "context" for kd in kinds)
    if not changed:
        cx.require(lines == [], "a diff was produced for identical texts")
        cx.cover("identical")
        cx.observe("lines", lines)
        return
    cx.require(len(lines) >= 3 and lines[0].startswith(b"--- ") and lines[1].startswith(b"+++ "), "diff header missing")
    hunks = list(P.iter_hunks(iter(lines[2:])))
    got = list(P.iter_patched_from_hunks(list(old), hunks))
    cx.require(len(got) == len(new), "applying the generated diff gives %d lines, the new text has %d" % (len(got), len(new)))
    for a, b in zip(got, new):
        cx.require(a == b, "applying the generated diff does not give the new text")
    patch = P.Patch(b"old", b"new")
    patch.hunks = hunks
    ins = sum(1 for kd in kinds if kd == "insert")
    rem = sum(1 for kd in kinds if kd == "remove")
    st = patch.stats_values()
    cx.require(st[0] == ins and st[1] == rem, "statistics %r, changed lines (+%d, -%d)" % (st, ins, rem))
    # the parsed diff re-serialises to a diff that parses to the same hunks
    again_lines = []
    for h in hunks:
        again_lines.append(h.get_header())
        again_lines.extend(l.as_bytes() for l in h.lines)
    again = list(P.iter_hunks(iter(again_lines)))
    cx.require(len(again) == len(hunks), "re-serialised diff has a different number of hunks")
    for h1, h2 in zip(hunks, again):
        cx.require((h1.orig_pos, h1.orig_range, h1.mod_pos, h1.mod_range) == (h2.orig_pos, h2.orig_range, h2.mod_pos, h2.mod_range),
                   "hunk ranges changed by re-serialisation")
        cx.require(len(h1.lines) == len(h2.lines), "hunk length changed by re-serialisation")
        for l1, l2 in zip(h1.lines, h2.lines):
            cx.require(type(l1) is type(l2) and l1.contents == l2.contents, "hunk line changed by re-serialisation")
    cx.observe("got", got)
    cx.observe("nh", len(hunks))
    cx.cover("changed")
    if len(hunks) > 1:
        cx.cover("several_hunks")
    if context == 0 and any(h.orig_range == 0 for h in hunks):
        cx.cover("pure_insertion_ctx0")


def obligations(tier):
    q = tier == "quick"
    p = dict(lline=1, lead=1 if q else 2, hlen=4 if q else 5, nhunks=1 if q else 2, lcontent=3 if q else 5)
    to = 900 if q else 7200
    return [
        Ob("apply_and_stats", ob_apply, [PT], p, to, 2 if q else 1, ["ins+rem"] + ([] if q else ["two_hunks"]),
           bounds="<= %(nhunks)d hunk(s) of <= %(hlen)d lines (each context/insert/remove), <= %(lead)d unchanged lines "
                  "around, symbolic %(lline)d-byte line contents" % p),
        Ob("conflict", ob_conflict, [PT], p, to, 2 if q else 1, ["conflict", "terminator_only"],
           bounds="one hunk of <= %(hlen)d lines, one perturbed old line inside the hunk (different content, or the same "
                  "content without its final newline at the end of the text)" % p),
        Ob("hunk_roundtrip", ob_hunk_roundtrip, [PT], dict(hlen=3 if q else 4), to, 1,
           ["terminated", "one_side_unterminated", "both_unterminated"], setup=setup_hunks,
           bounds="one hunk of <= %d lines (context / insert / remove, symbolic 1-byte contents incl. backslash and space), the old "
                  "and / or the new text ending without a newline" % (3 if q else 4)),
        Ob("line_format", ob_lines, [PT], p, to, 1, KINDS,
           bounds="line contents <= %(lcontent)d arbitrary bytes; positions/ranges < 10^5" % p),
        Ob("generate_parse_apply", ob_generate, [PT, DF], dict(lline=1, glines=5 if q else 7, contexts=[0, 1, 3]), to,
           3 if q else 1, ["identical", "changed", "several_hunks", "pure_insertion_ctx0"],
           bounds="alignments of <= %d lines (each context/insert/remove) with symbolic 1-byte contents, context sizes "
                  "0/1/3; the sequence matcher is replaced by the alignment (patiencediff is compiled)" % (5 if q else 7)),
    ]
