"""C41 - testaments are deterministic and sensitive to every attested field (text generation)."""
from symx.containers import SymDict
from symx.runner import Ob
from .util import s_or

ID = "C41"
TM = "breezy.bzr.testament"
FUNCTIONS = [TM + ":Testament.__init__", TM + ":Testament.as_text_lines", TM + ":Testament._entry_to_line",
             TM + ":Testament._escape_path", TM + ":Testament._revprops_to_lines", TM + ":StrictTestament._entry_to_line",
             TM + ":StrictTestament3._escape_path"]
STUBS = ["contains_whitespace / contains_linebreaks (Rust, breezy.osutils) -> python models (whitespace = 09 0a 0b 0c 0d 20, "
         "linebreaks = 0a 0c 0d), compared with the compiled functions on every string of length <= 2 over a 14-character "
         "alphabet before each run",
         "revision = plain attribute record; tree = subclass of breezy.tree.Tree whose list_files yields one entry "
         "(plus the root for StrictTestament3)"]
ASSUMPTIONS = ["two revisions differ in exactly one attested field; all other fields are fixed representative values",
               "the parents of a revision are attested as a set (the format sorts them)",
               "text fields are ASCII / Latin-1 range (the engine's UTF-8 model covers code points < 0x80)"]
OUTSIDE = ["determinism across repository formats (needs real repositories)", "trees with more than one entry",
           "field values longer than the bounds", "the executable bit for testament version 1 (not part of that format)"]

K_MSG = "C41-message-line-terminators"
K_PROP = "C41-property-value-line-terminators"
K_PATH = "C41-backslash-in-path"
K_TZ = "C41-timezone-none-vs-zero"

WS = (9, 10, 11, 12, 13, 32)
LB = (10, 12, 13)


def _items(x):
    if isinstance(x, (bytes, bytearray)):
        return list(x)
    if isinstance(x, str):
        return [ord(c) for c in x]
    return [c if isinstance(c, int) else c for c in x.items]


def _contains(x, codes):
    from symx.values import SymSeq, mkbool, zor
    if isinstance(x, SymSeq):
        return mkbool(zor([zor([(it == c) for c in codes]) if not isinstance(it, int) else (it in codes) for it in x.items]))
    return any(c in codes for c in _items(x))


def m_contains_whitespace(x):
    return _contains(x, WS)


def m_contains_linebreaks(x):
    return _contains(x, LB)


def setup(ls):
    import itertools
    from breezy.bzr import testament as real
    alpha = "a \t\n\r\x0b\x0c\x1c\x1e\x85\xa0 　b"
    for n in range(0, 3):
        for t in itertools.product(alpha, repeat=n):
            s = "".join(t)
            if real.contains_whitespace(s) != m_contains_whitespace(s) or \
               real.contains_linebreaks(s) != m_contains_linebreaks(s):
                raise RuntimeError("leaf model of contains_whitespace/contains_linebreaks disagrees with the compiled "
                                   "function on %r" % (s,))
    T = ls.modules[TM]
    T.contains_whitespace = m_contains_whitespace
    T.contains_linebreaks = m_contains_linebreaks


class _Rev:
    pass


class _IE:
    pass


def _mk_tree_class():
    from breezy.tree import Tree

    class StubTree(Tree):
        def __init__(self, entry):
            self._entry = entry

        def list_files(self, include_root=False, from_dir=None, recursive=True, recurse_nested=False):
            if include_root:
                root = _IE()
                root.kind, root.file_id, root.revision, root.executable = "directory", b"root-id", b"r0", False
                root.text_sha1 = root.symlink_target = None
                yield ("", "V", "directory", root)
            path, ie = self._entry
            yield (path, "V", ie.kind, ie)
    return StubTree


_TREE = []


def _tree(entry):
    if not _TREE:
        _TREE.append(_mk_tree_class())
    return _TREE[0](entry)


FIELDS = ["message", "committer", "timestamp", "timezone", "parent", "prop_name", "prop_value", "path", "file_id",
          "sha1", "symlink_target", "entry_revision", "executable", "kind", "revision_id"]


def _value(cx, field, tag):
    """A symbolic value for the perturbed field (tag 'A' / 'B')."""
    n = tag + "." + field
    if field == "message":
        return cx.str(n, cx.choose(n + ".len", 0, cx.p("lmsg")), "a \n\r\\")
    if field == "committer":
        return cx.str(n, cx.choose(n + ".len", 0, 2), "a <\n")
    if field == "timestamp":
        return cx.int(n, 0, 999)
    if field == "timezone":
        return cx.pick(n + ".kind", [None, "int"]) and cx.int(n, -99, 99)
    if field == "parent":
        return cx.bytes(n, cx.choose(n + ".len", 1, 2), b"ab ")
    if field == "prop_name":
        return cx.str(n, cx.choose(n + ".len", 1, 2), "ab: ")
    if field == "prop_value":
        return cx.str(n, cx.choose(n + ".len", 0, cx.p("lmsg")), "a \n\r")
    if field in ("path", "symlink_target"):
        return cx.str(n, cx.choose(n + ".len", 1, cx.p("lpath")), "a/\\ \n\t\xa0")
    if field in ("file_id", "entry_revision", "revision_id"):
        return cx.bytes(n, cx.choose(n + ".len", 1, 2), b"ab -")
    if field == "sha1":
        return cx.bytes(n, 2, b"0123456789abcdef")
    if field == "executable":
        return bool(cx.choose(n, 0, 1))
    if field == "kind":
        return cx.pick(n, ["file", "symlink", "directory"])
    raise KeyError(field)


def _build(cx, T, cls, over):
    rev = _Rev()
    rev.revision_id = over.get("revision_id", b"rev-1")
    rev.committer = over.get("committer", "A <a@b>")
    rev.timezone = over["timezone"] if "timezone" in over else 3600
    rev.timestamp = over.get("timestamp", 12)
    rev.message = over.get("message", "m1\nm2")
    rev.parent_ids = [b"p1", over.get("parent", b"p2")]
    props = SymDict() if cx.sym else {}
    props[over.get("prop_name", "branch-nick")] = over.get("prop_value", "v")
    rev.properties = props
    ie = _IE()
    ie.kind = over.get("kind", "file" if "symlink_target" not in over else "symlink")
    ie.file_id = over.get("file_id", b"fid")
    ie.text_sha1 = over.get("sha1", b"da39") if ie.kind == "file" else None
    ie.symlink_target = over.get("symlink_target", "tgt") if ie.kind == "symlink" else None
    ie.revision = over.get("entry_revision", b"rev-0")
    ie.executable = over.get("executable", False)
    return cls(rev, _tree((over.get("path", "dir/f"), ie)))


def _text(cx, T, cls, over):
    try:
        t = _build(cx, T, cls, over)
        lines = t.as_text_lines()
    except ValueError:
        return None
    r = b""
    for l in lines:
        r = r + l
    return r


def _lines_equal(cx, a, b):
    la, lb = a.splitlines(), b.splitlines()
    if len(la) != len(lb):
        return False
    return all(cx.truth(x == y) for x, y in zip(la, lb))


def ob_sensitivity(cx):
    T = cx.mod(TM)
    cls = getattr(T, cx.pick("class", ["Testament", "StrictTestament", "StrictTestament3"]))
    field = cx.pick("field", cx.p("fields"))
    if field in ("executable", "entry_revision") and cls.__name__ == "Testament":
        cx.assume(False)      # not part of testament version 1
    a = _value(cx, field, "A")
    b = _value(cx, field, "B")
    if a is None or b is None:
        cx.assume(not (a is None and b is None))
    else:
        cx.assume(a != b)
    # known format-level collision classes (solver-level predicates over the two values)
    if field == "message":
        cx.known(K_MSG, _lines_equal(cx, a, b))
    if field == "prop_value":
        cx.known(K_PROP, _lines_equal(cx, a, b))
    if field in ("path", "symlink_target"):
        cx.known(K_PATH, cx.truth(a.replace("\\", "/") == b.replace("\\", "/")))
    if field == "timezone":
        cx.known(K_TZ, (a is None and cx.truth(b == 0)) or (b is None and cx.truth(a == 0)))
    ta = _text(cx, T, cls, {field: a})
    tb = _text(cx, T, cls, {field: b})
    if ta is None or tb is None:
        cx.cover("rejected")
    else:
        cx.require(ta != tb, "two revisions that differ in %s have the same testament text" % field)
        again = _text(cx, T, cls, {field: a})
        cx.require(again == ta, "testament text is not a function of the attested data")
        cx.cover("distinct")
    cx.observe("ta", ta)
    cx.observe("tb", tb)
    cx.cover(field)


def obligations(tier):
    q = tier == "quick"
    to = 900 if q else 7200
    p = dict(lmsg=2 if q else 3, lpath=2 if q else 3, fields=FIELDS)
    return [Ob("single_field_sensitivity", ob_sensitivity, [TM], p, to, 3 if q else 1,
               ["rejected", "distinct"] + FIELDS, setup=setup, known=[K_MSG, K_PROP, K_PATH, K_TZ],
               bounds="three testament classes x %d fields; message / property value <= %d chars, paths <= %d chars; other "
                      "fields as in the harness" % (len(FIELDS), p["lmsg"], p["lpath"]))]
