"""C42 - exports contain exactly the exported tree (entry selection kernel)."""
from symx.runner import Ob
from .util import startswith

ID = "C42"
EX = "breezy.export"
FUNCTIONS = [EX + ":_export_iter_entries", EX + ":dir_exporter_generator"]
STUBS = ["tree = stub: iter_entries_by_dir yields (path, entry) for the root and a few entries with SYMBOLIC paths; "
         "is_special_path answers by NAME for whatever path it is asked about (paths starting with the letter 's' stand for "
         "paths starting with the control-directory prefix), has_filename is a symbolic predicate per entry"]
ASSUMPTIONS = ["tree paths are '/'-separated, non-empty, without leading/trailing '/' and without empty components",
               "reference: with a sub-directory S, an entry is exported iff it lies strictly inside S (path = S + '/' + rest, "
               "exported as rest) or it is the file S itself (exported under its own name); without S every entry is "
               "exported under its tree path; special (.bzr*) and filtered-out entries are never exported"]
OUTSIDE = ["the tar / zip writers (tarfile / zipfile, zlib), the real file system below the directory exporter (os calls are "
           "recorded) and the real revision trees", "more entries than the bound"]

ALPHA = "as/"          # 'a' an ordinary letter, 's' the stand-in for the control-directory prefix, '/' the separator


def _valid_path(cx, p):
    """no empty components, no leading/trailing slash"""
    n = len(p)
    if n == 0:
        return False
    if cx.truth(p[0] == "/") or cx.truth(p[n - 1] == "/"):
        return False
    for i in range(n - 1):
        if cx.truth(p[i] == "/") and cx.truth(p[i + 1] == "/"):
            return False
    return True


class _Entry:
    def __init__(self, kind, name):
        self.kind = kind
        self.name = name


class _Tree:
    def __init__(self, items, special, present):
        self.items = items
        self.special = special
        self.present = present

    def iter_entries_by_dir(self, recurse_nested=False):
        yield "", _Entry("directory", "")
        for p, e in self.items:
            yield p, e

    def _idx(self, path):
        for i, (p, _e) in enumerate(self.items):
            if p is path:
                return i
        raise AssertionError("tree asked about a path that is not one of its entries")

    def is_special_path(self, path):
        # like the real trees, decided by the NAME that is asked about (control-directory prefix), whatever path it is
        return self.special(path)

    def has_filename(self, path):
        return self.present[self._idx(path)]


def ob_entries(cx):
    E = cx.mod(EX)
    n = cx.choose("nentries", 0, cx.p("nentries"))
    items = []
    for i in range(n):
        p = cx.str("path%d" % i, cx.choose("len%d" % i, 1, cx.p("lpath")), ALPHA)
        if not _valid_path(cx, p):
            cx.assume(False)
        for o, _e in items:
            cx.assume(o != p)              # a tree has one entry per path
        kind = cx.pick("kind%d" % i, ["file", "directory"])
        base = p.rsplit("/", 1)[-1]
        items.append((p, _Entry(kind, base)))
    def is_special(path):
        """stand-in for 'the path starts with the control directory prefix' (.bzr / .git): here the letter 's'"""
        return len(path) > 0 and cx.truth(path[0] == "s")
    special = [is_special(p) for p, _e in items]
    present = [bool(cx.choose("present%d" % i, 0, 1)) for i in range(n)]
    sub_kind = cx.pick("subdir_kind", ["none", "empty", "path", "path/"])
    subdir = None
    sub = None
    if sub_kind == "empty":
        subdir = ""
    elif sub_kind != "none":
        sub = cx.str("subdir", cx.choose("lsub", 1, cx.p("lpath")), ALPHA)
        if not _valid_path(cx, sub):
            cx.assume(False)
        subdir = sub + "/" if sub_kind == "path/" else sub
    skip_special = bool(cx.choose("skip_special", 0, 1))
    got = list(E._export_iter_entries(_Tree(items, is_special, present), subdir, skip_special=skip_special))
    want = []
    for i, (p, e) in enumerate(items):
        if skip_special and special[i]:
            continue
        if not present[i]:
            continue
        if sub is None:
            want.append((p, i))
        elif cx.truth(p == sub):
            if e.kind != "directory":
                want.append((e.name, i))
        elif len(p) > len(sub) + 1 and cx.truth(startswith(p, sub + "/")):
            want.append((p[len(sub) + 1:], i))
    cx.require(len(got) == len(want), "export lists %d entries, the exported (sub-)tree has %d" % (len(got), len(want)))
    for (fp, tp, ent), (wfp, i) in zip(got, want):
        cx.require(tp is items[i][0] and ent is items[i][1], "a different entry than expected is exported")
        cx.require(fp == wfp, "entry exported under the wrong path")
    cx.observe("got", [fp for fp, _tp, _e in got])
    if sub is not None and want:
        cx.cover("subtree")
    if sub is not None and len(want) < n:
        cx.cover("outside_subdir")
    if sub is None and want:
        cx.cover("whole")


def ob_dir_export(cx):
    """dir_exporter_generator: the selected entries (stand-in for _export_iter_entries, decided above) are written below the
    destination - directories made, symlinks made with their target, every file created with ITS OWN executable bit
    (0o777 / 0o666 before umask), its content and its time stamp; the tree may deliver the file contents in any order."""
    M = cx.mod(EX)
    T = cx.truth
    nfiles = cx.choose("nfiles", 1, cx.p("nfiles"))
    files = [dict(i=i, dp="d/f%d" % i, tp="sub/d/f%d" % i, exe=cx.bool("exec%d" % i), mtime=cx.int("mtime%d" % i, 0, 10 ** 6),
                  chunks=[b"content-%d" % i]) for i in range(nfiles)]
    entries = [("d", "sub/d", _Entry("directory", "d"))] + [(f["dp"], f["tp"], _Entry("file", "f")) for f in files]
    entries.append(("d/link", "sub/d/link", _Entry("symlink", "link")))
    M._export_iter_entries = lambda tree, subdir, recurse_nested=False: iter(entries)
    forced = cx.int("force_mtime", 0, 10 ** 6) if cx.choose("has_force_mtime", 0, 1) else None
    order = list(range(nfiles))
    if nfiles >= 2 and cx.choose("reverse_delivery", 0, 1):
        order.reverse()
    log = []

    class Out:
        def __init__(self, path):
            self.path = path

        def __enter__(self):
            return self

        def __exit__(self, *a):
            return False

        def writelines(self, chunks):
            log.append(("write", self.path, list(chunks)))
    real_os = cx.real("os")

    class OS:
        O_CREAT, O_TRUNC, O_WRONLY = real_os.O_CREAT, real_os.O_TRUNC, real_os.O_WRONLY

        @staticmethod
        def mkdir(p):
            log.append(("mkdir", p))

        @staticmethod
        def listdir(p):
            return []

        @staticmethod
        def symlink(target, p):
            log.append(("symlink", p, target))

        @staticmethod
        def open(p, flags, mode=0o777):
            log.append(("open", p, flags, mode))
            return p

        @staticmethod
        def fdopen(fd, how):
            return Out(fd)

        @staticmethod
        def utime(p, times):
            log.append(("utime", p, times))
    M.os = OS

    class Tree:
        @staticmethod
        def get_symlink_target(tp):
            return "target-of-" + tp

        @staticmethod
        def iter_files_bytes(wanted):
            wanted = list(wanted)
            for k in order:
                tp, ident = wanted[k]
                yield ident, files[k]["chunks"]

        @staticmethod
        def is_executable(tp):
            f = [f for f in files if f["tp"] == tp][0]
            return T(f["exe"])

        @staticmethod
        def get_file_mtime(tp):
            return [f for f in files if f["tp"] == tp][0]["mtime"]
    for _ in M.dir_exporter_generator(Tree, "/dest", "root", subdir="sub", force_mtime=forced):
        pass
    cx.require(log[0] == ("mkdir", "/dest") and ("mkdir", "/dest/d") in log, "destination / directory not created")
    cx.require(("symlink", "/dest/d/link", "target-of-sub/d/link") in log, "symlink not created with its target")
    for f in files:
        full = "/dest/" + f["dp"]
        opens = [e for e in log if e[0] == "open" and e[1] == full]
        cx.require(len(opens) == 1, "file %s opened %d times" % (full, len(opens)))
        want_mode = 0o777 if T(f["exe"]) else 0o666
        cx.require(opens[0][3] == want_mode, "file %d is %sexecutable in the tree and is created with mode %o" %
                   (f["i"], "" if T(f["exe"]) else "not ", opens[0][3]))
        cx.require(opens[0][2] & (OS.O_CREAT | OS.O_TRUNC | OS.O_WRONLY) == (OS.O_CREAT | OS.O_TRUNC | OS.O_WRONLY), "wrong open flags")
        cx.require(("write", full, f["chunks"]) in log, "file %d does not get its own content" % f["i"])
        ut = [e for e in log if e[0] == "utime" and e[1] == full]
        want_t = forced if forced is not None else f["mtime"]
        cx.require(len(ut) == 1 and T(ut[0][2][0] == want_t) and T(ut[0][2][1] == want_t), "file %d gets another time stamp" % f["i"])
        cx.require(log.index(("mkdir", "/dest/d")) < log.index(opens[0]), "file written before its directory exists")
    if nfiles >= 2 and T(files[0]["exe"]) != T(files[1]["exe"]):
        cx.cover("mixed_executable_bits")
    if forced is not None:
        cx.cover("forced_mtime")
    cx.cover("exported")
    cx.observe("nops", len(log))


def obligations(tier):
    q = tier == "quick"
    p = dict(nentries=2, lpath=3 if q else 4)
    return [Ob("dir_export", ob_dir_export, [EX], dict(nfiles=2 if q else 3), 900 if q else 3600, 1,
               ["exported", "mixed_executable_bits", "forced_mtime"],
               bounds="a directory, a symlink and <= %d files with symbolic executable bits and time stamps, contents delivered "
                      "in tree order or reversed, with / without a forced time stamp" % (2 if q else 3)),
            Ob("export_entries", ob_entries, [EX], p, 900 if q else 7200, 3 if q else 1, ["subtree", "outside_subdir", "whole"],
               bounds="<= %(nentries)d entries with symbolic paths of <= %(lpath)d chars over 'ab/', symbolic sub-directory of "
                      "<= %(lpath)d chars (with / without trailing slash, empty, none), special / filtered flags" % p)]
