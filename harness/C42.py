"""C42 - exports contain exactly the exported tree (entry selection kernel)."""
from symx.runner import Ob
from .util import startswith

ID = "C42"
EX = "breezy.export"
FUNCTIONS = [EX + ":_export_iter_entries"]
STUBS = ["tree = stub: iter_entries_by_dir yields (path, entry) for the root and a few entries with SYMBOLIC paths; "
         "is_special_path answers by NAME for whatever path it is asked about (paths starting with the letter 's' stand for "
         "paths starting with the control-directory prefix), has_filename is a symbolic predicate per entry"]
ASSUMPTIONS = ["tree paths are '/'-separated, non-empty, without leading/trailing '/' and without empty components",
               "reference: with a sub-directory S, an entry is exported iff it lies strictly inside S (path = S + '/' + rest, "
               "exported as rest) or it is the file S itself (exported under its own name); without S every entry is "
               "exported under its tree path; special (.bzr*) and filtered-out entries are never exported"]
OUTSIDE = ["the archive writers (tar / zip / directory: I/O, zlib) and the real revision trees", "more entries than the bound"]

ALPHA = "as/"          # 'a' an ordinary letter, 's' the stand-in for the control-directory prefix, '/' the separator


def _valid_path(cx, p):
    """no empty components, no leading/trailing slash"""
    n = len(p)
    if n == 0:
        return False
    if cx.truth(p[0] == "/") or cx.truth(p[n - 1] == "/"):
        return False
    for i in range(n - 1):
        if cx.truth(p[i] == "/") and cx.truth(p[i + 1] == "/"):
            return False
    return True


class _Entry:
    def __init__(self, kind, name):
        self.kind = kind
        self.name = name


class _Tree:
    def __init__(self, items, special, present):
        self.items = items
        self.special = special
        self.present = present

    def iter_entries_by_dir(self, recurse_nested=False):
        yield "", _Entry("directory", "")
        for p, e in self.items:
            yield p, e

    def _idx(self, path):
        for i, (p, _e) in enumerate(self.items):
            if p is path:
                return i
        raise AssertionError("tree asked about a path that is not one of its entries")

    def is_special_path(self, path):
        # like the real trees, decided by the NAME that is asked about (control-directory prefix), whatever path it is
        return self.special(path)

    def has_filename(self, path):
        return self.present[self._idx(path)]


def ob_entries(cx):
    E = cx.mod(EX)
    n = cx.choose("nentries", 0, cx.p("nentries"))
    items = []
    for i in range(n):
        p = cx.str("path%d" % i, cx.choose("len%d" % i, 1, cx.p("lpath")), ALPHA)
        if not _valid_path(cx, p):
            cx.assume(False)
        for o, _e in items:
            cx.assume(o != p)              # a tree has one entry per path
        kind = cx.pick("kind%d" % i, ["file", "directory"])
        base = p.rsplit("/", 1)[-1]
        items.append((p, _Entry(kind, base)))
    def is_special(path):
        """stand-in for 'the path starts with the control directory prefix' (.bzr / .git): here the letter 's'"""
        return len(path) > 0 and cx.truth(path[0] == "s")
    special = [is_special(p) for p, _e in items]
    present = [bool(cx.choose("present%d" % i, 0, 1)) for i in range(n)]
    sub_kind = cx.pick("subdir_kind", ["none", "empty", "path", "path/"])
    subdir = None
    sub = None
    if sub_kind == "empty":
        subdir = ""
    elif sub_kind != "none":
        sub = cx.str("subdir", cx.choose("lsub", 1, cx.p("lpath")), ALPHA)
        if not _valid_path(cx, sub):
            cx.assume(False)
        subdir = sub + "/" if sub_kind == "path/" else sub
    skip_special = bool(cx.choose("skip_special", 0, 1))
    got = list(E._export_iter_entries(_Tree(items, is_special, present), subdir, skip_special=skip_special))
    want = []
    for i, (p, e) in enumerate(items):
        if skip_special and special[i]:
            continue
        if not present[i]:
            continue
        if sub is None:
            want.append((p, i))
        elif cx.truth(p == sub):
            if e.kind != "directory":
                want.append((e.name, i))
        elif len(p) > len(sub) + 1 and cx.truth(startswith(p, sub + "/")):
            want.append((p[len(sub) + 1:], i))
    cx.require(len(got) == len(want), "export lists %d entries, the exported (sub-)tree has %d" % (len(got), len(want)))
    for (fp, tp, ent), (wfp, i) in zip(got, want):
        cx.require(tp is items[i][0] and ent is items[i][1], "a different entry than expected is exported")
        cx.require(fp == wfp, "entry exported under the wrong path")
    cx.observe("got", [fp for fp, _tp, _e in got])
    if sub is not None and want:
        cx.cover("subtree")
    if sub is not None and len(want) < n:
        cx.cover("outside_subdir")
    if sub is None and want:
        cx.cover("whole")


def obligations(tier):
    q = tier == "quick"
    p = dict(nentries=2, lpath=3 if q else 4)
    return [Ob("export_entries", ob_entries, [EX], p, 900 if q else 7200, 3 if q else 1, ["subtree", "outside_subdir", "whole"],
               bounds="<= %(nentries)d entries with symbolic paths of <= %(lpath)d chars over 'ab/', symbolic sub-directory of "
                      "<= %(lpath)d chars (with / without trailing slash, empty, none), special / filtered flags" % p)]
