"""C43 - incremental uploads keep the remote directory equal to the uploaded tree (files in one directory)."""
import contextlib
from symx.runner import Ob

ID = "C43"
UP = "breezy.plugins.upload.cmds"
U = UP + ":BzrUploader."
FUNCTIONS = [U + "upload_tree", U + "rename_remote", U + "finish_renames", U + "finish_deletions", U + "upload_file",
             U + "delete_remote_file", U + "get_uploaded_revid", U + "set_uploaded_revid"]
STUBS = ["the remote transport is a flat map name -> content token (rename refuses an occupied target, delete / rename of a "
         "missing file fail); the two trees are records; tree.changes_from is computed by the harness from the two trees "
         "(removed / renamed / modified / added, as the real delta classifies files); urlutils.escape (Rust) is the "
         "identity on the name alphabet; BzrUploader.is_ignored (Globster over .bzrignore-upload, see C48) is replaced by a "
         "symbolic fact per top-level name, inherited by the paths below it"]
ASSUMPTIONS = ["before the upload the remote directory equals the previously uploaded tree (the property's induction "
               "hypothesis: one upload step from an arbitrary consistent state), ignored paths are absent there; after the upload "
               "the comparison leaves ignored paths out, as the property does",
               "file names are SYMBOLIC: which old name equals which new name (swaps, chains, reuse of a removed name by a "
               "renamed or added file) is decided by the solver"]
OUTSIDE = ["directories with more than one file or nested directories, added directories, symlinks, kind changes, executable "
           "bits, full uploads", "entries renamed FROM an upload-ignored name are the input class of known finding "
           "C43-renamed-from-ignored-name (excluded from the main run, re-witnessed on every run)", "ignore patterns that match a file inside a directory but not the directory", "the temporary "
           "names of the two-stage rename colliding with real files (assumed unique, as the code says)",
           "more files than the bound"]


K_FROM_IGNORED = "C43-renamed-from-ignored-name"


def ob_upload(cx):
    M = cx.mod(UP)
    T = cx.truth
    E = cx.real("dromedary.errors")
    n = cx.choose("nfiles", 1, cx.p("nfiles"))
    alpha = "abcd"
    files = []
    for i in range(n):
        shape = cx.pick("shape%d" % i, ["unchanged", "modified", "removed", "added", "renamed", "renamed+modified", "removed_dir",
                                        "renamed_dir", "renamed_dir+inner_modified"])
        old = None if shape == "added" else cx.str("old%d" % i, 1, alpha)
        if shape in ("removed", "removed_dir"):
            new = None
        elif shape in ("unchanged", "modified"):
            new = old
        else:
            new = cx.str("new%d" % i, 1, alpha)
            if old is not None:
                cx.assume(new != old)
        for f in files:
            if old is not None and f["old"] is not None:
                cx.assume(f["old"] != old)             # one file per name in the old tree
            if new is not None and f["new"] is not None:
                cx.assume(f["new"] != new)             # ... and in the new tree
        files.append(dict(i=i, shape=shape, old=old, new=new, isdir=shape.startswith("renamed_dir"),
                          changed=shape in ("modified", "renamed+modified", "added", "renamed_dir+inner_modified")))

    # upload-ignore rules (.bzrignore-upload): whether a top-level name is ignored is a symbolic fact per letter, decided when
    # first asked; a path inside a directory is ignored with its directory (is_ignored checks every parent)
    ign = {}

    def ignored(path):
        for letter in alpha:
            if T(path[:1] == letter):
                if letter not in ign:
                    ign[letter] = bool(cx.choose("ignored_" + letter, 0, 1)) if cx.p("ignores", 1) else False
                return ign[letter]
        raise AssertionError("unexpected path %r" % (path,))
    for f in files:
        if f["shape"].startswith("renamed"):
            # known finding: an entry renamed FROM an ignored name was never uploaded, rename_remote fails with NoSuchFile
            cx.known(K_FROM_IGNORED, ignored(f["old"]))

    def old_text(f):
        return b"old-%d" % f["i"]

    def new_text(f):
        return (b"new-%d" % f["i"]) if f["changed"] else old_text(f)
    # association list name -> content; a removed directory D is an entry D (content DIR) with one file D/x inside
    DIR = b"<directory>"
    remote = []
    for f in files:
        if f["old"] is None or ignored(f["old"]):
            continue                               # an ignored path was never uploaded
        if f["shape"] == "removed_dir":
            remote.append([f["old"], DIR])
            remote.append([f["old"] + "/x", b"inside-%d" % f["i"]])
        elif f["isdir"]:
            # a renamed directory D with one file D/x inside (which keeps its name and may have new content)
            remote.append([f["old"], DIR])
            remote.append([f["old"] + "/x", old_text(f)])
        else:
            remote.append([f["old"], old_text(f)])
    revid_file = ["rev-old"]
    log = []

    def children(name):
        return [ent for ent in remote if len(ent[0]) == len(name) + 2 and T(ent[0][:len(name)] == name) and T(ent[0][len(name):] == "/x")]

    def find(name):
        for ent in remote:
            if T(ent[0] == name):
                return ent
        return None

    class Transport:
        @staticmethod
        def ensure_base():
            pass

        @staticmethod
        def rename(a, b):
            ent = find(a)
            if ent is None:
                raise E.NoSuchFile("<remote file>")
            if find(b) is not None:
                raise E.FileExists("<rename target>")
            for kid in children(a):
                kid[0] = b + "/x"                  # the content of a directory moves with it
            ent[0] = b
            log.append("rename")

        @staticmethod
        def delete(a):
            ent = find(a)
            if ent is None:
                raise E.NoSuchFile("<remote file>")
            remote.remove(ent)
            log.append("delete")

        @staticmethod
        def rmdir(a):
            ent = find(a)
            if ent is None:
                raise E.NoSuchFile("<remote directory>")
            if children(a):
                raise E.DirectoryNotEmpty("<remote directory>")
            remote.remove(ent)
            log.append("rmdir")

        @staticmethod
        def put_bytes(a, data, mode=None):
            if a == ".bzr-upload.revid":
                revid_file[0] = data
                return
            ent = find(a)
            if ent is None:
                if len(a) > 2 and T(a[len(a) - 2:] == "/x"):
                    par = find(a[:len(a) - 2])
                    if par is None or par[1] is not DIR:
                        raise E.NoSuchFile("<remote directory of the file>")
                remote.append([a, data])
            elif ent[1] is DIR:
                raise E.ReadError("<remote path is a directory>")
            else:
                ent[1] = data
            log.append("put")

        @staticmethod
        def get_bytes(a):
            if a == ".bzr-upload.revid":
                return revid_file[0]
            ent = find(a)
            if ent is None:
                raise E.NoSuchFile("<remote file>")
            return ent[1]

    class Change:
        def __init__(self, f, path=None, kind=None):
            self.path = (f["old"], f["new"]) if path is None else path
            self.kind = ("file" if f["old"] is not None else None, "file" if f["new"] is not None else None) if kind is None else kind
            self.changed_content = f["changed"]
    removed_changes = []
    for f in files:
        if f["shape"] == "removed":
            removed_changes.append(Change(f))
        elif f["shape"] == "removed_dir":
            # the tree delta lists a removed directory before the files that were inside it
            removed_changes.append(Change(f, kind=("directory", None)))
            removed_changes.append(Change(f, path=(f["old"] + "/x", None), kind=("file", None)))

    def renamed_change(f):
        if f["isdir"]:
            c = Change(f, kind=("directory", "directory"))
            c.changed_content = False
            return c
        return Change(f)

    class Delta:
        removed = removed_changes
        renamed = [renamed_change(f) for f in files if f["shape"] in ("renamed", "renamed+modified") or f["isdir"]]
        # a file that keeps its name inside a renamed directory is 'modified' (not 'renamed') with two different paths
        modified = [Change(f) for f in files if f["shape"] == "modified"] + [
            Change(f, path=(f["old"] + "/x", f["new"] + "/x"), kind=("file", "file")) for f in files
            if f["shape"] == "renamed_dir+inner_modified"]
        added = [Change(f) for f in files if f["shape"] == "added"]
        kind_changed = []
        copied = []

    class Tree:
        @staticmethod
        def changes_from(other):
            return Delta

        @staticmethod
        def lock_read():
            return contextlib.nullcontext()

        @staticmethod
        def is_executable(path):
            return False

        @staticmethod
        def get_file_text(path):
            for f in files:
                if f["isdir"]:
                    if len(path) == 3 and T(f["new"] + "/x" == path):
                        return new_text(f)
                elif f["new"] is not None and T(f["new"] == path):
                    return new_text(f)
            raise AssertionError("the uploader reads %r, which is not a file of the tree being uploaded" % (path,))

    class Branch:
        class repository:
            revision_tree = staticmethod(lambda rev_id: "old-tree")

        @staticmethod
        def get_config_stack():
            return {"upload_revid_location": ".bzr-upload.revid"}

    class UU:
        escape = staticmethod(lambda p: p)

        def __getattr__(self, name):
            return getattr(cx.real("breezy.urlutils"), name)
    M.urlutils = UU()
    up = M.BzrUploader(Branch, Transport, None, Tree, "rev-new", quiet=True)
    up.is_ignored = ignored
    up.upload_tree()
    want = []
    for f in files:
        if f["isdir"]:
            want += [(f["new"], DIR), (f["new"] + "/x", new_text(f))]
        elif f["new"] is not None:
            want.append((f["new"], new_text(f)))
    want = [w for w in want if not ignored(w[0])]
    visible = [ent for ent in remote if not ignored(ent[0])]
    cx.require(len(visible) == len(want), "after the upload the remote directory has %d entries outside the ignored paths, the "
               "uploaded tree has %d" % (len(visible), len(want)))
    for name, text in want:
        ent = find(name)
        cx.require(ent is not None, "a file of the uploaded tree is missing on the remote side")
        cx.require(ent[1] == text, "remote content of a file is %r, the uploaded tree has %r" % (ent[1], text))
    cx.require(revid_file[0] == "rev-new", "the uploaded revision id was not recorded")
    renamed = [f for f in files if f["shape"].startswith("renamed")]
    if len(renamed) >= 2 and any(T(a["new"] == b["old"]) for a in renamed for b in renamed if a is not b):
        cx.cover("rename_chain_or_swap")
    if any(f["shape"] == "removed" for f in files) and any(
            g["new"] is not None and f["old"] is not None and T(g["new"] == f["old"]) for f in files if f["shape"] == "removed"
            for g in files if g is not f):
        cx.cover("name_reused")
    if any(f["shape"].startswith("renamed") and ignored(f["new"]) for f in files):
        cx.cover("renamed_to_ignored_name")
    if any(f["shape"] == "renamed+modified" for f in files):
        cx.cover("renamed_and_modified")
    if any(f["shape"] == "removed_dir" and any(g["new"] is not None and T(g["new"] == f["old"]) for g in files if g is not f)
           for f in files):
        cx.cover("directory_replaced_by_file")
    if any(f["shape"] == "renamed_dir+inner_modified" for f in files):
        cx.cover("modified_inside_renamed_directory")
    cx.observe("ops", list(log))


def obligations(tier):
    q = tier == "quick"
    p = dict(nfiles=2 if q else 3)
    return [Ob("incremental_upload", ob_upload, [UP], p, 900 if q else 7200, 2 if q else 1,
               ["rename_chain_or_swap", "name_reused", "renamed_and_modified", "directory_replaced_by_file",
                "modified_inside_renamed_directory", "renamed_to_ignored_name"], known=[K_FROM_IGNORED],
               bounds="<= %(nfiles)d entries (file unchanged / modified / removed / added / renamed / renamed and modified; directory with one "
                      "file removed / renamed / renamed with the file inside modified) with symbolic "
                      "one-letter names over 4 letters: every pattern of coinciding old and new names; each name upload-ignored or not "
                      "(symbolic); a renamed entry whose old name is ignored is the class of a known finding" % p)]
