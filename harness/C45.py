"""C45 - end-of-line filters round-trip canonical content."""
from symx.runner import Ob
from .util import cat, s_and, s_not, s_or

ID = "C45"
FI = "breezy.filters"
EO = "breezy.filters.eol"
FUNCTIONS = [EO + ":_to_lf_converter", EO + ":_to_crlf_converter", EO + ":eol_lookup",
             FI + ":filtered_output_bytes", FI + ":filtered_input_file"]
STUBS = ["_UNIX_NL_RE (the compiled look-behind pattern the module built) is interpreted by the generic regex walker",
         "working-tree file = in-memory file object whose read(n) may return fewer bytes than asked for (at least one while data "
         "remains; how many is a symbolic choice - what the io contract allows)"]
ASSUMPTIONS = ["canonical form: LF-in-repo settings: no CRLF in the text; CRLF-in-repo settings: every LF is preceded by "
               "CR and there is no CR CR LF; 'exact': anything; content containing NUL is binary"]
OUTSIDE = ["content longer than the bound", "the dirstate / working tree sentence of the property (no changes after "
           "checkout)", "win32 native mapping"]

KEYS = ["exact", "native", "lf", "crlf", "native-with-crlf-in-repo", "lf-with-crlf-in-repo", "crlf-with-crlf-in-repo"]


def canonical(c, key):
    if key == "exact":
        return True
    n = len(c)
    if "crlf-in-repo" in key:
        conds = []
        for i in range(n):
            prev_cr = (c[i - 1] == 13) if i else False
            conds.append(s_or([c[i] != 10, prev_cr]))
            if i >= 2:
                conds.append(s_not(s_and([c[i - 2] == 13, c[i - 1] == 13, c[i] == 10])))
        return s_and(conds)
    return s_and([s_not(s_and([c[i] == 13, c[i + 1] == 10])) for i in range(n - 1)])


class _File:
    """a readable binary file: read() returns the rest; read(n) returns UP TO n bytes - at least one while data remains, how
    many is a symbolic choice (what the io contract allows), so code that converts block by block meets every block boundary"""
    def __init__(self, data, cx=None):
        self.data, self.pos, self.cx, self.calls = data, 0, cx, 0

    def read(self, size=-1):
        rest = len(self.data) - self.pos
        if size is None or size < 0 or rest == 0:
            k = rest
        else:
            self.calls += 1
            k = self.cx.choose("read%d.returns" % self.calls, 1, min(size, rest))
        out = self.data[self.pos:self.pos + k]
        self.pos += k
        return out

    def close(self):
        pass


def ob_filters(cx):
    E = cx.mod(EO)
    F = cx.mod(FI)
    key = cx.pick("key", KEYS)
    n = cx.choose("n", 0, cx.p("n"))
    c = cx.bytes("content", n, cx.p("alpha"))
    k = cx.choose("split", 0, n)
    stack = E.eol_lookup(key)
    chunks = [c[:k], c[k:]]
    has_nul = cx.truth(s_or([c[i] == 0 for i in range(n)]))
    out = cat(F.filtered_output_bytes(list(chunks), stack), b"")
    f, size = F.filtered_input_file(_File(out, cx), stack)
    back = f.read()
    cx.require(size == len(back), "filtered_input_file size does not match its content")
    whole = cat(F.filtered_output_bytes([c], stack), b"")
    cx.require(whole == out, "writer output depends on how the content is chunked")
    if has_nul:
        cx.require(out == c, "binary content (NUL) was converted on output")
        cx.require(back == c, "binary content (NUL) was converted on input")
        cx.cover("binary")
    elif cx.truth(canonical(c, key)):
        cx.require(back == c, "canonical text not read back unchanged")
        if key == "exact":
            cx.require(out == c, "'exact' changed the content")
        elif key.startswith("crlf"):
            bare = s_or([s_and([out[i] == 10, (out[i - 1] != 13) if i else True]) for i in range(len(out))])
            cx.require(s_not(bare), "crlf writer left a bare LF")
        else:
            crlf = s_or([s_and([out[i] == 13, out[i + 1] == 10]) for i in range(len(out) - 1)])
            cx.require(s_not(crlf), "lf writer left a CRLF")
        cx.cover("canonical")
    else:
        cx.cover("noncanonical")
    cx.observe("out", out)
    cx.observe("back", back)


def obligations(tier):
    q = tier == "quick"
    p = dict(n=6 if q else 9, alpha=None)
    return [Ob("filter_stack", ob_filters, [FI, EO], p, 900 if q else 7200, 2 if q else 1,
               ["binary", "canonical", "noncanonical"],
               bounds="content <= %(n)d arbitrary bytes (0..255), every chunk split, all 7 eol settings" % p)]
