"""C46 - clean-tree deletes only what was asked for (selection and deletion kernel)."""
from symx.runner import Ob

ID = "C46"
CT = "breezy.clean_tree"
FUNCTIONS = [CT + ":is_detritus", CT + ":iter_deletables", CT + ":_filter_out_nested_controldirs", CT + ":delete_items",
             CT + ":clean_tree"]
STUBS = ["working tree = stub: extras() yields the unversioned paths (symbolic names), is_ignored(path) is a symbolic "
         "predicate per path, abspath prefixes the tree root; WorkingTree.open_containing returns the stub",
         "file system: isdir / os.unlink / shutil.rmtree / ControlDir.open and the ui are recording stubs (which of the "
         "paths are directories / nested control directories is a symbolic choice)"]
ASSUMPTIONS = ["WorkingTree.extras() yields exactly the unversioned paths (that enumeration walks a real file system and is "
               "outside)", "detritus = names ending in .THIS .BASE .OTHER ~ .tmp (the documented conflict/backup leftovers)"]
OUTSIDE = ["WorkingTree.extras (bzr and git) and the real file system", "more unversioned paths than the bound"]

SUFFIXES = [".THIS", ".BASE", ".OTHER", "~", ".tmp"]


def _ref_detritus(cx, name):
    for suf in SUFFIXES:
        if len(name) >= len(suf) and cx.truth(name[len(name) - len(suf):] == suf):
            return True
    return False


class _Tree:
    def __init__(self, names, ignored):
        self.names = names
        self.ignored = ignored

    def extras(self):
        return iter(self.names)

    def is_ignored(self, p):
        for n, ig in zip(self.names, self.ignored):
            if n is p:
                return "pattern" if ig else None
        raise AssertionError("is_ignored asked about a path that is not an extra")

    def abspath(self, p):
        return "/tree/" + p

    def lock_read(self):
        import contextlib
        return contextlib.nullcontext()


def ob_clean(cx):
    C = cx.mod(CT)
    n = cx.choose("npaths", 0, cx.p("npaths"))
    tails = ["", "~", "S", "p"]
    names = []
    for i in range(n):
        # a symbolic stem plus a symbolic tail long enough to be (or narrowly miss) one of the detritus suffixes
        shape = cx.pick("shape%d" % i, ["short", "dot4", "dot5", "dot6"])
        ln = {"short": cx.choose("len%d" % i, 1, 2) if shape == "short" else 0, "dot4": 4, "dot5": 5, "dot6": 6}[shape]
        alpha = "a~." if shape == "short" else ".THISBAEORtmp~a"
        nm = cx.str("name%d" % i, ln, alpha)
        for o in names:
            cx.assume(o != nm)          # the unversioned paths of a tree are distinct
        names.append(nm)
    ignored = [bool(cx.choose("ignored%d" % i, 0, 1)) for i in range(n)]
    isdir = [bool(cx.choose("isdir%d" % i, 0, 1)) for i in range(n)]
    nested = [isdir[i] and bool(cx.choose("nested%d" % i, 0, 1)) for i in range(n)]
    # a nested branch whose control directory is recognised but cannot be opened by this version (newer / foreign format)
    unopenable = [nested[i] and bool(cx.choose("unopenable%d" % i, 0, 1)) for i in range(n)]
    E = cx.real("breezy.errors")
    open_error = cx.pick("open_error", [E.UnknownFormatError, E.UnsupportedFormatError]) if any(unopenable) else None
    want_unknown = bool(cx.choose("unknown", 0, 1))
    want_ignored = bool(cx.choose("ignored", 0, 1))
    want_detritus = bool(cx.choose("detritus", 0, 1))
    dry_run = bool(cx.choose("dry_run", 0, 1))
    tree = _Tree(names, ignored)
    log = []
    by_abspath = {}

    def index_of(path):
        for i, nm in enumerate(names):
            if cx.truth(("/tree/" + nm) == path):
                return i
        raise AssertionError("file system touched outside the listed paths: %r" % (path,))
    C.isdir = lambda p: isdir[index_of(p)]

    class OS:
        remove = staticmethod(lambda p: None)

        @staticmethod
        def unlink(p):
            log.append(("unlink", index_of(p)))
    C.os = OS

    class SH:
        @staticmethod
        def rmtree(p, onerror=None):
            log.append(("rmtree", index_of(p)))
    C.shutil = SH

    class CD:
        class ControlDir:
            @staticmethod
            def open(p):
                if unopenable[index_of(p)]:
                    raise open_error("format of the nested branch")
                if nested[index_of(p)]:
                    return object()
                raise cx.real("breezy.errors").NotBranchError("not-a-branch")
    C.controldir = CD

    class WT:
        @staticmethod
        def open_containing(d):
            return tree, ""
    C.WorkingTree = WT

    class UI:
        class ui_factory:
            note = staticmethod(lambda *a, **k: None)
            get_boolean = staticmethod(lambda *a, **k: True)
            show_warning = staticmethod(lambda *a, **k: None)
    C.ui = UI
    C.note = lambda *a, **k: None
    raised = None
    try:
        C.clean_tree(".", unknown=want_unknown, ignored=want_ignored, detritus=want_detritus, dry_run=dry_run, no_prompt=True)
    except (E.UnknownFormatError, E.UnsupportedFormatError) as e:
        raised = type(e).__name__
    deleted = [i for _op, i in log]
    hit_unopenable = any(unopenable[i] and ((want_detritus and _ref_detritus(cx, names[i])) or (want_ignored and ignored[i])
                                             or (want_unknown and not ignored[i])) for i in range(n))
    if hit_unopenable:
        # the branch is there, only this version cannot read it: it must not be deleted, and nothing else either
        cx.require(raised is not None, "a nested branch in a format this version cannot open was treated as a plain directory")
        cx.require(not log, "clean-tree stopped at an unopenable nested branch but had already deleted something")
        cx.cover("unopenable_nested_branch")
        return
    cx.require(raised is None, "unexpected %s" % raised)
    for i in range(n):
        det = _ref_detritus(cx, names[i])
        selected = (want_detritus and det) or (want_ignored and ignored[i]) or (want_unknown and not ignored[i])
        should = selected and not nested[i] and not dry_run
        cx.require((i in deleted) == should,
                   "path %d %s although it %s be (detritus=%r ignored=%r nested=%r dry_run=%r)" %
                   (i, "deleted" if i in deleted else "kept", "should" if should else "should not", det, ignored[i], nested[i], dry_run))
        if should:
            op = [o for o, j in log if j == i]
            cx.require(op == (["rmtree"] if isdir[i] else ["unlink"]), "wrong deletion call %r" % (op,))
            cx.cover("deleted")
        if det:
            cx.cover("detritus")
        if nested[i] and selected:
            cx.cover("nested_kept")
    if dry_run:
        cx.require(not log, "dry run touched the file system")
        cx.cover("dry_run")
    cx.observe("deleted", sorted(deleted))


def obligations(tier):
    q = tier == "quick"
    p = dict(npaths=1 if q else 2)
    return [Ob("clean_tree", ob_clean, [CT], p, 900 if q else 7200, 3 if q else 1,
               ["deleted", "detritus", "nested_kept", "dry_run", "unopenable_nested_branch"],
               bounds="<= %(npaths)d unversioned paths with symbolic names (1-2 chars, or 4-6 chars over the letters of the "
                      "detritus suffixes), each ignored or not, file or directory, nested control dir or not (openable or not); every "
                      "combination of --unknown / --ignored / --detritus / --dry-run" % p)]
