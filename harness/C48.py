"""C48 - ignore patterns match according to their documented semantics.

The pattern lists are concrete (the translation tables run through the compiled
Replacer); the universally quantified variable is the file name: the
super-regexes the real Globster built are interpreted over a symbolic name by
the generic regex walker and compared with a reference matcher written from
``brz help patterns``."""
import re

from symx.runner import Ob

ID = "C48"
GL = "breezy.globbing"
FUNCTIONS = [GL + ":Globster.__init__", GL + ":Globster._add_patterns", GL + ":Globster.match", GL + ":Globster.identify",
             GL + ":ExceptionGlobster.__init__", GL + ":ExceptionGlobster.match", GL + ":_OrderedGlobster.__init__",
             GL + ":_sub_group", GL + ":_sub_extension"]
STUBS = ["compiled super-regexes built by the real code are interpreted by the generic regex walker (groups, lastindex, "
         "look-ahead, alternation order, the 99-pattern batching are the real ones)",
         "normalize_pattern and the Replacer tables (Rust) run natively on the concrete patterns"]
ASSUMPTIONS = ["reference semantics (harness, from `brz help patterns`): no-slash patterns are matched against the last "
               "path component, patterns with a slash or RE: against the whole path; ? = one char except '/', * = any "
               "run of chars except '/', **/ at the start or after a slash = zero or more directories, [..] = character "
               "group, leading ./ anchors at the root; RE: = the regular expression must match the whole path; "
               "! overrides plain patterns, !! overrides !"]
OUTSIDE = ["pattern lists other than the enumerated ones", "file names longer than the bound / outside the alphabet",
           "case-insensitive RE flags", "ignore file parsing (breezy/ignores.py I/O)"]

KNOWN_NL = "C48-newline-in-file-name"


# ------------------------------------------------------------------ reference matcher
def _parse_glob(pat):
    """pattern text -> token list.  Tokens: ('lit', ch) ('any',) ('star',) ('dstar',) ('grp', neg, [(lo, hi)...])"""
    toks = []
    i = 0
    n = len(pat)
    while i < n:
        c = pat[i]
        if c == "\\" and i + 1 < n:
            toks.append(("lit", pat[i + 1]))
            i += 2
        elif c == "[":
            j = i + 1
            neg = False
            if j < n and pat[j] in "!^":
                neg = True
                j += 1
            items = []
            first = True
            while j < n and (pat[j] != "]" or first):
                first = False
                if j + 2 < n and pat[j + 1] == "-" and pat[j + 2] != "]":
                    items.append((pat[j], pat[j + 2]))
                    j += 3
                else:
                    items.append((pat[j], pat[j]))
                    j += 1
            if j >= n:          # no closing bracket: literal '['
                toks.append(("lit", "["))
                i += 1
                continue
            toks.append(("grp", neg, items))
            i = j + 1
        elif c == "?":
            toks.append(("any",))
            i += 1
        elif c == "*":
            j = i
            while j < n and pat[j] == "*":
                j += 1
            at_start = i == 0 or pat[i - 1] == "/"
            if j - i >= 2 and j < n and pat[j] == "/" and at_start:
                toks.append(("dstar",))
                i = j + 1
            else:
                toks.append(("star",))
                i = j
        else:
            toks.append(("lit", c))
            i += 1
    return toks


def _glob(cx, toks, ti, s, si, slash_ok):
    """Does toks[ti:] match s[si:] exactly?  (forks on symbolic characters)"""
    if ti == len(toks):
        return si == len(s)
    t = toks[ti]
    k = t[0]
    if k == "dstar":
        # zero or more whole directories: "" or "<anything>/"
        if _glob(cx, toks, ti + 1, s, si, slash_ok):
            return True
        for j in range(si, len(s)):
            if cx.truth(s[j] == "/") and _glob(cx, toks, ti + 1, s, j + 1, slash_ok):
                return True
        return False
    if k == "star":
        j = si
        while True:
            if _glob(cx, toks, ti + 1, s, j, slash_ok):
                return True
            if j >= len(s) or cx.truth(s[j] == "/"):
                return False
            j += 1
    if si >= len(s):
        return False
    ch = s[si]
    if k == "lit":
        ok = cx.truth(ch == t[1])
    elif k == "any":
        ok = not cx.truth(ch == "/")
    else:
        _, neg, items = t
        hit = False
        for lo, hi in items:
            if lo == hi:
                if cx.truth(ch == lo):
                    hit = True
                    break
            elif cx.truth(ch >= lo) and cx.truth(ch <= hi):
                hit = True
                break
        ok = hit != neg
    return ok and _glob(cx, toks, ti + 1, s, si + 1, slash_ok)


def _basename(cx, name):
    last = -1
    for i in range(len(name)):
        if cx.truth(name[i] == "/"):
            last = i
    return name[last + 1:]


def ref_matches(cx, pat, name):
    """Reference: does (normalised) pattern ``pat`` match file name ``name``?"""
    if pat.startswith("RE:"):
        body = pat[3:]
        rx = re.compile("(?:" + body + ")", re.UNICODE)
        if cx.sym:
            from symx import relib
            return relib.p_fullmatch(rx, name) is not None
        return rx.fullmatch(name) is not None
    p = pat
    while p.endswith("/") and len(p) > 1:
        p = p[:-1]
    if "/" in p:
        # canonicalise: drop ./ and empty components
        anchored = p
        while anchored.startswith("./"):
            anchored = anchored[2:]
        anchored = anchored.replace("/./", "/")
        while "//" in anchored:
            anchored = anchored.replace("//", "/")
        return _glob(cx, _parse_glob(anchored), 0, name, 0, True)
    return _glob(cx, _parse_glob(p), 0, _basename(cx, name), 0, False)


# ------------------------------------------------------------------ pattern lists
LISTS = [
    ["*.o", "foo", "a/b*", "**/c?", "RE:x+y", "[ab]z"],
    ["*.py[co]", "*~", ".#*", "./root", "doc/**/b.a"],
    ["a", "a/", "*.a.b", "?", "b?*"],
    ["**/a", "a/**/b", "**b", "a**/b", "./a/*"],
    ["[!a]", "[^ab]o", "[a-b].o", "[]]", "a[/]b"],
    ["RE:a.b", "RE:(a|ab)(b|)", "RE:.*/o", "RE:^a$", "RE:a\\.o"],
    ["a\\?b", "a+b", "(a)", "a|b", "{a}", "a.b", "$a", "^a"],
    ["*.o", "*.o.a", "*.", "*.*", "*.?"],
    # patterns that LOOK like extension patterns (leading '*.') but contain a '/': full-path patterns
    ["*.a/b", "*.o/*", "a/*.o", "*./a"],
    ["foo bar", " a", "a ", "é", "*.é", "é/*"],
    ["*", "b/*", "*/b", "*/*"],
    ["**/", "a/**", "**/**/a", "***/a"],
    ["./", "./*", "./a", ".//a", "a//b"],
]
LISTS_T = LISTS + [
    ["a*b*a", "*a*", "?*?", "a?", "?a"],
    ["[a-b][a-b]", "[ab][!ab]", "[.]", "[*]", "[?]"],
    ["RE:[ab]+", "RE:a*b", "RE:(?:a/)*b", "RE:a{2}", "RE:\\.o$"],
    ["a/b/c", "a/*/c", "a/**/c", "**/b/c", "a/b/**/c"],
    ["*.o", "!a.o", "!!b/a.o"],
]
EXC_LISTS = [
    ["*.o", "!a.o", "!!b/a.o"],
    ["*", "!a", "!!a"],
    ["a/*", "!a/b", "!!**/b", "!*.o", "!!*.a.o"],
    ["!!*.o", "!*", "b"],
]


def big_list(n):
    return ["f%03d" % i for i in range(n - 3)] + ["*.o", "b/*", "RE:a+"]


def _name(cx):
    return cx.str("name", cx.choose("len", 0, cx.p("lname")), cx.p("alpha"))


def _nl_class(cx, name):
    from .util import s_or
    return s_or([name[i] == "\n" for i in range(len(name))]) if len(name) else False


def ob_globster(cx):
    G = cx.mod(GL)
    lists = cx.p("lists")
    li = cx.choose("list", 0, len(lists) - 1)
    pats = lists[li]
    name = _name(cx)
    cx.known(KNOWN_NL, _nl_class(cx, name))
    g = G.Globster(list(pats))
    got = g.match(name)
    norm = [G.normalize_pattern(p) for p in pats]
    want = [p for p in norm if ref_matches(cx, p, name)]
    if got is None:
        cx.require(not want, "not ignored although pattern(s) %r match per the documentation" % (want,))
        cx.cover("unmatched")
    else:
        cx.require(got in norm, "reported pattern %r is not one of the patterns" % (got,))
        cx.require(got in want, "ignored by %r which does not match per the documentation (matching: %r)" % (got, want))
        cx.cover("matched")
    og = G._OrderedGlobster(list(pats)).match(name)
    cx.require(og == (want[0] if want else None), "_OrderedGlobster returned %r, first matching pattern is %r" %
               (og, want[0] if want else None))
    cx.observe("got", got)
    cx.observe("ordered", og)


def ob_exceptions(cx):
    G = cx.mod(GL)
    lists = cx.p("exc_lists")
    pats = lists[cx.choose("list", 0, len(lists) - 1)]
    name = _name(cx)
    cx.known(KNOWN_NL, _nl_class(cx, name))
    got = G.ExceptionGlobster(list(pats)).match(name)
    dbl = [p for p in pats if p.startswith("!!") and ref_matches(cx, G.normalize_pattern(p[2:]), name)]
    exc = [p for p in pats if p.startswith("!") and not p.startswith("!!")
           and ref_matches(cx, G.normalize_pattern(p[1:]), name)]
    plain = [p for p in pats if not p.startswith("!") and ref_matches(cx, G.normalize_pattern(p), name)]
    if dbl:
        cx.require(got is not None and got in ["!!" + G.normalize_pattern(p[2:]) for p in dbl],
                   "a matching !! pattern did not win: got %r" % (got,))
        cx.cover("double")
    elif exc:
        cx.require(got is None, "a matching ! pattern did not override: got %r" % (got,))
        cx.cover("exception")
    elif plain:
        cx.require(got is not None and got in [G.normalize_pattern(p) for p in plain],
                   "plain pattern result %r, matching %r" % (got, plain))
        cx.cover("plain")
    else:
        cx.require(got is None, "ignored by %r although nothing matches" % (got,))
    cx.observe("got", got)


def ob_batching(cx):
    """> 99 patterns: the answer must not depend on how the patterns are batched."""
    G = cx.mod(GL)
    n = cx.pick("npatterns", cx.p("big"))
    rot = cx.pick("rotation", cx.p("rotations"))
    base = big_list(n)
    pats = base[rot % n:] + base[:rot % n]
    name = _name(cx)
    cx.known(KNOWN_NL, _nl_class(cx, name))
    got = G.Globster(list(pats)).match(name)
    want = [p for p in pats if ref_matches(cx, p, name)]
    if got is None:
        cx.require(not want, "not ignored although %r match" % (want,))
        cx.cover("unmatched")
    else:
        cx.require(got in want, "ignored by %r, matching per the documentation: %r" % (got, want))
        cx.cover("matched")
    cx.observe("got", got)


def obligations(tier):
    q = tier == "quick"
    alpha = "ab./o\n é"
    p = dict(lname=4 if q else 5, alpha=alpha, lists=LISTS if q else LISTS_T, exc_lists=EXC_LISTS)
    pb = dict(lname=4, alpha="f01ab./o\n", big=[100, 205] if q else [99, 100, 101, 198, 199, 205],
              rotations=[0, 3] if q else [0, 1, 3, 50, 99])
    to = 900 if q else 7200
    kn = [KNOWN_NL]
    return [
        Ob("globster", ob_globster, [GL], p, to, 3 if q else 1, ["matched", "unmatched"], known=kn,
           bounds="%d enumerated pattern lists; file names <= %d chars over %r" % (len(p["lists"]), p["lname"], alpha)),
        Ob("exceptions", ob_exceptions, [GL], p, to, 3 if q else 1, ["double", "exception", "plain"], known=kn,
           bounds="%d enumerated !/!! pattern lists; file names <= %d chars over %r" % (len(EXC_LISTS), p["lname"], alpha)),
        Ob("batching", ob_batching, [GL], pb, to, 5 if q else 2, ["matched", "unmatched"], known=kn,
           bounds="lists of %r patterns in rotations %r; file names <= %d chars over %r" %
                  (pb["big"], pb["rotations"], pb["lname"], pb["alpha"])),
    ]
