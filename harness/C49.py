"""C49 - configuration values resolve by location (section matching and expansion)."""
from symx.runner import Ob
from .util import cat
from .C31 import m_joinpath

ID = "C49"
CF = "breezy.config"
FUNCTIONS = [CF + ":_iter_for_location_by_parts", CF + ":LocationMatcher._get_matching_sections",
             CF + ":LocationMatcher.get_sections", CF + ":LocationSection.__init__", CF + ":LocationSection.get",
             CF + ":iter_option_refs"]
STUBS = ["store = list of in-memory sections (concrete names and options)",
         "urlutils.basename / join (Rust) -> python models, compared with the compiled functions on every extra path of "
         "length <= 4 over the location alphabet before each run; fnmatch is interpreted through the regex walker on "
         "the pattern fnmatch.translate produces",
         "LocationMatcher built with object.__new__ (its constructor parses URLs with compiled helpers); location and "
         "branch name are set directly"]
ASSUMPTIONS = ["section names are enumerated (concrete); the location is symbolic",
               "reference semantics: a section matches when it has no more components than the location and every "
               "component glob-matches (fnmatch rules); more components = more specific, ties broken by section name "
               "(descending); ignore_parents stops the search below that section"]
OUTSIDE = ["store round trip of option values through configobj (third-party parser)", "file:// section names and URL "
           "segment parameters (compiled helpers)", "locations longer than the bound"]

ALPHA = "ab/*"
SECTION_SETS = [
    ["/a", "/a/b", "/b"],
    ["/a/*", "/a", "/*/b"],
    ["/", "/a/", "/a/b/"],
    ["/a*", "/ab", "/a?"],
    ["a", "/a/b/a", "/a/b"],
]


def m_basename(p):
    if len(p) and p.endswith("/"):
        p = p[:-1]                # exactly one trailing slash is dropped
    return p.rsplit("/", 1)[-1]


def m_join(base, *args):
    scheme_host = ""
    path = base
    if "://" in base:
        i = base.index("/", base.index("://") + 3) if "/" in base[base.index("://") + 3:] else len(base)
        scheme_host, path = base[:i], base[i:] or "/"
    return scheme_host + m_joinpath(path, *args)


def _validate_models():
    import itertools
    from breezy import urlutils as U
    for n in range(0, 5):
        for t in itertools.product(ALPHA, repeat=n):
            s = "".join(t)
            if U.basename(s) != m_basename(s):
                raise RuntimeError("basename model differs on %r: %r vs %r" % (s, U.basename(s), m_basename(s)))
            for base in ("http://h/x", "/x/y"):
                if U.join(base, s) != m_join(base, s):
                    raise RuntimeError("join model differs on %r, %r: %r vs %r" % (base, s, U.join(base, s), m_join(base, s)))


class _UrlutilsView:
    def __init__(self, real):
        self._real = real

    basename = staticmethod(m_basename)
    join = staticmethod(m_join)

    def __getattr__(self, name):
        return getattr(self._real, name)


def setup(ls):
    _validate_models()
    from breezy import urlutils as real
    ls.modules[CF].urlutils = _UrlutilsView(real)


# ---------------------------------------------------------------- reference
def _glob_comp(cx, pat, s):
    """fnmatch semantics for one path component (no '/' inside)."""
    def m(pi, si):
        if pi == len(pat):
            return si == len(s)
        c = pat[pi]
        if c == "*":
            for k in range(si, len(s) + 1):
                if m(pi + 1, k):
                    return True
            return False
        if si >= len(s):
            return False
        if c == "?":
            return m(pi + 1, si + 1)
        return cx.truth(s[si] == c) and m(pi + 1, si + 1)
    return m(0, 0)


def _parts(cx, loc):
    """location.rstrip('/').split('/') computed independently."""
    end = len(loc)
    while end > 0 and cx.truth(loc[end - 1] == "/"):
        end -= 1
    parts = []
    start = 0
    for i in range(end):
        if cx.truth(loc[i] == "/"):
            parts.append(loc[start:i])
            start = i + 1
    parts.append(loc[start:end])
    return parts


def _ref_matches(cx, sections, loc):
    lparts = _parts(cx, loc)
    out = []
    for sec in sections:
        sparts = sec.rstrip("/").split("/")
        if len(sparts) > len(lparts):
            continue
        if all(_glob_comp(cx, sp, lp) for lp, sp in zip(lparts, sparts)):
            extra = lparts[len(sparts):]
            e = extra[0] if extra else ""
            for x in extra[1:]:
                e = e + "/" + x
            out.append((sec, e, len(sparts)))
    return out


def ob_by_parts(cx):
    C = cx.mod(CF)
    sections = cx.p("sets")[cx.choose("set", 0, len(cx.p("sets")) - 1)]
    loc = cx.str("location", cx.choose("len", 0, cx.p("lloc")), ALPHA)
    got = list(C._iter_for_location_by_parts(list(sections), loc))
    want = _ref_matches(cx, sections, loc)
    cx.require(len(got) == len(want), "matched %r, reference %r" % ([g[0] for g in got], [w[0] for w in want]))
    for g, w in zip(got, want):
        cx.require(g[0] == w[0], "matched section %r, reference %r" % (g[0], w[0]))
        cx.require(g[1] == w[1], "extra path differs from the unmatched part of the location")
        cx.require(g[2] == w[2], "number of matched components")
    cx.observe("got", got)
    if got:
        cx.cover("matched")
    else:
        cx.cover("unmatched")


class _Store:
    def __init__(self, C, defs):
        self.sections = [C.Section(name, dict(opts)) for name, opts in defs]

    def get_sections(self):
        for s in self.sections:
            yield self, s


OPTION_SETS = [
    {"/a": {"v": "A"}, "/a/b": {"v": "AB"}, "/b": {"v": "B"}},
    {"/a/*": {"v": "star", "ignore_parents": "True"}, "/a": {"v": "A"}, "/*/b": {"v": "sb"}},
    {"/": {"v": "{relpath}|{basename}", "u": "http://h/x", "u:policy": "appendpath"}, "/a/": {"v": "{relpath}"},
     "/a/b/": {"w": "{branchname}-{relpath}"}},
    {"/a*": {"v": "1"}, "/ab": {"v": "2", "ignore_parents": "no"}, "/a?": {"v": "3"}},
    {"a": {"v": "rel"}, "/a/b/a": {"v": "deep"}, "/a/b": {"v": "{relpath}", "v:policy": "norecurse"}},
    # an EMPTY value in the more specific section is a value (it hides the parent's), not "undefined"
    {"/": {"v": "top", "w": "{relpath}"}, "/a/": {"v": "", "w": "0"}},
]


def ob_matcher(cx):
    """LocationMatcher.get_sections: order, ignore_parents, and LocationSection.get expansion."""
    C = cx.mod(CF)
    k = cx.choose("set", 0, len(OPTION_SETS) - 1)
    defs = list(OPTION_SETS[k].items())
    loc = cx.str("location", cx.choose("len", 1, cx.p("lloc")), ALPHA)
    cx.assume(loc.startswith("/"))
    store = _Store(C, defs)
    lm = object.__new__(C.LocationMatcher)
    lm.store = store
    lm.location = loc
    lm.branch_name = "BR"
    got = [sec for _st, sec in lm.get_sections()]
    ref = _ref_matches(cx, [n for n, _ in defs], loc)
    ref.sort(key=lambda t: (t[2], t[0]), reverse=True)
    want = []
    for name, extra, n in ref:
        ig = OPTION_SETS[k][name].get("ignore_parents")
        if ig is not None and ig.lower() in ("true", "yes", "1", "on", "y", "t"):
            break
        want.append((name, extra))
    cx.require([s.id for s in got] == [w[0] for w in want], "sections %r, reference %r" % ([s.id for s in got], [w[0] for w in want]))
    for sec, (name, extra) in zip(got, want):
        cx.require(sec.extra_path == extra, "relpath of section %s is not the unmatched part of the location" % name)
        opts = OPTION_SETS[k][name]
        for oname, raw in opts.items():
            if oname.endswith(":policy"):
                continue
            val = sec.get(oname)
            if opts.get(oname + ":policy") == "appendpath":
                cx.require(val == m_join(raw, extra), "appendpath value is not the option joined with the unmatched path")
                continue
            base = m_basename(extra)
            # expand the section-local references left to right (raw is a concrete template)
            out = ""
            i = 0
            while i < len(raw):
                hit = None
                for ref_name, repl in (("{relpath}", extra), ("{basename}", base), ("{branchname}", "BR")):
                    if raw.startswith(ref_name, i):
                        hit = (ref_name, repl)
                        break
                if hit:
                    out = out + hit[1]
                    i += len(hit[0])
                else:
                    out = out + raw[i:i + 1]
                    i += 1
            cx.require(val is not None and val == out,
                       "option %s of section %s expands to %r, the reference gives %r" % (oname, name, val, out))
        cx.require(sec.get("not-set") is None and sec.get("not-set", "dflt") == "dflt",
                   "an option the section does not define does not yield the default")
    cx.observe("ids", [s.id for s in got])
    if len(got) >= 2:
        cx.cover("several")
    if len(got) < len(ref):
        cx.cover("ignore_parents")


def obligations(tier):
    q = tier == "quick"
    p = dict(lloc=5 if q else 7, sets=SECTION_SETS)
    to = 900 if q else 7200
    return [
        Ob("iter_for_location_by_parts", ob_by_parts, [CF], p, to, 3 if q else 1, ["matched", "unmatched"], setup=setup,
           bounds="%d enumerated section-name sets; locations <= %d chars over %r" % (len(SECTION_SETS), p["lloc"], ALPHA)),
        Ob("location_matcher", ob_matcher, [CF], p, to, 3 if q else 1, ["several", "ignore_parents"], setup=setup,
           bounds="%d enumerated section/option sets; absolute locations <= %d chars over %r" % (len(OPTION_SETS), p["lloc"], ALPHA)),
    ]
