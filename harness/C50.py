"""C50 - command-line splitting inverts shell-style quoting."""
from symx.runner import Ob

ID = "C50"
CM = "breezy.cmdline"
FUNCTIONS = [CM + ":split", CM + ":Splitter", CM + ":_Whitespace", CM + ":_Quotes", CM + ":_Backslash", CM + ":_Word",
             CM + ":_PushbackSequence"]
STUBS = ["the module's compiled whitespace pattern (re.compile(r'\\s')) is interpreted by the generic regex walker"]
ASSUMPTIONS = ["reference quoter (harness): wrap in double quotes; n backslashes before a quote character (or before the "
               "closing quote) are written as 2n (+1 to escape the quote); all other characters literal"]
OUTSIDE = ["arguments / command lines longer than the bounds", "characters outside the stated alphabet"]

ALPHA = "ab \t\"'\\"
ALPHA_T = ALPHA + "\n é"


def quote(arg, sq):
    out = ['"']
    bs = 0
    for ch in arg:
        if ch == "\\":
            bs += 1
            continue
        if ch == '"' or (sq and ch == "'"):
            out.append("\\" * (2 * bs + 1))
        else:
            out.append("\\" * bs)
        out.append(ch)
        bs = 0
    out.append("\\" * (2 * bs) + '"')
    r = ""
    for o in out:
        r = r + o
    return r


def ob_roundtrip(cx):
    C = cx.mod(CM)
    sq = bool(cx.choose("single_quotes_allowed", 0, 1))
    n = cx.choose("nargs", 0, cx.p("nargs"))
    args = [cx.str("arg%d" % i, cx.choose("len%d" % i, 0, cx.p("larg")), cx.p("alpha")) for i in range(n)]
    line = ""
    for i, a in enumerate(args):
        line = line + (" " if i else "") + quote(a, sq)
    got = C.split(line, single_quotes_allowed=sq)
    cx.require(len(got) == n, "split returned %d arguments for %d quoted ones" % (len(got), n))
    for g, a in zip(got, args):
        cx.require(g == a, "argument changed by quote+split")
    cx.observe("got", got)
    if n == cx.p("nargs") and all(len(a) == cx.p("larg") for a in args):
        cx.cover("full")


def ob_conservation(cx):
    """split() of an arbitrary command line: never raises, never invents characters, never loses plain characters."""
    C = cx.mod(CM)
    sq = bool(cx.choose("single_quotes_allowed", 0, 1))
    line = cx.str("line", cx.choose("len", 0, cx.p("lline")), cx.p("alpha"))
    got = C.split(line, single_quotes_allowed=sq)
    out = ""
    for g in got:
        out = out + g
    plain = "abé"
    letters_in = [c for c in line if any(cx.truth(c == p) for p in plain)]
    letters_out = [c for c in out if any(cx.truth(c == p) for p in plain)]
    cx.require(len(letters_in) == len(letters_out), "plain characters lost or invented")
    for a, b in zip(letters_in, letters_out):
        cx.require(a == b, "plain characters reordered or changed")
    cx.require(len(out) <= len(line), "output longer than input")
    # every output character occurs in the input
    for ch in out:
        cx.require(any(cx.truth(ch == c) for c in line), "invented character")
    cx.observe("got", got)
    if len(line) == cx.p("lline"):
        cx.cover("full")


def ob_plain(cx):
    """unquoted arguments without quote characters and whitespace, joined by single spaces, split back unchanged;
    backslashes that do not precede a quote are literal (the documented Windows-friendly rule), wherever they stand."""
    C = cx.mod(CM)
    sq = bool(cx.choose("single_quotes_allowed", 0, 1))
    n = cx.choose("nargs", 0, cx.p("nargs"))
    args = [cx.str("arg%d" % i, cx.choose("len%d" % i, 1, cx.p("larg")), "ab.-/\\") for i in range(n)]
    line = ""
    for i, a in enumerate(args):
        line = line + (" " if i else "") + a
    got = C.split(line, single_quotes_allowed=sq)
    cx.require(len(got) == n, "argument count")
    for g, a in zip(got, args):
        cx.require(g == a, "plain argument changed")
    cx.observe("got", got)
    cx.cover("done")


def obligations(tier):
    q = tier == "quick"
    p = dict(nargs=2, larg=3 if q else 4, lline=5 if q else 6, alpha=ALPHA if q else ALPHA_T)
    to = 900 if q else 7200
    return [
        Ob("quote_split_roundtrip", ob_roundtrip, [CM], p, to, 2 if q else 1, ["full"],
           bounds="<= %(nargs)d arguments of <= %(larg)d chars over %(alpha)r, single quotes on/off" % p),
        Ob("conservation", ob_conservation, [CM], p, to, 2 if q else 1, ["full"],
           bounds="any command line of <= %(lline)d chars over %(alpha)r" % p),
        Ob("plain_arguments", ob_plain, [CM], p, to, 1, ["done"], bounds="<= %(nargs)d plain arguments of <= %(larg)d chars" % p),
    ]
