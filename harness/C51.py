"""C51 - rebase plans: plan generation over symbolic history shapes, and persistence."""
from symx.containers import SymDict
from symx.runner import Ob

ID = "C51"
RB = "breezy.plugins.rewrite.rebase"
FUNCTIONS = [RB + ":marshall_rebase_plan", RB + ":unmarshall_rebase_plan", RB + ":generate_simple_plan"]
STUBS = ["dict literals of the lifted module are association-list dictionaries (keys compared with ==)",
         "simple_plan: the graph object (get_parent_map / heads / find_lca) answers from the symbolic parent table by "
         "computing ancestry in the harness; vcsgraph's topo_sort (compiled) is replaced by the id order of the table "
         "(parents have smaller ids, so that order is topological); FrozenHeadsCache is the identity"]
ASSUMPTIONS = ["revision ids are non-empty and contain no space and no newline (the revision-id alphabet)",
               "revno is a non-negative integer below 10^6"]
OUTSIDE = ["generate_transpose_plan, rebase_todo, start / stop revisions inside the set, skip_full_merged; vcsgraph's own "
           "topological sort and heads computation", "plans / ids larger than the bounds",
           "writing the plan file to the branch transport"]


def _revid(cx, name, lmax):
    r = cx.bytes(name, cx.choose(name + ".len", 1, lmax))
    for c in r:
        cx.assume((c != 32) & (c != 10) if cx.sym else (c != 32 and c != 10))
    return r


def ob_roundtrip(cx):
    R = cx.mod(RB)
    lmax = cx.p("lrev")
    revno = cx.int("revno", 0, 999999)
    last = _revid(cx, "last", lmax)
    n = cx.choose("entries", 0, cx.p("entries"))
    plan = SymDict() if cx.sym else {}
    want = []
    for i in range(n):
        old = _revid(cx, "old%d" % i, lmax)
        new = _revid(cx, "new%d" % i, lmax)
        np = cx.choose("nparents%d" % i, 0, cx.p("parents"))
        parents = tuple(_revid(cx, "p%d_%d" % (i, j), lmax) for j in range(np))
        for o, _, _ in want:
            cx.assume(o != old)           # plan keys are distinct revision ids
        plan[old] = (new, parents)
        want.append((old, new, parents))
    text = R.marshall_rebase_plan((revno, last), plan)
    info, back = R.unmarshall_rebase_plan(text)
    cx.require(info[0] == revno, "revno changed")
    cx.require(info[1] == last, "last revision id changed")
    cx.require(len(back) == n, "number of plan entries changed")
    for old, new, parents in want:
        cx.require(old in back, "plan entry lost")
        gn, gp = back[old]
        cx.require(gn == new, "replacement revision id changed")
        cx.require(len(gp) == len(parents), "parent count changed")
        cx.require(isinstance(gp, tuple), "parents not a tuple")
        for a, b in zip(gp, parents):
            cx.require(a == b, "parent id changed")
    cx.observe("info", info)
    cx.observe("back", [(k, v) for k, v in back.items()])
    if n == cx.p("entries"):
        cx.cover("full")


def ob_header(cx):
    R = cx.mod(RB)
    E = cx.real("breezy.errors")
    text = cx.bytes("text", cx.choose("n", 0, cx.p("ltext")), b"# 1\nab")
    good = b"# Bazaar rebase plan 1\n"
    try:
        R.unmarshall_rebase_plan(text)
        raised = None
    except E.UnknownFormatError:
        raised = "UnknownFormatError"
    cx.require(raised == "UnknownFormatError", "text without the plan header was accepted")
    cx.observe("raised", raised)
    cx.cover("rejected")


BASE, ONTO, OTHER = b"B", b"O", b"X"


def ob_simple_plan(cx):
    """generate_simple_plan over a history whose SHAPE is symbolic: the revisions to rebase and their parents are symbolic
    one-byte ids, the solver decides which parent is which revision (parents have smaller ids: acyclic).  B is the common
    ancestor (an ancestor of the new base O), X an old revision outside the rebased set (merged from elsewhere).
    The plan rewrites exactly the revisions of the set; every new parent is the new base, the NEW id of a revision of the
    set, or a revision outside the set - never the old id of a revision that is itself being rewritten."""
    R = cx.mod(RB)
    T = cx.truth
    n = cx.choose("nrevs", 1, cx.p("nrevs"))
    revs, parents = [], []
    for i in range(n):
        r = cx.bytes("rev%d" % i, 1, b"pqrs")
        for o in revs:
            cx.assume(o[0] < r[0])               # listed in id order; ids distinct
        ps = []
        for j in range(cx.choose("nparents%d" % i, 1, 2)):
            p = cx.bytes("parent%d_%d" % (i, j), 1, b"BXpqrs")
            cx.assume(p[0] < r[0])               # acyclic
            for o in ps:
                cx.assume(o != p)
            ps.append(p)
        revs.append(r)
        parents.append(ps)
    # every parent that is not B / X is one of the revisions (no dangling ids)
    for ps in parents:
        for p in ps:
            cx.assume(T(p == BASE) or T(p == OTHER) or any(T(p == r) for r in revs))

    def parents_of(x):
        for r, ps in zip(revs, parents):
            if T(r == x):
                return ps
        return []

    def anc(x, y):
        """x is an ancestor of (or equal to) y"""
        if T(x == y):
            return True
        if T(y == ONTO):
            return T(x == BASE)
        return any(anc(x, p) for p in parents_of(y))

    class Graph:
        @staticmethod
        def get_parent_map(keys):
            from symx.containers import SymDict
            pairs = [(r, tuple(ps)) for r, ps in zip(revs, parents)]
            return SymDict(pairs) if cx.sym else dict(pairs)

        @staticmethod
        def heads(keys):
            keys = list(keys)
            out = []
            for k in keys:
                if not any(anc(k, o) and not T(k == o) for o in keys) and not any(T(k == o) for o in out):
                    out.append(k)
            if cx.sym:
                from symx.containers import SymSet
                return SymSet(out)
            return set(out)

        @staticmethod
        def find_lca(a, b):
            return {BASE}
    R.topo_sort = lambda pm: list(revs)         # ids are listed parents-first: a valid topological order
    R.FrozenHeadsCache = lambda g: g
    if cx.sym:
        from symx.containers import SymSet
        todo = SymSet(revs)
    else:
        todo = set(revs)
    plan = R.generate_simple_plan(todo, None, None, ONTO, Graph, lambda old, ps: b"new-" + old)
    items = list(plan.items())
    cx.require(len(items) == n, "plan rewrites %d revisions, the set has %d" % (len(items), n))
    for r in revs:
        cx.require(any(T(k == r) for k, _v in items), "a revision of the set is missing from the plan")
    for old, (new, nps) in items:
        cx.require(new == b"new-" + old, "new id not generated from the old id")
        cx.require(len(nps) >= 1, "rewritten revision without parents")
        first = nps[0]
        cx.require(T(first == ONTO) or any(T(first == b"new-" + r) for r in revs),
                   "left-hand parent of a rewritten revision is neither the new base nor a rewritten revision")
        for p in nps:
            cx.require(not any(T(p == r) for r in revs),
                       "a rewritten revision keeps the OLD id of a revision that is itself rewritten as its parent")
            ok = T(p == ONTO) or T(p == OTHER) or T(p == BASE) or any(T(p == b"new-" + r) for r in revs)
            cx.require(ok, "unknown parent in the plan")
        if len(nps) > 1:
            cx.cover("merge")
    if any(any(T(p == OTHER) for p in ps) for ps in parents):
        cx.cover("outside_merge")
    if n >= 2:
        cx.cover("chain")
    cx.observe("plan", [(k, nps) for k, (_new, nps) in items])


def obligations(tier):
    q = tier == "quick"
    p = dict(lrev=2, entries=2 if q else 3, parents=2, ltext=4 if q else 6)
    to = 900 if q else 7200
    return [
        Ob("marshall_roundtrip", ob_roundtrip, [(RB, dict(symdict=True))], p, to, 2 if q else 1, ["full"],
           bounds="<= %(entries)d entries, 0..%(parents)d parents each, ids 1..%(lrev)d arbitrary bytes except space/LF, "
                  "revno < 10^6" % p),
        Ob("header_mismatch", ob_header, [(RB, dict(symdict=True))], p, to, 1, ["rejected"],
           bounds="texts <= %(ltext)d bytes (too short to carry the header)" % p),
        Ob("simple_plan", ob_simple_plan, [(RB, dict(symdict=True))], dict(nrevs=3 if q else 4), to, 2 if q else 1,
           ["merge", "outside_merge", "chain"],
           bounds="<= %d revisions to rebase with 1..2 parents each; revisions and parents are symbolic ids (the solver "
                  "decides the shape: chains, diamonds inside the set, merges of a revision from outside), fixed common "
                  "ancestor and new base" % (3 if q else 4)),
    ]
