"""C51 - rebase plans survive being saved and loaded unchanged (persistence sentence)."""
from symx.containers import SymDict
from symx.runner import Ob

ID = "C51"
RB = "breezy.plugins.rewrite.rebase"
FUNCTIONS = [RB + ":marshall_rebase_plan", RB + ":unmarshall_rebase_plan"]
STUBS = ["dict literals of the lifted module are association-list dictionaries (keys compared with ==)"]
ASSUMPTIONS = ["revision ids are non-empty and contain no space and no newline (the revision-id alphabet)",
               "revno is a non-negative integer below 10^6"]
OUTSIDE = ["plan generation (topological ordering over a real graph)", "plans / ids larger than the bounds",
           "writing the plan file to the branch transport"]


def _revid(cx, name, lmax):
    r = cx.bytes(name, cx.choose(name + ".len", 1, lmax))
    for c in r:
        cx.assume((c != 32) & (c != 10) if cx.sym else (c != 32 and c != 10))
    return r


def ob_roundtrip(cx):
    R = cx.mod(RB)
    lmax = cx.p("lrev")
    revno = cx.int("revno", 0, 999999)
    last = _revid(cx, "last", lmax)
    n = cx.choose("entries", 0, cx.p("entries"))
    plan = SymDict() if cx.sym else {}
    want = []
    for i in range(n):
        old = _revid(cx, "old%d" % i, lmax)
        new = _revid(cx, "new%d" % i, lmax)
        np = cx.choose("nparents%d" % i, 0, cx.p("parents"))
        parents = tuple(_revid(cx, "p%d_%d" % (i, j), lmax) for j in range(np))
        for o, _, _ in want:
            cx.assume(o != old)           # plan keys are distinct revision ids
        plan[old] = (new, parents)
        want.append((old, new, parents))
    text = R.marshall_rebase_plan((revno, last), plan)
    info, back = R.unmarshall_rebase_plan(text)
    cx.require(info[0] == revno, "revno changed")
    cx.require(info[1] == last, "last revision id changed")
    cx.require(len(back) == n, "number of plan entries changed")
    for old, new, parents in want:
        cx.require(old in back, "plan entry lost")
        gn, gp = back[old]
        cx.require(gn == new, "replacement revision id changed")
        cx.require(len(gp) == len(parents), "parent count changed")
        cx.require(isinstance(gp, tuple), "parents not a tuple")
        for a, b in zip(gp, parents):
            cx.require(a == b, "parent id changed")
    cx.observe("info", info)
    cx.observe("back", [(k, v) for k, v in back.items()])
    if n == cx.p("entries"):
        cx.cover("full")


def ob_header(cx):
    R = cx.mod(RB)
    E = cx.real("breezy.errors")
    text = cx.bytes("text", cx.choose("n", 0, cx.p("ltext")), b"# 1\nab")
    good = b"# Bazaar rebase plan 1\n"
    try:
        R.unmarshall_rebase_plan(text)
        raised = None
    except E.UnknownFormatError:
        raised = "UnknownFormatError"
    cx.require(raised == "UnknownFormatError", "text without the plan header was accepted")
    cx.observe("raised", raised)
    cx.cover("rejected")


def obligations(tier):
    q = tier == "quick"
    p = dict(lrev=2, entries=2 if q else 3, parents=2, ltext=4 if q else 6)
    to = 900 if q else 7200
    return [
        Ob("marshall_roundtrip", ob_roundtrip, [(RB, dict(symdict=True))], p, to, 2 if q else 1, ["full"],
           bounds="<= %(entries)d entries, 0..%(parents)d parents each, ids 1..%(lrev)d arbitrary bytes except space/LF, "
                  "revno < 10^6" % p),
        Ob("header_mismatch", ob_header, [(RB, dict(symdict=True))], p, to, 1, ["rejected"],
           bounds="texts <= %(ltext)d bytes (too short to carry the header)" % p),
    ]
