"""C51 - rebase plans: plan generation over symbolic history shapes, and persistence."""
from symx.containers import SymDict
from symx.runner import Ob

ID = "C51"
RB = "breezy.plugins.rewrite.rebase"
FUNCTIONS = [RB + ":marshall_rebase_plan", RB + ":unmarshall_rebase_plan", RB + ":generate_simple_plan"]
STUBS = ["dict literals of the lifted module are association-list dictionaries (keys compared with ==)",
         "simple_plan: the graph object (get_parent_map / heads / find_lca) answers from the symbolic parent table by "
         "computing ancestry in the harness; vcsgraph's topo_sort (compiled) is replaced by the id order of the table "
         "(parents have smaller ids, so that order is topological); FrozenHeadsCache is the identity"]
ASSUMPTIONS = ["revision ids are non-empty and contain no space and no newline (the revision-id alphabet)",
               "revno is a non-negative integer below 10^6"]
OUTSIDE = ["generate_transpose_plan, rebase_todo, start / stop revisions inside the set, skip_full_merged; vcsgraph's own "
           "topological sort and heads computation", "plans / ids larger than the bounds",
           "writing the plan file to the branch transport"]


def _revid(cx, name, lmax):
    r = cx.bytes(name, cx.choose(name + ".len", 1, lmax))
    for c in r:
        cx.assume((c != 32) & (c != 10) if cx.sym else (c != 32 and c != 10))
    return r


def ob_roundtrip(cx):
    R = cx.mod(RB)
    lmax = cx.p("lrev")
    revno = cx.int("revno", 0, 999999)
    last = _revid(cx, "last", lmax)
    n = cx.choose("entries", 0, cx.p("entries"))
    plan = SymDict() if cx.sym else {}
    want = []
    for i in range(n):
        old = _revid(cx, "old%d" % i, lmax)
        new = _revid(cx, "new%d" % i, lmax)
        np = cx.choose("nparents%d" % i, 0, cx.p("parents"))
        parents = tuple(_revid(cx, "p%d_%d" % (i, j), lmax) for j in range(np))
        for o, _, _ in want:
            cx.assume(o != old)           # plan keys are distinct revision ids
        plan[old] = (new, parents)
        want.append((old, new, parents))
    text = R.marshall_rebase_plan((revno, last), plan)
    info, back = R.unmarshall_rebase_plan(text)
    cx.require(info[0] == revno, "revno changed")
    cx.require(info[1] == last, "last revision id changed")
    cx.require(len(back) == n, "number of plan entries changed")
    for old, new, parents in want:
        cx.require(old in back, "plan entry lost")
        gn, gp = back[old]
        cx.require(gn == new, "replacement revision id changed")
        cx.require(len(gp) == len(parents), "parent count changed")
        cx.require(isinstance(gp, tuple), "parents not a tuple")
        for a, b in zip(gp, parents):
            cx.require(a == b, "parent id changed")
    cx.observe("info", info)
    cx.observe("back", [(k, v) for k, v in back.items()])
    if n == cx.p("entries"):
        cx.cover("full")


def ob_header(cx):
    R = cx.mod(RB)
    E = cx.real("breezy.errors")
    text = cx.bytes("text", cx.choose("n", 0, cx.p("ltext")), b"# 1\nab")
    good = b"# Bazaar rebase plan 1\n"
    try:
        R.unmarshall_rebase_plan(text)
        raised = None
    except E.UnknownFormatError:
        raised = "UnknownFormatError"
    cx.require(raised == "UnknownFormatError", "text without the plan header was accepted")
    cx.observe("raised", raised)
    cx.cover("rejected")


BASE, ONTO, OTHER = b"B", b"O", b"X"


def ob_simple_plan(cx):
    """generate_simple_plan over a history whose SHAPE is symbolic: the revisions to rebase and their parents are symbolic
    one-byte ids, the solver decides which parent is which revision (parents have smaller ids: acyclic).  B is the common
    ancestor (an ancestor of the new base O), X an old revision outside the rebased set (merged from elsewhere).
    The plan rewrites exactly the revisions of the set; every new parent is the new base, the NEW id of a revision of the
    set, or a revision outside the set - never the old id of a revision that is itself being rewritten."""
    R = cx.mod(RB)
    T = cx.truth
    n = cx.choose("nrevs", 1, cx.p("nrevs"))
    revs, parents = [], []
    for i in range(n):
        r = cx.bytes("rev%d" % i, 1, b"pqrs")
        for o in revs:
            cx.assume(o[0] < r[0])               # listed in id order; ids distinct
        ps = []
        for j in range(cx.choose("nparents%d" % i, 1, 2)):
            p = cx.bytes("parent%d_%d" % (i, j), 1, b"BXpqrs")
            cx.assume(p[0] < r[0])               # acyclic
            for o in ps:
                cx.assume(o != p)
            ps.append(p)
        revs.append(r)
        parents.append(ps)
    # every parent that is not B / X is one of the revisions (no dangling ids)
    for ps in parents:
        for p in ps:
            cx.assume(T(p == BASE) or T(p == OTHER) or any(T(p == r) for r in revs))

    def parents_of(x):
        for r, ps in zip(revs, parents):
            if T(r == x):
                return ps
        return []

    def anc(x, y):
        """x is an ancestor of (or equal to) y"""
        if T(x == y):
            return True
        if T(y == ONTO):
            return T(x == BASE)
        return any(anc(x, p) for p in parents_of(y))

    class Graph:
        @staticmethod
        def get_parent_map(keys):
            from symx.containers import SymDict
            pairs = [(r, tuple(ps)) for r, ps in zip(revs, parents)]
            return SymDict(pairs) if cx.sym else dict(pairs)

        @staticmethod
        def heads(keys):
            keys = list(keys)
            out = []
            for k in keys:
                if not any(anc(k, o) and not T(k == o) for o in keys) and not any(T(k == o) for o in out):
                    out.append(k)
            if cx.sym:
                from symx.containers import SymSet
                return SymSet(out)
            return set(out)

        @staticmethod
        def find_lca(a, b):
            return {BASE}
    R.topo_sort = lambda pm: list(revs)         # ids are listed parents-first: a valid topological order
    R.FrozenHeadsCache = lambda g: g
    if cx.sym:
        from symx.containers import SymSet
        todo = SymSet(revs)
    else:
        todo = set(revs)
    skip = bool(cx.choose("skip_full_merged", 0, 1))
    plan = R.generate_simple_plan(todo, None, None, ONTO, Graph, lambda old, ps: b"new-" + old, skip_full_merged=skip)
    items = list(plan.items())

    def planned(r):
        return any(T(k == r) for k, _v in items)
    omitted = []
    for r, ps in zip(revs, parents):
        if not planned(r):
            # only a merge that stops being one may be left out, and only on request: its merged-in parent is already in the
            # new base's ancestry, or its left-hand parent is (then the merged-in parent's rewrite takes the left-hand place)
            cx.require(skip and len(ps) == 2 and (anc(ps[1], ONTO) or anc(ps[0], ONTO)),
                       "a revision of the set is missing from the plan" + (" (skip_full_merged: neither of its parents is "
                       "part of the new base's history)" if skip else ""))
            omitted.append(r)
            cx.cover("fully_merged_skipped")
    cx.require(len(items) == n - len(omitted), "plan rewrites %d revisions, the set has %d" % (len(items), n - len(omitted)))
    rewritten = [r for r in revs if not any(T(r == o) for o in omitted)]
    for old, (new, nps) in items:
        cx.require(new == b"new-" + old, "new id not generated from the old id")
        cx.require(len(nps) >= 1, "rewritten revision without parents")
        first = nps[0]
        cx.require(T(first == ONTO) or any(T(first == b"new-" + r) for r in rewritten),
                   "left-hand parent of a rewritten revision is neither the new base nor a rewritten revision")
        for p in nps:
            cx.require(not any(T(p == r) for r in rewritten),
                       "a rewritten revision keeps the OLD id of a revision that is itself rewritten as its parent")
            ok = T(p == ONTO) or T(p == OTHER) or T(p == BASE) or any(T(p == b"new-" + r) for r in rewritten) or \
                any(T(p == r) for r in omitted)
            cx.require(ok, "unknown parent in the plan")
        ops = parents_of(old)
        if len(ops) == 2 and not anc(ops[1], ONTO):
            # the merged-in parent is not in the new base's history: the rewritten merge must still merge it (or its rewrite)
            img = b"new-" + ops[1] if any(T(ops[1] == r) for r in rewritten) else ops[1]
            cx.require(any(T(p == img) for p in nps), "a rewritten merge lost its merged-in parent (the plan is no longer a "
                       "rewrite of that revision)")
            if anc(ops[1], ops[0]):
                cx.cover("merged_parent_is_ancestor_of_left_parent")
        if len(nps) > 1:
            cx.cover("merge")
    if any(any(T(p == OTHER) for p in ps) for ps in parents):
        cx.cover("outside_merge")
    if n >= 2:
        cx.cover("chain")
    cx.observe("plan", [(k, nps) for k, (_new, nps) in items])


def ob_transpose_plan(cx):
    """generate_transpose_plan: some revisions of a history (symbolic ids and parents, as above) are replaced by given new
    revisions; the plan must rewrite exactly their descendants, and every new parent must be a revision that stays, the
    replacement of a replaced revision, or the new id of a revision the plan rewrites - never an id nothing produces."""
    R = cx.mod(RB)
    T = cx.truth
    n = cx.choose("nrevs", 1, cx.p("nrevs"))
    revs, parents = [], []
    for i in range(n):
        r = cx.bytes("rev%d" % i, 1, b"pqrs")
        for o in revs:
            cx.assume(o[0] < r[0])               # listed in id order; ids distinct
        ps = []
        for j in range(cx.choose("nparents%d" % i, 1, 2)):
            p = cx.bytes("parent%d_%d" % (i, j), 1, b"Bpqrs")
            cx.assume(p[0] < r[0])               # acyclic
            for o in ps:
                cx.assume(o != p)
            ps.append(p)
        revs.append(r)
        parents.append(ps)
    for ps in parents:
        for p in ps:
            cx.assume(T(p == BASE) or any(T(p == r) for r in revs))
    # which revisions are replaced, and in which order the caller's mapping lists them
    nren = cx.choose("nrenames", 1, min(2, n))
    ren_idx = []
    for k in range(nren):
        i = cx.choose("renamed%d" % k, 0, n - 1)
        if i in ren_idx:
            cx.assume(False)
        ren_idx.append(i)
    targets = {i: b"R%d" % i for i in ren_idx}
    pairs = [(revs[i], targets[i]) for i in ren_idx]
    if cx.sym:
        from symx.containers import SymDict
        renames = SymDict(pairs)
    else:
        renames = dict(pairs)

    class Graph:
        @staticmethod
        def get_parent_map(keys):
            return {k: (BASE,) for k in keys}

    class PB:
        def update(self, *a):
            pass

        def finished(self):
            pass

    class UI:
        class ui_factory:
            nested_progress_bar = staticmethod(lambda: PB())
    R.ui = UI
    ancestry = [(BASE, ())] + [(r, tuple(ps)) for r, ps in zip(revs, parents)]
    plan = R.generate_transpose_plan(ancestry, renames, Graph, lambda old, ps: b"N" + old)
    items = list(plan.items())

    def idx(x):
        for i, r in enumerate(revs):
            if T(r == x):
                return i
        return None
    rewritten = []                                 # indices, parents first
    for i in range(n):
        if i in ren_idx:
            continue
        if any(idx(p) is not None and (idx(p) in ren_idx or idx(p) in rewritten) for p in parents[i]):
            rewritten.append(i)

    def mapped(p):
        j = idx(p)
        if j is None:
            return p
        if j in ren_idx:
            return targets[j]
        if j in rewritten:
            return b"N" + revs[j]
        return p
    cx.require(len(items) == len(rewritten), "the plan rewrites %d revisions, %d revisions descend from a replaced one" %
               (len(items), len(rewritten)))
    for i in rewritten:
        entry = [v for k, v in items if T(k == revs[i])]
        cx.require(len(entry) == 1, "a descendant of a replaced revision is missing from the plan")
        new, nps = entry[0]
        cx.require(T(new == b"N" + revs[i]), "new id not generated from the old id")
        want = [mapped(p) for p in parents[i]]
        cx.require(len(nps) == len(want) and all(len(a) == len(b) and T(a == b) for a, b in zip(nps, want)),
                   "new parents %r, expected %r (every replaced / rewritten parent by its new id, the others unchanged)" %
                   (list(nps), want))
    if len(rewritten) >= 2:
        cx.cover("chain_of_rewrites")
    if nren == 2 and any(any(idx(p) == ren_idx[0] or idx(p) == ren_idx[1] for p in parents[i]) for i in ren_idx):
        cx.cover("renamed_child_of_renamed")
    if rewritten:
        cx.cover("rewritten")
    cx.observe("plan", sorted(rewritten))


def obligations(tier):
    q = tier == "quick"
    p = dict(lrev=2, entries=2 if q else 3, parents=2, ltext=4 if q else 6)
    to = 900 if q else 7200
    return [
        Ob("marshall_roundtrip", ob_roundtrip, [(RB, dict(symdict=True))], p, to, 2 if q else 1, ["full"],
           bounds="<= %(entries)d entries, 0..%(parents)d parents each, ids 1..%(lrev)d arbitrary bytes except space/LF, "
                  "revno < 10^6" % p),
        Ob("header_mismatch", ob_header, [(RB, dict(symdict=True))], p, to, 1, ["rejected"],
           bounds="texts <= %(ltext)d bytes (too short to carry the header)" % p),
        Ob("simple_plan", ob_simple_plan, [(RB, dict(symdict=True))], dict(nrevs=3 if q else 4), to, 2 if q else 1,
           ["merge", "outside_merge", "chain", "fully_merged_skipped", "merged_parent_is_ancestor_of_left_parent"],
           bounds="<= %d revisions to rebase with 1..2 parents each; revisions and parents are symbolic ids (the solver "
                  "decides the shape: chains, diamonds inside the set, merges of a revision from outside), fixed common "
                  "ancestor and new base" % (3 if q else 4)),
        Ob("transpose_plan", ob_transpose_plan, [(RB, dict(symdict=True))], dict(nrevs=3 if q else 4), to, 2 if q else 1,
           ["rewritten", "chain_of_rewrites", "renamed_child_of_renamed"],
           bounds="<= %d revisions with 1..2 parents each (symbolic ids, the solver decides the shape), 1..2 of them replaced, "
                  "listed in either order" % (3 if q else 4)),
    ]
