"""Adversarial environment for one LockDir locker (shared by C26 and C27).

The transport is a *coherent* file-system state machine: our own operations
change it deterministically; before each of our operations the environment
(the other processes) may change the state of ``held/`` and may make the
operation fail with a documented transport error.  Everything the environment
does is a symbolic choice, bounded by budgets."""
from __future__ import annotations

LD = "breezy.lockdir"
OUR_NONCE = 1000


class Crash(BaseException):
    """The locking process stops here (no handler of the code under test may run for it)."""


class Info:
    """Stand-in for the Rust LockHeldInfo: a holder record."""

    def __init__(self, nonce, dead=False, label="other"):
        self.nonce = nonce
        self.dead = dead          # what is_lock_holder_known_dead() answers for this record
        self.label = label
        # the other fields of a holder record; every locker of this harness run is "the same process on the same host"
        self.pid = "4242"
        self.user = "user"
        self.hostname = "host"
        self.start_time = "1"

    def __eq__(self, o):
        if not isinstance(o, Info):
            return False
        return self.nonce == o.nonce

    def __ne__(self, o):
        r = self.__eq__(o)
        return ~r if not isinstance(r, bool) else not r

    __hash__ = None

    def to_bytes(self):
        return self

    def is_lock_holder_known_dead(self):
        return bool(self.dead)

    def __str__(self):
        return "held by %s" % self.label

    __repr__ = __str__


class _NoInfo:
    """held/ exists but its info file is gone."""

    def __repr__(self):
        return "<held/ without info>"


NOINFO = _NoInfo()


class EnvFS:
    def __init__(self, cx, held=None, interfere=0, faults=0, break_ours=False):
        self.cx = cx
        self.held = held              # None, or an Info (the content of held/info)
        self.dirs = {}                # our temporary directories: name -> Info | None (info file content)
        self.base = "mem:///"
        self.log = []                 # (op, detail) of *our* operations that succeeded
        self.removed = []             # Infos of every lock we renamed away from held/
        self.last_peek = None         # result of our last read of held/info ("absent" or Info)
        self.n = 0
        self.interfere_budget = interfere
        self.fault_budget = faults
        self.break_ours = break_ours  # may the environment break a lock that carries OUR nonce? (user intervention)
        self.env_log = []
        self.info_cls = Info
        self.crash_at = None          # index of the transport operation before which the process stops (symbolic), or None
        self.opcount = 0
        self.nrand = 0

    def _fresh(self, stem):
        self.n += 1
        return "%s%d" % (stem, self.n)

    def fresh_foreign(self):
        nonce = self.cx.int(self._fresh("nonce"))
        self.cx.assume(nonce != OUR_NONCE)          # nonces are unique
        for prev in self.__dict__.setdefault("nonces", []):
            self.cx.assume(nonce != prev)
        self.nonces.append(nonce)
        dead = bool(self.cx.choose(self._fresh("dead"), 0, 1))
        return self.info_cls(nonce, dead, "foreign%d" % self.n)

    def _is_ours(self, info):
        return info is not None and info is not NOINFO and self.cx.truth(info.nonce == OUR_NONCE)

    def _environment_step(self):
        if self.interfere_budget <= 0:
            return
        if self.held is NOINFO:
            # held/ exists but is empty: on a POSIX file system another locker's rename of its pending directory onto
            # the empty directory SUCCEEDS, i.e. the lock can be taken in this window
            if self.interfere_budget > 0 and self.cx.choose(self._fresh("env_takes_empty"), 0, 1):
                self.interfere_budget -= 1
                self.held = self.fresh_foreign()
                self.env_log.append("taken_over_empty")
            return
        ours = self._is_ours(self.held)
        if ours and not self.break_ours:
            return                    # nobody breaks the lock of a live holder
        choice = self.cx.choose(self._fresh("env"), 0, 2)
        if choice == 0:
            return
        self.interfere_budget -= 1
        if choice == 1:
            if self.held is not None:
                self.env_log.append("released/broken")
                self.held = None
            else:
                self.held = self.fresh_foreign()
                self.env_log.append("taken")
        else:
            self.held = self.fresh_foreign()      # released and immediately re-taken by somebody else
            self.env_log.append("replaced")

    def _maybe_fail(self, op):
        if self.fault_budget <= 0:
            return
        if self.cx.choose(self._fresh("fail_" + op), 0, 1):
            self.fault_budget -= 1
            from dromedary.errors import TransportError
            self.log.append(("FAULT", op))
            raise TransportError("injected failure in " + op)

    def _before(self, op):
        if self.crash_at is not None:
            if self.cx.truth(self.crash_at == self.opcount):
                self.log.append(("CRASH", op))
                raise Crash(op)
            self.opcount += 1
        self._environment_step()
        self._maybe_fail(op)

    def rand_chars(self, n):
        """fresh name for every pending / temporary directory (what the real rand_chars gives with overwhelming
        probability)"""
        self.nrand += 1
        return ("r%0" + str(n - 1) + "d") % self.nrand

    # -- transport API used by LockDir
    def mkdir(self, path, mode=None):
        self._before("mkdir")
        if path.endswith(".tmp"):
            if path in self.dirs:
                from dromedary.errors import FileExists
                raise FileExists(path)         # debris of an earlier, interrupted attempt under the same name
            self.dirs[path] = None
        self.log.append(("mkdir", path))

    def put_bytes_non_atomic(self, path, data, **kw):
        self._before("put")
        d = path.rsplit("/", 1)[0]
        self.dirs[d] = data
        self.log.append(("put", path))

    def rename(self, a, b):
        self._before("rename")
        from dromedary.errors import FileExists, NoSuchFile
        if b.endswith("/held"):
            if self.held is not None:
                raise FileExists(b)
            self.cx.require(self.dirs.get(a) is not None, "pending directory renamed into place before its info file was written")
            self.held = self.dirs.pop(a)
            self.log.append(("rename_to_held", a))
        elif a.endswith("/held"):
            if self.held is None:
                raise NoSuchFile(a)
            if self.held is not NOINFO:
                self.removed.append((self.held, self.last_peek))
            self.dirs[b] = None if self.held is NOINFO else self.held
            self.held = None
            self.log.append(("rename_from_held", b))
        else:
            raise AssertionError("unexpected rename %s -> %s" % (a, b))

    def get_bytes(self, path):
        self._before("get")
        from dromedary.errors import NoSuchFile
        if path.endswith("held/info"):
            if self.held is None or self.held is NOINFO:
                self.last_peek = "absent"
                raise NoSuchFile(path)
            self.last_peek = self.held
            return self.held
        d = path.rsplit("/", 1)[0]
        if self.dirs.get(d) is None:
            raise NoSuchFile(path)
        return self.dirs[d]

    def delete(self, path):
        self._before("delete")
        from dromedary.errors import NoSuchFile
        d = path.rsplit("/", 1)[0]
        if path.endswith("held/info"):
            if self.held is None or self.held is NOINFO:
                raise NoSuchFile(path)
            self.held = NOINFO            # held/ still exists, but without holder information
        elif d in self.dirs:
            self.dirs[d] = None
        self.log.append(("delete", path))

    def rmdir(self, path):
        self._before("rmdir")
        self.dirs.pop(path, None)
        self.log.append(("rmdir", path))

    def delete_tree(self, path):
        self.dirs.pop(path, None)

    def abspath(self, p):
        return self.base + p


class _UI:
    class ui_factory:
        shown = []

        @staticmethod
        def show_user_warning(*a, **k):
            _UI.ui_factory.shown.append((a, k))


def setup(ls):
    L = ls.modules[LD]

    class LockHeldInfo(Info):
        @staticmethod
        def for_this_process(extra):
            return LockHeldInfo(OUR_NONCE, False, "us")

        @staticmethod
        def from_info_file_bytes(b):
            return b
    L.LockHeldInfo = LockHeldInfo
    L.rand_chars = lambda n: "r" * n
    L.ui = _UI
    Info._cls = LockHeldInfo


def module(cx):
    """The lockdir module for this mode, with the environment stubs applied."""
    import importlib
    L = cx.mod(LD)
    if not cx.sym:
        # concrete replay runs the installed module: apply the same environment stubs to it
        real = importlib.import_module(LD)
        if not getattr(real, "_symx_stubbed", False):
            class LS:
                modules = {LD: real}
            setup(LS)
            real._symx_stubbed = True
    return L


def make_env(cx, interfere=0, faults=0, break_ours=False, steal_dead=False):
    L = module(cx)
    fs = EnvFS(cx, None, interfere, faults, break_ours)
    fs.info_cls = L.LockHeldInfo
    L.rand_chars = fs.rand_chars
    ld = L.LockDir(fs, "lock")
    ld.get_config = lambda: {"locks.steal_dead": steal_dead}
    return L, fs, ld
