"""A RepositoryPackCollection of the real class over record packs and an event log (shared by C04 and C06).

Packs are records (name, symbolic revision count, content = set of revision tokens).  The durable effects the real code
performs - finishing a pack, replacing pack-names, moving a pack to obsolete_packs - are appended to ``env.events`` in the
order they happen; ``env.disk['names']`` is the current content of the pack-names file."""
PR = "breezy.bzr.pack_repo"


class Agg:
    """aggregate index stand-in: counts the revisions of the packs that are in memory"""
    def __init__(self, coll):
        self.coll = coll
        self.combined_index = self

    def add_index(self, index, pack):
        pass

    def remove_index(self, index):
        pass

    def key_count(self):
        t = 0
        for p in self.coll.packs:
            t = t + p.count
        return t


class Pack:
    def __init__(self, name, count, content, events):
        self.name, self.count, self.content = name, count, set(content)
        self.index_sizes = [1, 1, 1, 1]
        self.revision_index = self.inventory_index = self.text_index = self.signature_index = self.chk_index = object()
        self.events = events
        outer = self

        class PT:
            @staticmethod
            def move(a, b):
                events.append(("obsolete", outer.name))

            @staticmethod
            def mkdir(d):
                pass
        self.pack_transport = PT

    def get_revision_count(self):
        return self.count

    def file_name(self):
        return self.name + ".pack"

    def __lt__(self, other):
        return self.name < other.name


class WritablePack(Pack):
    """the pack of an open write group (NewPack / ResumedPack stand-in)"""
    def __init__(self, name, count, content, events, inserted=True):
        Pack.__init__(self, name, count, content, events)
        self.inserted = inserted

    def data_inserted(self):
        return self.inserted

    def finish(self, suspend=False):
        self.events.append(("suspend" if suspend else "finish", self.name))

    def abort(self):
        self.events.append(("abort", self.name))


class Env:
    pass


def build(cx, npacks, maxcount):
    R = cx.mod(PR)
    env = Env()
    env.R = R
    coll = env.coll = object.__new__(R.RepositoryPackCollection)
    events = env.events = []
    n = cx.choose("existing_packs", 0, npacks)
    packs = env.packs = [Pack("p%d" % i, cx.int("count%d" % i, 1, maxcount), {"old%d" % i}, events) for i in range(n)]
    coll.packs = []
    coll._packs_by_name = {}
    coll._names = {}
    for nm in ("revision_index", "inventory_index", "text_index", "signature_index"):
        setattr(coll, nm, Agg(coll))
    coll.chk_index = None
    for p in packs:
        coll._names[p.name] = tuple(p.index_sizes)
        coll.add_pack_to_memory(p)
    disk = env.disk = {"names": [(p.name, b"1 1 1 1") for p in packs]}
    coll._packs_at_load = set(disk["names"])
    coll._iter_disk_pack_index = lambda: [(None, (nm.encode("ascii"),), v) for nm, v in disk["names"]]

    class Builder:
        def __init__(self):
            self.nodes = []

        def add_node(self, key, value):
            self.nodes.append((key[0].decode("ascii"), value))

        def finish(self):
            return list(self.nodes)
    coll._index_builder_class = Builder

    class ObsT:
        @staticmethod
        def list_dir(d):
            return []

        @staticmethod
        def delete(f):
            pass

    class T:
        @staticmethod
        def put_file(name, f, mode=None):
            disk["names"] = list(f)
            events.append(("names", sorted(nm for nm, _v in f)))

        @staticmethod
        def clone(sub):
            return ObsT
    coll.transport = T

    class IdxT:
        @staticmethod
        def move(a, b):
            pass
    coll._index_transport = IdxT
    coll.lock_names = lambda: None
    coll._unlock_names = lambda: None

    class VF:
        @staticmethod
        def get_missing_compression_parent_keys():
            return []

    class Repo:
        revisions = inventories = texts = signatures = VF

        class controldir:
            _get_file_mode = staticmethod(lambda: None)

        class _format:
            pack_compresses = False
        is_locked = staticmethod(lambda: True)
    coll.repo = Repo
    coll._check_new_inventories = lambda: []
    coll._resumed_packs = []
    coll._restart_autopack = lambda: None
    coll._new_pack = None

    class Packer:
        def __init__(self, collection, to_combine, suffix, reload_func=None):
            self.collection, self.to_combine = collection, list(to_combine)
            self.new_pack = None

        def pack(self):
            total = 0
            content = set()
            for p in self.to_combine:
                total = total + p.count
                content |= p.content
            self.new_pack = Pack("auto%d" % len([e for e in events if e[0] == "finish"]), total, content, events)
            events.append(("finish", self.new_pack.name))
            self.collection.allocate(self.new_pack)
            env.by_name[self.new_pack.name] = self.new_pack
            return self.new_pack
    coll.normal_packer_class = Packer
    env.by_name = {p.name: p for p in packs}
    env.old_content = set()
    for p in packs:
        env.old_content |= p.content
    return env


def check_every_crash_point(cx, env, new_content):
    """After every prefix of the recorded effects the pack list names only complete, present packs and the listed packs
    hold exactly the old or exactly the new set of revisions."""
    events, packs, by_name = env.events, env.packs, env.by_name
    for k in range(len(events) + 1):
        pre = events[:k]
        listed = sorted(p.name for p in packs)
        for e in pre:
            if e[0] == "names":
                listed = e[1]
        available = set(p.name for p in packs) | set(e[1] for e in pre if e[0] == "finish")
        gone = set(e[1] for e in pre if e[0] == "obsolete")
        if k < len(events) and events[k][0] == "finish":
            # finish() writes indices/<name>.* and packs/<name>.pack in place: it must never do that to a pack that
            # pack-names lists at this moment (a crash inside the write would leave a listed pack unreadable)
            cx.require(events[k][1] not in listed, "after %d effect(s) a pack is finished under the name %s, which pack-names "
                       "lists as a live pack: its index and pack files are rewritten in place" % (k, events[k][1]))
        for nm in listed:
            cx.require(nm in available and nm not in gone,
                       "after %d effect(s) %r the pack list names pack %s, which is %s" %
                       (k, pre, nm, "already moved to obsolete_packs" if nm in gone else "not complete in packs/"))
        content = set()
        for nm in listed:
            content |= by_name[nm].content
        cx.require(content == env.old_content or content == new_content,
                   "after %d effect(s) the listed packs hold %r: neither the old nor the new set of revisions" % (k, sorted(content)))


def listed_content(env):
    content = set()
    for nm, _v in env.disk["names"]:
        content |= env.by_name[nm].content
    return content
