"""Shared harnesses for C29 (messages survive the wire) and C30 (never wait for
bytes beyond the current message).  ``what`` selects which assertions are made:
"content" (C29), "readsize" (C30).  The driver code is identical so that both
properties are decided on exactly the same executions of the real code."""
from __future__ import annotations

PROTO = "breezy.bzr.smart.protocol"
MSG = "breezy.bzr.smart.message"
MED = "breezy.bzr.smart.medium"
REQ = "breezy.bzr.smart.request"
VFS = "breezy.bzr.smart.vfs"

LIFT_ALL = [REQ, MSG, PROTO, MED]

FUNCTIONS = [
    PROTO + ":_encode_tuple", PROTO + ":_decode_tuple",
    PROTO + ":SmartProtocolBase._encode_bulk_data", PROTO + ":SmartProtocolBase._serialise_offsets",
    PROTO + ":_send_stream", PROTO + ":_send_chunks",
    PROTO + ":_StatefulDecoder.accept_bytes", PROTO + ":_StatefulDecoder._get_in_buffer",
    PROTO + ":_StatefulDecoder._get_in_bytes", PROTO + ":_StatefulDecoder._set_in_buffer",
    PROTO + ":LengthPrefixedBodyDecoder", PROTO + ":ChunkedBodyDecoder",
    PROTO + ":SmartServerRequestProtocolOne", PROTO + ":SmartServerRequestProtocolTwo",
    PROTO + ":SmartClientRequestProtocolOne", PROTO + ":SmartClientRequestProtocolTwo",
    PROTO + ":ProtocolThreeDecoder", PROTO + ":_ProtocolThreeEncoder",
    PROTO + ":ProtocolThreeRequester", PROTO + ":ProtocolThreeResponder", PROTO + ":build_server_protocol_three",
    MSG + ":ConventionalRequestHandler", MSG + ":ConventionalResponseHandler",
    MED + ":_get_line", MED + ":_get_protocol_factory_for_bytes", MED + ":SmartMedium.read_bytes",
    MED + ":SmartServerStreamMedium._build_protocol",
    MED + ":SmartServerPipeStreamMedium._serve_one_request_unguarded",
    MED + ":SmartClientMediumRequest", MED + ":SmartClientStreamMediumRequest",
    REQ + ":SmartServerRequestHandler", VFS + ":ReadvRequest._deserialise_offsets",
]

STUBS = [
    "request registry: one recording verb 'rec' (do/do_body/do_chunk record what they are given); "
    "the real SmartServerRequestHandler dispatches to it",
    "client medium: subclass of the real SmartClientStreamMedium whose _read_bytes serves the encoded response from "
    "memory, may return fewer bytes than asked (symbolic short reads, bounded number) and records over-reads",
    "server pipe: file-like stub with the same short-read behaviour",
    "bencode (fastbencode, compiled) runs natively on concrete v3 argument tuples and headers",
    "trace/log functions run natively (no symbolic arguments reach them)",
]

ASSUMPTIONS = [
    "v1/v2 argument strings contain no 0x01 and no 0x0A (documented restriction, network-protocol.txt)",
    "v1/v2/v3 verbs and v3 argument tuples / headers are concrete (they pass through compiled bencode or a registry "
    "lookup); bodies, stream chunks, trailing bytes, readv offsets and v1/v2 arguments are symbolic",
    "a read from a pipe/socket returns between 1 and the requested number of bytes",
]

OUTSIDE = [
    "messages larger than the per-obligation bounds", "symbolic bencoded structures", "socket/HTTP media and real I/O",
    "more than the stated number of short reads per message",
]


class _Rec:
    """What the recording verb saw on the current path."""
    log = None


_CMD_CACHE = {}


def _registry_for(R):
    key = id(R)
    if key in _CMD_CACHE:
        return _CMD_CACHE[key]
    from breezy import registry

    class RecRequest(R.SmartServerRequest):
        def do(self, *args):
            _Rec.log.append(("args", args))
            return None

        def do_chunk(self, chunk):
            _Rec.log.append(("chunk", chunk))
            R.SmartServerRequest.do_chunk(self, chunk)

        def do_body(self, body):
            _Rec.log.append(("body", body))
            return R.SuccessfulSmartServerResponse((b"ok",))

    class NoBodyRequest(R.SmartServerRequest):
        def do(self, *args):
            _Rec.log.append(("args", args))
            return R.SuccessfulSmartServerResponse((b"ok",))

    reg = registry.Registry()
    reg.register(b"rec", RecRequest)
    reg.register(b"nob", NoBodyRequest)
    _CMD_CACHE[key] = reg
    return reg


def install(cx):
    """Point the request module used on this path at the recording registry."""
    R = cx.mod(REQ)
    R.request_handlers = _registry_for(R)
    _Rec.log = []
    if not getattr(R.SmartServerRequestHandler, "_symx_wrapped", False):
        orig = R.SmartServerRequestHandler.post_body_error_received

        def post_body_error_received(self, error_args):
            _Rec.log.append(("post_body_error", tuple(error_args)))
            return orig(self, error_args)
        R.SmartServerRequestHandler.post_body_error_received = post_body_error_received
        R.SmartServerRequestHandler._symx_wrapped = True
    return R


def no_sep(cx, b):
    """v1/v2 argument alphabet: no 0x01, no newline."""
    for x in b:
        cx.assume((x != 1) & (x != 10) if cx.sym else (x != 1 and x != 10))


def _ne(cx, a, b):
    return a != b


def sym_args(cx, prefix, nmax, lmax):
    n = cx.choose(prefix + ".n", 0, nmax)
    out = []
    for i in range(n):
        l = cx.choose("%s.l%d" % (prefix, i), 0, lmax)
        a = cx.bytes("%s.a%d" % (prefix, i), l)
        no_sep(cx, a)
        out.append(a)
    return out


def cuts(cx, total, ncuts):
    """Every segmentation of ``total`` bytes into ncuts+1 consecutive reads (empty reads included)."""
    pts = []
    lo = 0
    for i in range(ncuts):
        lo = cx.choose("cut%d" % i, lo, total)
        pts.append(lo)
    return [0] + pts + [total]


def feed(cx, what, enc, msg_len, ncuts, accept, next_read_size, finished, idle_max, drain=None):
    """Feed ``enc`` (message of msg_len bytes followed by trailing bytes) in
    ncuts+1 segments, checking the read-size obligation before every read."""
    pts = cuts(cx, len(enc), ncuts)
    fed = 0
    for i in range(len(pts) - 1):
        seg = enc[pts[i]:pts[i + 1]]
        if what == "readsize":
            nrs = next_read_size()
            if fed < msg_len:
                cx.require(nrs > 0, "next_read_size() == %r while %d bytes of the message are outstanding" % (nrs, msg_len - fed))
                cx.require(nrs <= msg_len - fed,
                           "next_read_size() == %r exceeds the %d bytes remaining in the message" % (nrs, msg_len - fed))
            else:
                cx.require(nrs <= idle_max, "next_read_size() == %r after the message ended" % (nrs,))
        accept(seg)
        fed += len(seg)
        if drain:
            drain()
        if what == "readsize":
            cx.require(bool(finished()) == (fed >= msg_len),
                       "finished=%r after %d of %d message bytes" % (bool(finished()), fed, msg_len))
    return fed


# --------------------------------------------------------------------------- obligations
def ob_tuple(cx):
    P = cx.mod(PROTO)
    args = [cx.bytes("verb", cx.choose("lv", 1, cx.p("larg")))] + sym_args(cx, "arg", cx.p("nargs"), cx.p("larg"))
    no_sep(cx, args[0])
    enc = P._encode_tuple(tuple(args))
    dec = P._decode_tuple(enc)
    cx.require(len(dec) == len(args), "tuple arity changed")
    for a, b in zip(dec, args):
        cx.require(a == b, "tuple element changed")
    cx.observe("dec", dec)
    cx.cover("decoded")


def ob_length_prefixed(cx, what):
    P = cx.mod(PROTO)
    body = cx.bytes("body", cx.choose("nb", 0, cx.p("nbody")))
    tail = cx.bytes("tail", cx.choose("nt", 0, cx.p("ntail")))
    enc = P.SmartProtocolBase()._encode_bulk_data(body) + tail
    msg_len = len(enc) - len(tail)
    d = P.LengthPrefixedBodyDecoder()
    got = [b""]

    def drain():
        got[0] = got[0] + d.read_pending_data()
    feed(cx, what, enc, msg_len, cx.p("ncuts"), d.accept_bytes, d.next_read_size, lambda: d.finished_reading, 1, drain)
    if what == "content":
        cx.require(d.finished_reading, "decoder not finished after the whole message")
        cx.require(got[0] == body, "decoded body differs")
        cx.require(d.unused_data == tail, "bytes after the message not preserved")
    cx.observe("body", got[0])
    cx.observe("unused", d.unused_data)
    if len(body) and len(tail):
        cx.cover("body+tail")


def ob_chunked(cx, what):
    P = cx.mod(PROTO)
    R = cx.mod(REQ)
    nc = cx.choose("nc", 0, cx.p("nchunks"))
    chunks = [cx.bytes("chunk%d" % j, cx.choose("lc%d" % j, 0, cx.p("lchunk"))) for j in range(nc)]
    stream = list(chunks)
    err_args = None
    if cx.p("errors") and cx.choose("err", 0, 1):
        ne = cx.choose("ne", 0, 2)
        err_args = tuple(cx.bytes("err%d" % j, cx.choose("le%d" % j, 0, cx.p("lchunk"))) for j in range(ne))
        stream.append(R.FailedSmartServerResponse(err_args))
        stream.append(b"never sent")
    tail = cx.bytes("tail", cx.choose("nt", 0, cx.p("ntail")))
    out = []
    P._send_stream(iter(stream), out.append)
    enc = b""
    for o in out:
        enc = enc + o
    msg_len = len(enc)
    enc = enc + tail
    d = P.ChunkedBodyDecoder()
    got = []

    def drain():
        while True:
            c = d.read_next_chunk()
            if c is None:
                break
            got.append(c)
    feed(cx, what, enc, msg_len, cx.p("ncuts"), d.accept_bytes, d.next_read_size, lambda: d.finished_reading, 1, drain)
    if what == "content":
        cx.require(d.finished_reading, "decoder not finished after the whole stream")
        want = len(chunks) + (1 if err_args is not None else 0)
        cx.require(len(got) == want, "chunk count %d != %d" % (len(got), want))
        for a, b in zip(got, chunks):
            cx.require(a == b, "chunk content differs")
        if err_args is not None:
            last = got[-1]
            cx.require(isinstance(last, R.FailedSmartServerResponse), "error not delivered as a failed response")
            cx.require(len(last.args) == len(err_args), "error arity differs")
            for a, b in zip(last.args, err_args):
                cx.require(a == b, "error argument differs")
        cx.require(d.unused_data == tail, "bytes after the stream not preserved")
    cx.observe("chunks", [c if isinstance(c, bytes) or not hasattr(c, "args") else ("ERR", c.args) for c in got])
    cx.observe("unused", d.unused_data)
    if nc and len(tail):
        cx.cover("chunks+tail")
    if err_args is not None:
        cx.cover("error")


def ob_offsets(cx, enc_kind):
    P = cx.mod(PROTO)
    V = cx.mod(VFS)
    n = cx.choose("n", 0, cx.p("npairs"))
    offs = [(cx.int("s%d" % i, 0, cx.p("maxoff")), cx.int("l%d" % i, 0, cx.p("maxoff"))) for i in range(n)]
    if enc_kind == "v12":
        ser = P.SmartProtocolBase()._serialise_offsets(offs)
    else:
        ser = P._ProtocolThreeEncoder(None)._serialise_offsets(offs)
    req = V.ReadvRequest.__new__(V.ReadvRequest)
    back = req._deserialise_offsets(ser)
    cx.require(len(back) == n, "number of readv offsets changed")
    for (a, b), (c, d) in zip(back, offs):
        cx.require(a == c, "readv start changed")
        cx.require(b == d, "readv length changed")
    cx.observe("back", back)
    if n:
        cx.cover("nonempty")


class _Collect:
    """Stands in for the client's medium request on the sending side."""

    def __init__(self):
        self.parts = []
        self.finished = False

    def accept_bytes(self, b):
        self.parts.append(b)

    def finished_writing(self):
        self.finished = True

    def finished_reading(self):
        pass

    def joined(self):
        enc = b""
        for p in self.parts:
            enc = enc + p
        return enc


def ob_v12_request(cx, what, version):
    """client v1/v2 request encoder -> server v1/v2 protocol + real request handler."""
    P = cx.mod(PROTO)
    install(cx)
    args = sym_args(cx, "arg", cx.p("nargs"), cx.p("larg"))
    with_body = cx.choose("with_body", 0, 1)
    readv = with_body and cx.p("readv") and cx.choose("readv", 0, 1)
    col = _Collect()
    client = (P.SmartClientRequestProtocolOne if version == 1 else P.SmartClientRequestProtocolTwo)(col)
    if readv:
        offs = [(cx.int("s", 0, cx.p("maxoff")), cx.int("l", 0, cx.p("maxoff")))]
        body = P.SmartProtocolBase()._serialise_offsets(offs)
        client.call_with_body_readv_array((b"rec",) + tuple(args), offs)
    elif with_body:
        body = cx.bytes("body", cx.choose("nb", 0, cx.p("nbody")))
        client.call_with_body_bytes((b"rec",) + tuple(args), body)
    else:
        body = None
        client.call(b"nob", *args)
    enc = col.joined()
    if version == 2:
        cx.require(enc.startswith(P.REQUEST_VERSION_TWO), "v2 request does not start with its marker")
        enc = enc[len(P.REQUEST_VERSION_TWO):]
    tail = cx.bytes("tail", cx.choose("nt", 0, cx.p("ntail")))
    msg_len = len(enc)
    enc = enc + tail
    written = []
    server = (P.SmartServerRequestProtocolOne if version == 1 else P.SmartServerRequestProtocolTwo)(
        None, written.append)
    feed(cx, what, enc, msg_len, cx.p("ncuts"), server.accept_bytes, server.next_read_size,
         lambda: server._finished, 0)
    log = _Rec.log
    if what == "content":
        cx.require(len(log) >= 1 and log[0][0] == "args", "request handler never received the arguments")
        got_args = log[0][1]
        cx.require(len(got_args) == len(args), "argument count changed")
        for a, b in zip(got_args, args):
            cx.require(a == b, "argument changed")
        if with_body:
            bodies = [e[1] for e in log if e[0] == "body"]
            cx.require(len(bodies) == 1, "body delivered %d times" % len(bodies))
            cx.require(bodies[0] == body, "request body changed")
        cx.require(server.unused_data == tail, "bytes after the request not preserved")
        cx.require(len(written) > 0, "no response written")
    cx.observe("log", [(k, v) for k, v in log if k != "chunk"])
    cx.observe("unused", server.unused_data)
    cx.cover("body" if with_body else "nobody")
    if readv:
        cx.cover("readv")


def _short_reader(cx, state, count, label):
    """How many bytes a read of ``count`` returns: all that is available up to
    count, or (while the short-read budget lasts) any smaller positive number."""
    avail = min(count, len(state["buf"]) - state["pos"])
    if avail <= 0:
        return 0
    n = avail
    if state["short"] > 0 and avail > 1:
        n = cx.choose("%s.read%d" % (label, state["nreads"]), 1, avail)
        if n < avail:
            state["short"] -= 1
    state["nreads"] += 1
    return n


def make_client_medium(cx, data, msg_len, short):
    """A client stream medium (real base classes) serving ``data`` from memory."""
    M = cx.mod(MED)
    state = {"buf": data, "pos": 0, "short": short, "nreads": 0, "over": None, "sent": []}

    class MemMedium(M.SmartClientStreamMedium):
        def __init__(self):
            M.SmartClientStreamMedium.__init__(self, "mem:///")

        def _accept_bytes(self, b):
            state["sent"].append(b)

        def _flush(self):
            pass

        def _read_bytes(self, count):
            remaining = msg_len - state["pos"]
            if count > remaining and state["over"] is None:
                state["over"] = (count, remaining)
            n = _short_reader(cx, state, count, "c")
            r = state["buf"][state["pos"]:state["pos"] + n]
            state["pos"] += n
            return r

        def disconnect(self):
            pass

    return MemMedium(), state


def _check_reads(cx, what, state, msg_len):
    if what == "readsize":
        cx.require(state["over"] is None,
                   "client asked the medium for %r bytes with only %r left in the message" % (state["over"] or (0, 0)))
        cx.require(state["pos"] == msg_len, "client consumed %d bytes of a %d byte message" % (state["pos"], msg_len))


def ob_v12_response(cx, what, version):
    """server v1/v2 response encoder -> client v1/v2 decoder via the real medium request classes."""
    P = cx.mod(PROTO)
    R = cx.mod(REQ)
    arg = cx.bytes("rarg", cx.choose("la", 0, cx.p("larg")))
    no_sep(cx, arg)
    kind = cx.pick("kind", ["none", "body"] + (["stream"] if version == 2 else []))
    failed = version == 2 and cx.choose("failed", 0, 1)
    body = chunks = None
    err_args = None
    if kind == "body":
        body = cx.bytes("body", cx.choose("nb", 0, cx.p("nbody")))
    elif kind == "stream":
        nc = cx.choose("nc", 0, cx.p("nchunks"))
        chunks = [cx.bytes("chunk%d" % j, cx.choose("lc%d" % j, 0, cx.p("lchunk"))) for j in range(nc)]
        if cx.choose("err", 0, 1):
            err_args = (cx.bytes("err0", cx.choose("le", 0, cx.p("lchunk"))),)
    cls = R.FailedSmartServerResponse if failed else R.SuccessfulSmartServerResponse
    stream = None
    if chunks is not None:
        stream = list(chunks) + ([R.FailedSmartServerResponse(err_args)] if err_args is not None else [])
    resp = cls((b"ok", arg), body, iter(stream) if stream is not None else None)
    written = []
    server = (P.SmartServerRequestProtocolOne if version == 1 else P.SmartServerRequestProtocolTwo)(
        None, written.append)
    server._send_response(resp)
    enc = b""
    for w in written:
        enc = enc + w
    msg_len = len(enc)
    tail = cx.bytes("tail", cx.choose("nt", 0, cx.p("ntail")))
    medium, state = make_client_medium(cx, enc + tail, msg_len, cx.p("short"))
    req = medium.get_request()
    client = (P.SmartClientRequestProtocolOne if version == 1 else P.SmartClientRequestProtocolTwo)(req)
    client.call(b"rec")
    T = cx.real("dromedary.errors")
    got_err = None
    result = None
    try:
        result = client.read_response_tuple(expect_body=(kind != "none"))
    except T.ErrorFromSmartServer as e:
        got_err = e.error_tuple
    got_body = got_chunks = None
    if got_err is None:
        if kind == "body":
            got_body = client.read_body_bytes()
        elif kind == "stream":
            got_chunks = list(client.read_streamed_body())
    if what == "content":
        if failed:
            cx.require(got_err is not None, "failed response not raised as an error")
            cx.require(len(got_err) == 2 and got_err[0] == b"ok", "error tuple verb changed")
            cx.require(got_err[1] == arg, "error tuple argument changed")
        else:
            cx.require(got_err is None, "successful response raised")
            cx.require(len(result) == 2 and result[0] == b"ok", "response verb changed")
            cx.require(result[1] == arg, "response argument changed")
            if kind == "body":
                cx.require(got_body == body, "response body changed")
            elif kind == "stream":
                want = len(chunks) + (1 if err_args is not None else 0)
                cx.require(len(got_chunks) == want, "stream chunk count %d != %d" % (len(got_chunks), want))
                for a, b in zip(got_chunks, chunks):
                    cx.require(a == b, "stream chunk changed")
                if err_args is not None:
                    last = got_chunks[-1]
                    cx.require(isinstance(last, R.FailedSmartServerResponse), "stream error not delivered")
                    cx.require(len(last.args) == 1 and last.args[0] == err_args[0], "stream error argument changed")
            rest = state["buf"][state["pos"]:]
            cx.require(rest == tail, "bytes after the response were consumed or altered")
    if not failed:
        _check_reads(cx, what, state, msg_len)
    cx.observe("result", result)
    cx.observe("err", got_err)
    cx.observe("body", got_body)
    cx.observe("nchunks", None if got_chunks is None else len(got_chunks))
    cx.cover(kind)
    if failed:
        cx.cover("failed")


def _v3_args(cx):
    return cx.pick("v3args", [(), (b"a",), (b"path/to", b"\x01\n")])


def ob_v3_request(cx, what):
    """v3 requester -> v3 decoder + ConventionalRequestHandler + real request handler."""
    P = cx.mod(PROTO)
    install(cx)
    args = _v3_args(cx)
    kind = cx.pick("kind", ["none", "body", "stream", "unexpected_body"] + (["readv"] if cx.p("readv") else []))
    col = _Collect()
    rq = P.ProtocolThreeRequester(col)
    rq.set_headers({b"Software version": b"x"})
    body = chunks = None
    stream_fails = False
    if kind == "none":
        rq.call(b"nob", *args)
    elif kind == "body":
        body = cx.bytes("body", cx.choose("nb", 0, cx.p("nbody")))
        rq.call_with_body_bytes((b"rec",) + args, body)
    elif kind == "unexpected_body":
        # a well-framed request carrying a body for a verb that has already answered: the message handler
        # rejects the bytes part, the decoder must still follow the framing to the end of the message
        body = cx.bytes("body", cx.choose("nb", 0, cx.p("nbody")))
        rq.call_with_body_bytes((b"nob",) + args, body)
    elif kind == "readv":
        offs = [(cx.int("s", 0, cx.p("maxoff")), cx.int("l", 0, cx.p("maxoff")))]
        body = P.SmartProtocolBase()._serialise_offsets(offs)
        rq.call_with_body_readv_array((b"rec",) + args, offs)
    else:
        nc = cx.choose("nc", 0, cx.p("nchunks"))
        chunks = [cx.bytes("chunk%d" % j, cx.choose("lc%d" % j, 0, cx.p("lchunk"))) for j in range(nc)]
        stream_fails = bool(cx.choose("sfail", 0, 1))

        def gen():
            for c in chunks:
                yield c
            if stream_fails:
                raise RuntimeError("stream source failed")
        try:
            rq.call_with_body_stream((b"rec",) + args, gen())
        except RuntimeError:
            pass
    enc = col.joined()
    cx.require(enc.startswith(P.MESSAGE_VERSION_THREE), "v3 request does not start with its marker")
    enc = enc[len(P.MESSAGE_VERSION_THREE):]
    tail = cx.bytes("tail", cx.choose("nt", 0, cx.p("ntail")))
    msg_len = len(enc)
    written = []
    dec = P.build_server_protocol_three(None, written.append, "/")
    feed(cx, what, enc + tail, msg_len, cx.p("ncuts"), dec.accept_bytes, dec.next_read_size,
         lambda: dec.state_accept == dec._state_accept_reading_unused, 0)
    log = _Rec.log
    if what == "content":
        cx.require(len(log) >= 1 and log[0][0] == "args", "request handler never received the arguments")
        cx.require(tuple(log[0][1]) == tuple(args), "v3 arguments changed")
        if kind in ("body", "readv"):
            bodies = [e[1] for e in log if e[0] == "body"]
            cx.require(len(bodies) == 1, "body delivered %d times" % len(bodies))
            cx.require(bodies[0] == body, "request body changed")
        if kind == "stream":
            got = [e[1] for e in log if e[0] == "chunk"]
            cx.require(len(got) == len(chunks), "stream chunk count changed")
            for a, b in zip(got, chunks):
                cx.require(a == b, "stream chunk changed")
            errs = [e[1] for e in log if e[0] == "post_body_error"]
            if stream_fails:
                cx.require(errs == [(b"error",)], "client-side stream failure not delivered as a post-body error")
            else:
                cx.require(not errs, "spurious post-body error")
        cx.require(dec.unused_data == tail, "bytes after the request not preserved")
        cx.require(len(written) > 0, "no response written")
    cx.observe("log", list(log))
    cx.observe("unused", dec.unused_data)
    cx.cover(kind)
    if stream_fails:
        cx.cover("stream_fails")


class _AnyHandler:
    """A message handler that accepts every part (the decoder's framing alone is under test)."""
    def __init__(self):
        self.got = []

    def headers_received(self, headers):
        self.got.append(("headers", headers))

    def byte_part_received(self, byte):
        self.got.append(("o", byte))

    def bytes_part_received(self, data):
        self.got.append(("b", data))

    def structure_part_received(self, structure):
        self.got.append(("s", structure))

    def end_received(self):
        self.got.append(("end",))

    def protocol_error(self, exception):
        self.got.append(("protocol_error",))
        raise exception


def ob_v3_grammar(cx, what):
    """Any message the v3 grammar allows (doc/developers/network-protocol.txt: headers, then any sequence of one-byte,
    bytes and structure parts, then 'e') - not only the shapes breezy's own encoders emit - through the bare decoder:
    parts are delivered unchanged, and the decoder never asks for more bytes than the message still has."""
    P = cx.mod(PROTO)
    import struct
    nparts = cx.choose("nparts", 0, cx.p("nparts"))
    enc = struct.pack("!L", 2) + b"de"
    want = []
    for i in range(nparts):
        kind = cx.pick("part%d" % i, ["o", "b", "s"])
        if kind == "o":
            byte = cx.bytes("byte%d" % i, 1)
            enc = enc + b"o" + byte
            want.append(("o", byte))
        elif kind == "b":
            data = cx.bytes("data%d" % i, cx.choose("ldata%d" % i, 0, cx.p("lchunk")))
            enc = enc + b"b" + struct.pack("!L", len(data)) + data
            want.append(("b", data))
        else:
            enc = enc + b"s" + struct.pack("!L", 5) + b"l1:ae"
            want.append(("s", (b"a",)))
    enc = enc + b"e"
    tail = cx.bytes("tail", cx.choose("nt", 0, cx.p("ntail")))
    msg_len = len(enc)
    h = _AnyHandler()
    dec = P.ProtocolThreeDecoder(h, expect_version_marker=False)
    feed(cx, what, enc + tail, msg_len, cx.p("ncuts"), dec.accept_bytes, dec.next_read_size,
         lambda: dec.state_accept == dec._state_accept_reading_unused, 0)
    if what == "content":
        parts = [g for g in h.got if g[0] in ("o", "b", "s")]
        cx.require(len(parts) == len(want), "decoder delivered %d parts, the message has %d" % (len(parts), len(want)))
        for g, w in zip(parts, want):
            cx.require(g[0] == w[0] and (tuple(g[1]) == tuple(w[1]) if w[0] == "s" else g[1] == w[1]), "message part changed")
        cx.require(h.got and h.got[0][0] == "headers" and h.got[-1] == ("end",), "headers / end of message not reported")
        cx.require(dec.unused_data == tail, "bytes after the message not preserved")
    cx.observe("got", [g[0] for g in h.got])
    cx.observe("unused", dec.unused_data)
    if want and want[-1][0] == "o":
        cx.cover("ends_with_byte_part")
    if nparts == cx.p("nparts"):
        cx.cover("full")


def ob_v3_response(cx, what):
    """v3 responder -> v3 decoder + ConventionalResponseHandler._read_more over a short-reading medium."""
    P = cx.mod(PROTO)
    R = cx.mod(REQ)
    MG = cx.mod(MSG)
    args = (b"ok",) + _v3_args(cx)
    kind = cx.pick("kind", ["none", "body", "stream"])
    failed = bool(cx.choose("failed", 0, 1)) if kind == "none" else False
    body = chunks = None
    err_args = None
    raises = False
    if kind == "body":
        body = cx.bytes("body", cx.choose("nb", 0, cx.p("nbody")))
    elif kind == "stream":
        nc = cx.choose("nc", 0, cx.p("nchunks"))
        chunks = [cx.bytes("chunk%d" % j, cx.choose("lc%d" % j, 0, cx.p("lchunk"))) for j in range(nc)]
        end = cx.pick("end", ["ok", "failed", "raises"])
        if end == "failed":
            err_args = (b"SomeErr", b"x")
        raises = end == "raises"
        # class of the defect repaired by the "fix:" commit recorded in known_findings.json (suppresses nothing
        # unless it is listed there as an open finding)
        cx.known("C29-v3-stream-error-before-first-chunk", nc == 0 and end != "ok")

    def gen():
        for c in chunks:
            yield c
        if err_args is not None:
            yield R.FailedSmartServerResponse(err_args)
        if raises:
            raise RuntimeError("boom")
    cls = R.FailedSmartServerResponse if failed else R.SuccessfulSmartServerResponse
    resp = cls(args, body, gen() if chunks is not None else None)
    written = []
    P.ProtocolThreeResponder(written.append).send_response(resp)
    enc = b""
    for w in written:
        enc = enc + w
    msg_len = len(enc)
    tail = cx.bytes("tail", cx.choose("nt", 0, cx.p("ntail")))
    medium, state = make_client_medium(cx, enc + tail, msg_len, cx.p("short"))
    req = medium.get_request()
    req.finished_writing()
    handler = MG.ConventionalResponseHandler()
    dec = P.ProtocolThreeDecoder(handler, expect_version_marker=True)
    handler.setProtoAndMediumRequest(dec, req)
    T = cx.real("dromedary.errors")
    result = got_body = got_chunks = None
    got_err = None
    try:
        result = handler.read_response_tuple(expect_body=(kind != "none"))
        if kind == "body":
            got_body = handler.read_body_bytes()
        elif kind == "stream":
            got_chunks = []
            for c in handler.read_streamed_body():
                got_chunks.append(c)
    except T.ErrorFromSmartServer as e:
        got_err = e.error_tuple
    except (P.SmartMessageHandlerError, T.SmartProtocolError):
        if what != "readsize":
            raise
        # a decoding failure is C29's business; C30 still requires that nothing was over-read
        cx.require(state["over"] is None, "client over-read before failing to decode")
        cx.cover("decode_failed")
        return
    if what == "content":
        if failed:
            cx.require(got_err is not None and tuple(got_err) == args, "failed response not raised with its arguments")
        elif kind == "stream" and (err_args is not None or raises):
            cx.require(got_err is not None, "mid-stream error not raised")
            if err_args is not None:
                cx.require(tuple(got_err) == err_args, "mid-stream error arguments changed")
            cx.require(len(got_chunks) == len(chunks), "chunks before the error lost")
            for a, b in zip(got_chunks, chunks):
                cx.require(a == b, "stream chunk changed")
        else:
            cx.require(got_err is None, "successful response raised")
            cx.require(tuple(result) == args, "response arguments changed")
            if kind == "body":
                cx.require(got_body == body, "response body changed")
            if kind == "stream":
                cx.require(len(got_chunks) == len(chunks), "stream chunk count changed")
                for a, b in zip(got_chunks, chunks):
                    cx.require(a == b, "stream chunk changed")
        cx.require(handler.finished_reading, "handler not finished after the whole response")
        rest = state["buf"][state["pos"]:]
        cx.require(dec.unused_data + rest == tail, "bytes after the response were consumed or altered")
    _check_reads(cx, what, state, msg_len)
    cx.observe("result", result)
    cx.observe("err", got_err)
    cx.observe("body", got_body)
    cx.observe("chunks", got_chunks)
    cx.cover(kind)
    if failed:
        cx.cover("failed")
    if raises:
        cx.cover("raises")


def ob_pipe_server(cx, what):
    """The real pipe medium serving one request of each protocol version from a short-reading pipe."""
    P = cx.mod(PROTO)
    M = cx.mod(MED)
    install(cx)
    version = cx.pick("version", [1, 2, 3])
    col = _Collect()
    with_body = bool(cx.choose("with_body", 0, 1))
    body = cx.bytes("body", cx.choose("nb", 0, cx.p("nbody"))) if with_body else None
    if version == 3:
        rq = P.ProtocolThreeRequester(col)
        args = ()
        if with_body:
            rq.call_with_body_bytes((b"rec",), body)
        else:
            rq.call(b"nob")
    else:
        args = sym_args(cx, "arg", 1, cx.p("larg"))
        client = (P.SmartClientRequestProtocolOne if version == 1 else P.SmartClientRequestProtocolTwo)(col)
        if with_body:
            client.call_with_body_bytes((b"rec",) + tuple(args), body)
        else:
            client.call(b"nob", *args)
    enc = col.joined()
    msg_len = len(enc)
    state = {"buf": enc, "pos": 0, "short": cx.p("short"), "nreads": 0, "over": None}

    class In:
        def read(self, count):
            remaining = msg_len - state["pos"]
            if count > remaining and state["over"] is None:
                state["over"] = (count, remaining)
            n = _short_reader(cx, state, count, "p")
            r = state["buf"][state["pos"]:state["pos"] + n]
            state["pos"] += n
            return r

    class Out:
        def __init__(self):
            self.parts = []

        def write(self, b):
            self.parts.append(b)

        def flush(self):
            pass

        def close(self):
            pass
    out = Out()
    medium = M.SmartServerPipeStreamMedium(In(), out, None, timeout=4.0)
    medium._wait_for_bytes_with_timeout = lambda t: None
    proto = medium._build_protocol()
    medium._serve_one_request_unguarded(proto)
    log = _Rec.log
    if what == "readsize":
        cx.require(state["over"] is None,
                   "server asked the pipe for %r bytes with only %r left in the request" % (state["over"] or (0, 0)))
        cx.require(state["pos"] == msg_len, "server consumed %d bytes of a %d byte request" % (state["pos"], msg_len))
        cx.require(not getattr(medium, "finished", False), "server saw EOF inside a complete request")
    else:
        cx.require(len(log) >= 1 and log[0][0] == "args", "request handler never received the arguments")
        cx.require(len(log[0][1]) == len(args), "argument count changed")
        for a, b in zip(log[0][1], args):
            cx.require(a == b, "argument changed")
        if with_body:
            bodies = [e[1] for e in log if e[0] == "body"]
            cx.require(len(bodies) == 1 and bodies[0] == body, "request body changed")
        cx.require(len(out.parts) > 0, "no response written")
    cx.observe("log", [(k, v) for k, v in log if k != "chunk"])
    cx.cover("v%d" % version)


def _one_request(cx, P, version, tag):
    """Encode one request with the real client encoder; returns (bytes, verb-args, body)."""
    col = _Collect()
    with_body = bool(cx.choose(tag + ".with_body", 0, 1))
    body = cx.bytes(tag + ".body", cx.choose(tag + ".nb", 0, cx.p("nbody"))) if with_body else None
    if version == 3:
        rq = P.ProtocolThreeRequester(col)
        args = ()
        if with_body:
            rq.call_with_body_bytes((b"rec",), body)
        else:
            rq.call(b"nob")
    else:
        args = tuple(sym_args(cx, tag + ".arg", 1, cx.p("larg")))
        client = (P.SmartClientRequestProtocolOne if version == 1 else P.SmartClientRequestProtocolTwo)(col)
        if with_body:
            client.call_with_body_bytes((b"rec",) + args, body)
        else:
            client.call(b"nob", *args)
    return col.joined(), args, body


def ob_socket_pipelined(cx, what):
    """Two pipelined requests on the real socket medium: bytes read past the end of the first request (the start of
    the second one) must be preserved and served as the second request."""
    P = cx.mod(PROTO)
    M = cx.mod(MED)
    install(cx)
    v1 = cx.pick("version1", [1, 2, 3])
    v2 = cx.pick("version2", [1, 2, 3])
    enc1, args1, body1 = _one_request(cx, P, v1, "r1")
    enc2, args2, body2 = _one_request(cx, P, v2, "r2")
    data = enc1 + enc2
    pts = cuts(cx, len(data), cx.p("ncuts"))
    chunks = [data[pts[i]:pts[i + 1]] for i in range(len(pts) - 1)]
    chunks = [c for c in chunks if len(c)]
    state = {"i": 0}
    written = []
    medium = object.__new__(M.SmartServerSocketStreamMedium)
    M.SmartMedium.__init__(medium)
    medium.backing_transport = None
    medium.root_client_path = "/"
    medium.finished = False
    medium._client_timeout = 4.0
    medium._wait_for_bytes_with_timeout = lambda t: None
    medium._write_out = written.append

    def _read_bytes(desired):
        if state["i"] >= len(chunks):
            return b""
        c = chunks[state["i"]]
        state["i"] += 1
        return c
    medium._read_bytes = _read_bytes
    logs = []
    for k in range(2):
        _Rec.log = []
        proto = medium._build_protocol()
        medium._serve_one_request_unguarded(proto)
        logs.append(list(_Rec.log))
    if what == "content":
        for k, (args, body) in enumerate(((args1, body1), (args2, body2))):
            log = logs[k]
            cx.require(len(log) >= 1 and log[0][0] == "args", "request %d: handler never received the arguments" % (k + 1))
            cx.require(len(log[0][1]) == len(args), "request %d: argument count changed" % (k + 1))
            for a, b in zip(log[0][1], args):
                cx.require(a == b, "request %d: argument changed" % (k + 1))
            bodies = [e[1] for e in log if e[0] == "body"]
            if body is not None:
                cx.require(len(bodies) == 1 and bodies[0] == body, "request %d: body changed" % (k + 1))
            else:
                cx.require(not bodies, "request %d: spurious body" % (k + 1))
    else:
        cx.require(not medium.finished, "server saw EOF although both requests were complete")
        cx.require(medium._push_back_buffer is None, "bytes left over after the second request")
    cx.observe("logs", [[(a, b) for a, b in l if a != "chunk"] for l in logs])
    cx.cover("pipelined")
    if any(pts[i] > len(enc1) > pts[i - 1] for i in range(1, len(pts))):
        cx.cover("straddling_read")
