"""Small helpers shared by harnesses (work on concrete values and on proxies)."""


def s_or(conds):
    r = False
    for c in conds:
        r = c | r if not isinstance(c, bool) else (True if c else r)
    return r


def s_and(conds):
    r = True
    for c in conds:
        if isinstance(c, bool):
            if not c:
                return False
        else:
            r = c & r
    return r


def s_not(c):
    if isinstance(c, bool):
        return not c
    return ~c


def cat(parts, empty):
    r = empty
    for p in parts:
        r = r + p
    return r


def fmt(template, args):
    """template % args, also for symbolic arguments (harness code is not lifted)."""
    from symx import rt
    return rt.mod(template, args)


def startswith(a, prefix):
    """a.startswith(prefix) where either may be symbolic (harness code is not lifted)."""
    from symx.values import SymSeq, to_symseq
    if isinstance(a, SymSeq) or isinstance(prefix, SymSeq):
        return to_symseq(a).startswith(prefix)
    return a.startswith(prefix)
