import itertools, sys
from breezy.bzr.pack_repo import RepositoryPackCollection as R
def ds(n): return sum(int(c) for c in str(n)) if n else 1
bad=0
for n in range(1,7):
    for counts in itertools.combinations_with_replacement(range(1,25), n):
        total=sum(counts)
        if R._max_pack_count(None,total) >= n: continue
        dist=R.pack_distribution(None,total)
        ex=[(c,i) for i,c in enumerate(counts)]
        try:
            ops=R.plan_autopack_combinations(None,list(ex),list(dist))
        except Exception as e:
            print('EXC',counts,repr(e)); bad+=1; continue
        if not ops:
            print('EMPTY', counts); bad+=1; continue
        (rc,pl),=ops
        if len(pl)<2 or rc!=sum(counts[i] for i in pl): print('BADPLAN',counts,ops); bad+=1
        after=n-len(pl)+1
        if after>ds(total): print('BOUND',counts,ops,after,ds(total)); bad+=1
print('bad',bad)
