import itertools
from breezy.bzr.pack_repo import RepositoryPackCollection as R
def parts(total, maxpart, maxlen):
    # non-increasing positive sequences summing to total
    if total == 0:
        yield []; return
    if maxlen == 0: return
    for p in range(min(total,maxpart),0,-1):
        for rest in parts(total-p,p,maxlen-1):
            yield [p]+rest
bad=0; n_cases=0
for total in range(1,15):
    for dist in parts(total,total,5):
        for counts in parts(total,total,7):
            n=len(counts)
            if n <= len(dist): continue
            n_cases+=1
            ex=[(c,i) for i,c in enumerate(counts)]
            try:
                ops=R.plan_autopack_combinations(None,list(ex),list(dist))
            except Exception as e:
                print('EXC',dist,counts,repr(e)); bad+=1; continue
            if not ops: print('EMPTY',dist,counts); bad+=1; continue
            (rc,pl),=ops
            if len(pl)<2 or rc!=sum(counts[i] for i in pl): print('BADPLAN',dist,counts,ops); bad+=1
            if n-len(pl)+1>len(dist): print('BOUND',dist,counts,ops); bad+=1
            if bad>10: raise SystemExit
print(n_cases,'bad',bad)
