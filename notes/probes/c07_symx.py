import sys, z3
sys.path.insert(0, '/tmp/probe')
import symx
P = symx.load_lifted("breezy.bzr.pack_repo", "/repo/breezy/bzr/pack_repo.py")
R = P.RepositoryPackCollection
N, M = int(sys.argv[1]), int(sys.argv[2])

def ssum(xs):
    t = 0
    for x in xs: t = t + x
    return t

def harness(eng):
    n = eng.fresh_int("n", 2, N).concretize()
    m = eng.fresh_int("m", 1, min(M, n - 1)).concretize()
    counts = [eng.fresh_int(f"c{i}", 1) for i in range(n)]
    dist = [eng.fresh_int(f"d{i}", 1) for i in range(m)]
    for i in range(m - 1):
        eng.solver.add(dist[i].z >= dist[i + 1].z)
    eng.solver.add(ssum(counts).z == ssum(dist).z)
    if not eng.check(): raise symx.PathAbort()
    ex = [(c, i) for i, c in enumerate(counts)]
    ops = R.plan_autopack_combinations(None, list(ex), list(dist))
    assert len(ops) == 1, "one op"
    rc, pl = ops[0]
    assert len(pl) >= 2, "at least two"
    assert rc == ssum(counts[i] for i in pl), "count sum"
    assert len(set(pl)) == len(pl)
    assert n - len(pl) + 1 <= m, "bound"

st = symx.explore(harness, timeout=900)
print(st)
