from typing import List
from breezy.merge import Merge3Merger as M

def swap(r: str) -> str:
    return {"this": "other", "other": "this", "conflict": "conflict"}[r]

def sym3(base: int, other: int, this: int) -> bool:
    """
    post: _
    """
    a = M._three_way(base, other, this)
    b = M._three_way(base, this, other)
    if this == other:
        return a == "this" and b == "this"
    return swap(a) == b

def lca_ext(base: int, lcas: List[int], other: int, this: int) -> bool:
    """
    pre: len(lcas) <= 4
    pre: all(x == lcas[0] for x in lcas)
    post: _
    """
    if not lcas:
        return True
    return M._lca_multi_way((base, lcas), other, this) == M._three_way(lcas[0], other, this)

def lca_sym(base: int, lcas: List[int], other: int, this: int, allow: bool) -> bool:
    """
    pre: len(lcas) <= 4
    post: _
    """
    a = M._lca_multi_way((base, lcas), other, this, allow_overriding_lca=allow)
    b = M._lca_multi_way((base, lcas), this, other, allow_overriding_lca=allow)
    if this == other:
        return a == "this" and b == "this"
    return swap(a) == b
