import itertools
from breezy.log import reverse_by_depth, _rebase_merge_depth
def profiles(n, first0=True):
    def rec(prefix):
        if len(prefix) == n: yield list(prefix); return
        lo = 0
        hi = (prefix[-1] + 1) if prefix else 0
        for d in range(0, hi + 1):
            yield from rec(prefix + [d])
    yield from rec([])
bad = 0; cnt = 0
for n in range(0, 8):
    for prof in profiles(n):
        revs = [(f"r{i}", f"{i}", d) for i, d in enumerate(prof)]
        cnt += 1
        f = reverse_by_depth(list(revs))
        if sorted(f) != sorted(revs): bad += 1; print('perm', prof)
        ff = reverse_by_depth(list(f))
        if ff != revs:
            bad += 1
            if bad < 6: print('invol', prof, [r[2] for r in f], [r[2] for r in ff])
        z = [r for r in revs if r[2] == 0]
        if [r for r in f if r[2] == 0] != list(reversed(z)): bad += 1; print('lvl1', prof)
print(cnt, 'bad', bad)
