import sys, z3
sys.path.insert(0, '/tmp/probe')
import symx
from symx import SymInt, PathAbort
L = symx.load_lifted("breezy.lockdir", "/repo/breezy/lockdir.py")
from dromedary.errors import NoSuchFile, TransportError, FileExists, DirectoryNotEmpty, PathError

ENG = None
class Info:
    """Stand-in for the Rust LockHeldInfo: nonce is a (symbolic) int."""
    def __init__(self, nonce, dead=None): self.nonce = nonce; self.dead = dead
    def __eq__(self, o): return isinstance(o, Info) and (self.nonce == o.nonce)
    def __ne__(self, o): return not (self == o)
    def to_bytes(self): return self
    @staticmethod
    def for_this_process(extra): return Info(1000)   # our nonce: concrete 1000
    @staticmethod
    def from_info_file_bytes(b): return b
    def is_lock_holder_known_dead(self): return bool(self.dead)
    def __str__(self): return "info"
L.LockHeldInfo = Info
L.rand_chars = lambda n: "r" * n

class EnvFS:
    """Coherent FS state; environment may change held/ between our ops and fail our ops."""
    def __init__(self, eng):
        self.eng = eng; self.n = 0
        self.files = {}     # path -> Info  (our pending/info etc.)
        self.held = None    # None or Info
        self.log = []
        self.base = "mem:///"
    def _fresh(self, what):
        self.n += 1; return f"{what}{self.n}"
    def _interfere(self):
        # environment may replace held/ with absent or a fresh foreign holder
        k = self.eng.decide([z3.BoolVal(True), z3.BoolVal(True), z3.BoolVal(True)]) if False else None
        c = self.eng.fresh_int(self._fresh("env"), 0, 2)
        v = c.concretize()
        if v == 1: self.held = None
        elif v == 2:
            nonce = self.eng.fresh_int(self._fresh("nonce"))
            self.eng.solver.add(nonce.z != 1000)      # nonces are unique
            dead = self.eng.fresh_int(self._fresh("dead"), 0, 1)
            self.held = Info(nonce, dead)
    def _may_fail(self, op):
        f = self.eng.fresh_int(self._fresh("fail_" + op), 0, 1).concretize()
        if f: raise TransportError("injected " + op)
    def mkdir(self, p, mode=None):
        self._interfere(); self._may_fail("mkdir"); self.log.append(("mkdir", p))
    def put_bytes_non_atomic(self, p, data, **kw):
        self._interfere(); self._may_fail("put"); self.files[p] = data; self.log.append(("put", p))
    def rename(self, a, b):
        self._interfere(); self._may_fail("rename")
        if b.endswith("/held"):
            if self.held is not None: raise FileExists(b)
            self.held = self.files.get(a + "/info"); self.log.append(("rename->held", a))
        elif a.endswith("/held"):
            if self.held is None: raise NoSuchFile(a)
            self.files[b + "/info"] = self.held; self.held = None; self.log.append(("rename held->", b))
    def get_bytes(self, p):
        self._interfere(); self._may_fail("get")
        if p.endswith("held/info"):
            if self.held is None: raise NoSuchFile(p)
            return self.held
        if p in self.files: return self.files[p]
        raise NoSuchFile(p)
    def delete(self, p):
        self._interfere(); self._may_fail("delete"); self.files.pop(p, None); self.log.append(("delete", p))
    def rmdir(self, p):
        self._interfere(); self._may_fail("rmdir"); self.log.append(("rmdir", p))
    def abspath(self, p): return self.base + p

FAULTS = len(sys.argv) > 1 and sys.argv[1] == "faults"

def harness(eng):
    fs = EnvFS(eng)
    if not FAULTS:
        fs._may_fail = lambda op: None
    ld = L.LockDir(fs, "lock")
    ld._trace = lambda *a, **k: None
    ld.get_config = lambda: {"locks.steal_dead": False}
    ok = False
    try:
        ld._attempt_lock(); ok = True
    except (L.LockContention, L.LockFailed, TransportError, PathError):
        pass
    # (a) success only if held/ carries our nonce *as last observed by us* (the post-rename peek)
    if ok:
        assert ld._lock_held
    else:
        assert not ld._lock_held
        # C27: failed acquisition must not leave held/ with our nonce
        h = fs.held
        assert h is None or not bool(h.nonce == 1000), f"failed acquisition left our lock in place; log={fs.log}"

st = symx.explore(harness, timeout=600, max_paths=2000000)
print({k: (v if k != 'violations' else v[:1]) for k, v in st.items()})
