from typing import List
from breezy.counted_lock import CountedLock
from breezy import errors

class FakeLock:
    def __init__(self):
        self.held = None
        self.log = []
    def lock_read(self):
        assert self.held is None
        self.held = "r"; self.log.append("R")
    def lock_write(self, token=None):
        assert self.held is None
        self.held = "w"; self.log.append("W"); return b"tok"
    def unlock(self):
        assert self.held is not None
        self.held = None; self.log.append("U")
    def validate_token(self, token):
        pass

def run(ops: List[int]) -> bool:
    """
    pre: len(ops) <= 6
    pre: all(0 <= o <= 2 for o in ops)
    post: _
    """
    real = FakeLock()
    cl = CountedLock(real)
    mode = None; count = 0
    for o in ops:
        if o == 0:
            cl.lock_read()
            if count == 0: mode = "r"
            count += 1
        elif o == 1:
            try:
                cl.lock_write()
                ok = True
            except errors.ReadOnlyError:
                ok = False
            if count == 0:
                if not ok: return False
                mode = "w"; count = 1
            elif mode == "w":
                if not ok: return False
                count += 1
            else:
                if ok: return False
        else:
            try:
                cl.unlock(); ok = True
            except errors.LockNotHeld:
                ok = False
            if count == 0:
                if ok: return False
            else:
                if not ok: return False
                count -= 1
                if count == 0: mode = None
        if (real.held is not None) != (count > 0): return False
        if count > 0 and real.held != mode: return False
        if cl.is_locked() != (count > 0): return False
    return True
