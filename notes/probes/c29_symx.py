import sys, z3
sys.path.insert(0, '/tmp/probe')
import symx
from symx import SymBytes, mk
P = symx.load_lifted("breezy.bzr.smart.protocol", "/repo/breezy/bzr/smart/protocol.py")

NB, NT = int(sys.argv[1]), int(sys.argv[2])
BUG = len(sys.argv) > 3

def harness(eng):
    nb = eng.fresh_int("nb", 0, NB).concretize()
    nt = eng.fresh_int("nt", 0, NT).concretize()
    body = mk(eng, [eng.fresh_int(f"b{i}", 0, 255) for i in range(nb)])
    tail = mk(eng, [eng.fresh_int(f"t{i}", 0, 255) for i in range(nt)])
    enc = P.SmartProtocolBase()._encode_bulk_data(body) + tail
    msg_len = len(enc) - nt
    c1 = eng.fresh_int("c1", 0, len(enc)).concretize()
    c2 = eng.fresh_int("c2", c1, len(enc)).concretize()
    d = P.LengthPrefixedBodyDecoder()
    got = b""
    fed = 0
    for seg in (enc[:c1], enc[c1:c2], enc[c2:]):
        # C30: before feeding, next_read_size must not exceed what remains in the message
        if fed < msg_len:
            nrs = d.next_read_size()
            assert 0 < nrs <= msg_len - fed, f"next_read_size {nrs} remaining {msg_len - fed}"
        d.accept_bytes(seg)
        fed += len(seg)
        got = got + d.read_pending_data()
        assert bool(d.finished_reading) == (fed >= msg_len), "finished flag"
    assert d.finished_reading
    assert got == body, "body"
    assert d.unused_data == tail, "tail"

st = symx.explore(harness, timeout=900)
print(st)
