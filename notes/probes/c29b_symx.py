import sys, z3
sys.path.insert(0, '/tmp/probe')
import symx
from symx import mk
P = symx.load_lifted("breezy.bzr.smart.protocol", "/repo/breezy/bzr/smart/protocol.py")
NC, NB, NT = int(sys.argv[1]), int(sys.argv[2]), int(sys.argv[3])

def harness(eng):
    nc = eng.fresh_int("nc", 0, NC).concretize()
    chunks = []
    for j in range(nc):
        nb = eng.fresh_int(f"nb{j}", 0, NB).concretize()
        chunks.append(mk(eng, [eng.fresh_int(f"b{j}_{i}", 0, 255) for i in range(nb)]))
    nt = eng.fresh_int("nt", 0, NT).concretize()
    tail = mk(eng, [eng.fresh_int(f"t{i}", 0, 255) for i in range(nt)])
    out = []
    P._send_stream(iter(chunks), out.append)
    enc = b""
    for o in out: enc = enc + o
    msg_len = len(enc)
    enc = enc + tail
    c1 = eng.fresh_int("c1", 0, len(enc)).concretize()
    c2 = eng.fresh_int("c2", c1, len(enc)).concretize()
    d = P.ChunkedBodyDecoder()
    got = []
    fed = 0
    for seg in (enc[:c1], enc[c1:c2], enc[c2:]):
        if fed < msg_len:
            nrs = d.next_read_size()
            assert 0 < nrs <= msg_len - fed, f"next_read_size {nrs} remaining {msg_len - fed} fed {fed}"
        d.accept_bytes(seg)
        fed += len(seg)
        while True:
            c = d.read_next_chunk()
            if c is None: break
            got.append(c)
        assert bool(d.finished_reading) == (fed >= msg_len), "finished flag"
    assert len(got) == len(chunks), "chunk count"
    for a, b in zip(got, chunks):
        assert a == b, "chunk content"
    assert d.unused_data == tail, "tail"

st = symx.explore(harness, timeout=900)
print(st)
