import itertools, io
from breezy.filters import eol, filtered_output_bytes, filtered_input_file
alpha = [b"\r", b"\n", b"\x00", b"a"]
def canon(c, key):
    if b"\x00" in c: return True
    if key == "exact": return True
    if "crlf-in-repo" in key:
        # every \n preceded by \r, and no \r\r\n
        for i, ch in enumerate(c):
            if ch == 10 and (i == 0 or c[i-1] != 13): return False
        return b"\r\r\n" not in c
    return b"\r\n" not in c
bad = 0; n = 0
for key, stack in eol._eol_filter_stack_map.items():
    for L in range(0, 7):
        for t in itertools.product(alpha, repeat=L):
            c = b"".join(t)
            if not canon(c, key): continue
            n += 1
            out = b"".join(filtered_output_bytes([c], stack))
            back = filtered_input_file(io.BytesIO(out), stack)[0].read()
            if back != c:
                bad += 1
                if bad < 10: print(key, c, out, back)
            if b"\x00" in c and out != c:
                bad += 1; print('NUL converted', key, c, out)
print(n, 'bad', bad)
