import sys, re
sys.path.insert(0, '/tmp/probe')
import symx, symre
from breezy.globbing import Globster
PATS = ["*.o", "foo", "a/b*", "**/c?", "RE:x+y", "[ab]z"]
G = Globster(PATS)
RX = [(rx._regex_args[0], rx._regex_args[1] if len(rx._regex_args) > 1 else 0, pats) for rx, pats in G._regex_patterns]
ALPHA = [ord(c) for c in "abco./z\n"]
N = int(sys.argv[1])

def ref_match(eng, f):
    """Reference semantics written from the docs; returns set of matching patterns (as list)."""
    n = len(f)
    def eqs(items, lit):
        return len(items) == len(lit) and all(bool(a == ord(b)) for a, b in zip(items, lit))
    # basename = after last '/'
    last = -1
    for i in range(n):
        if f[i] == 47: last = i
    base = f[last + 1:]
    out = []
    if len(base) >= 2 and bool(base[-1] == ord('o')) and bool(base[-2] == ord('.')): out.append("*.o")
    if eqs(base, "foo"): out.append("foo")
    if n >= 3 and eqs(f[:3], "a/b") and all(not bool(c == 47) for c in f[3:]): out.append("a/b*")
    if len(base) == 2 and bool(base[0] == ord('c')): out.append("**/c?")
    # RE:x+y is a search anchored at start (re.match) and $ : x+y whole string
    if n >= 2 and bool(f[-1] == ord('y')) and all(bool(c == ord('x')) for c in f[:-1]): out.append("RE:x+y")
    if len(base) == 2 and (bool(base[0] == ord('a')) or bool(base[0] == ord('b'))) and bool(base[1] == ord('z')): out.append("[ab]z")
    return out

def harness(eng):
    n = eng.fresh_int("n", 0, N).concretize()
    f = [eng.fresh_int(f"f{i}") for i in range(n)]
    for c in f:
        import z3
        eng.solver.add(z3.Or([c.z == a for a in ALPHA]))
        eng.solver.add(c.z != 10)   # exclude newline in this probe
    got = None
    for pat, flags, pats in RX:
        m = symre.sym_match(eng, pat, flags, f)
        if m is not None:
            got = pats[m.lastindex - 1]
            break
    want = ref_match(eng, f)
    assert (got is None) == (not want), f"ignored mismatch got={got} want={want}"
    assert got is None or got in want, f"reported pattern {got} not in {want}"

st = symx.explore(harness, timeout=900)
print({k: v for k, v in st.items()})
