import itertools
from breezy.cmdline import split
def quote(arg, sq):
    out = ['"']; bs = 0
    for ch in arg:
        if ch == '\\':
            bs += 1; continue
        if ch == '"' or (sq and ch == "'"):
            out.append('\\' * (2 * bs + 1) + ch)
        else:
            out.append('\\' * bs + ch)
        bs = 0
    out.append('\\' * (2 * bs) + '"')
    return ''.join(out)
alpha = 'a \t"\'\\'
bad = 0; n = 0
for sq in (True, False):
    for L in range(0, 5):
        for t in itertools.product(alpha, repeat=L):
            a = ''.join(t)
            for b in ('', 'x', '\\', '"'):
                args = [a, b]
                n += 1
                got = split(' '.join(quote(x, sq) for x in args), single_quotes_allowed=sq)
                if got != args:
                    bad += 1
                    if bad < 8: print(sq, args, [quote(x, sq) for x in args], got)
print(n, 'bad', bad)
