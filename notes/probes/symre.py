"""Prototype: backtracking regex walker over concrete-length symbolic sequences."""
import re, re._parser as sp, re._constants as sc
import z3
from symx import SymInt, SymBool, lift, Unsupported

def _test(eng, zc):
    return eng.branch(zc)

def cat_cond(z, cat):
    if cat == sc.CATEGORY_DIGIT: return z3.And(z >= 48, z <= 57)
    if cat == sc.CATEGORY_NOT_DIGIT: return z3.Not(z3.And(z >= 48, z <= 57))
    if cat == sc.CATEGORY_SPACE: return z3.Or(z == 32, z3.And(z >= 9, z <= 13), z3.And(z >= 28, z <= 31), z == 0x85, z == 0xa0)
    if cat == sc.CATEGORY_NOT_SPACE: return z3.Not(cat_cond(z, sc.CATEGORY_SPACE))
    if cat == sc.CATEGORY_WORD: return z3.Or(z3.And(z >= 48, z <= 57), z3.And(z >= 65, z <= 90), z3.And(z >= 97, z <= 122), z == 95)
    raise Unsupported(f"category {cat}")

def in_cond(z, items):
    neg = False; conds = []
    for op, av in items:
        if op == sc.NEGATE: neg = True
        elif op == sc.LITERAL: conds.append(z == av)
        elif op == sc.RANGE: conds.append(z3.And(z >= av[0], z <= av[1]))
        elif op == sc.CATEGORY: conds.append(cat_cond(z, av))
        else: raise Unsupported(f"in {op}")
    c = z3.Or(conds) if conds else z3.BoolVal(False)
    return z3.Not(c) if neg else c

class M:
    def __init__(self, eng, items, flags):
        self.eng, self.s, self.flags = eng, items, flags
        self.n = len(items)
    def z(self, i): return lift(self.s[i])

    def m(self, nodes, i, pos, groups, k):
        """Match nodes[i:] at pos; call k(pos, groups) on success; return result or None."""
        if i == len(nodes):
            return k(pos, groups)
        op, av = nodes[i]
        nxt = lambda p, g: self.m(nodes, i + 1, p, g, k)
        if op in (sc.LITERAL, sc.NOT_LITERAL, sc.ANY, sc.IN):
            if pos >= self.n: return None
            z = self.z(pos)
            if op == sc.LITERAL: c = z == av
            elif op == sc.NOT_LITERAL: c = z != av
            elif op == sc.ANY: c = z3.BoolVal(True) if self.flags & re.DOTALL else z != 10
            else: c = in_cond(z, av)
            if _test(self.eng, c): return nxt(pos + 1, groups)
            return None
        if op == sc.AT:
            if av == sc.AT_END:
                if pos == self.n: return nxt(pos, groups)
                if pos == self.n - 1 and _test(self.eng, self.z(pos) == 10): return nxt(pos, groups)
                return None
            if av in (sc.AT_BEGINNING, sc.AT_BEGINNING_STRING):
                return nxt(pos, groups) if pos == 0 else None
            if av == sc.AT_END_STRING:
                return nxt(pos, groups) if pos == self.n else None
            raise Unsupported(f"AT {av}")
        if op == sc.SUBPATTERN:
            gid, af, df, sub = av
            def after(p, g):
                g2 = dict(g)
                if gid is not None:
                    g2[gid] = (pos, p); g2['last'] = gid
                return nxt(p, g2)
            return self.m(sub, 0, pos, groups, after)
        if op == sc.BRANCH:
            for alt in av[1]:
                r = self.m(alt, 0, pos, groups, nxt)
                if r is not None: return r
            return None
        if op in (sc.MAX_REPEAT, sc.MIN_REPEAT):
            lo, hi, sub = av
            greedy = op == sc.MAX_REPEAT
            def rep(count, p, g):
                def more():
                    if count >= hi: return None
                    def again(p2, g2):
                        if p2 == p and count >= lo: return None  # empty-match guard
                        return rep(count + 1, p2, g2)
                    return self.m(sub, 0, p, g, again)
                def stop():
                    return nxt(p, g) if count >= lo else None
                if greedy:
                    r = more()
                    return r if r is not None else stop()
                r = stop()
                return r if r is not None else more()
            return rep(0, pos, groups)
        if op in (sc.ASSERT, sc.ASSERT_NOT):
            direction, sub = av
            if direction == 1:
                ok = self.m(sub, 0, pos, groups, lambda p, g: True) is not None
            else:
                w = sp.SubPattern(None); # fixed width lookbehind
                lo_w, hi_w = sp.SubPattern(sub.state if hasattr(sub,'state') else None, list(sub)).getwidth() if hasattr(sub,'state') else (None,None)
                width = lo_w
                ok = pos - width >= 0 and self.m(list(sub), 0, pos - width, groups, lambda p, g: True if p == pos else None) is not None
            if (op == sc.ASSERT) == ok: return nxt(pos, groups)
            return None
        raise Unsupported(f"regex op {op}")

class SymMatch:
    def __init__(self, end, groups):
        self.endpos = end; self.groups_ = groups
        self.lastindex = groups.get('last')
    def end(self): return self.endpos

def sym_match(eng, pattern, flags, items):
    tree = sp.parse(pattern, flags)
    m = M(eng, items, flags)
    return m.m(list(tree), 0, 0, {}, lambda p, g: SymMatch(p, g))

def sym_sub(eng, pattern, flags, repl_items, items):
    """re.sub with constant replacement (no group refs)."""
    tree = list(sp.parse(pattern, flags)); m = M(eng, items, flags)
    out = []; pos = 0; n = len(items)
    while pos <= n:
        r = m.m(tree, 0, pos, {}, lambda p, g: SymMatch(p, g))
        if r is not None and r.endpos > pos:
            out += repl_items; pos = r.endpos
        elif r is not None:
            raise Unsupported("empty match in sub")
        else:
            if pos < n: out.append(items[pos])
            pos += 1
    return out
