"""Prototype: replay-based symbolic execution of real Python code with z3.

Concrete-length sequences of symbolic bytes; fork on __bool__ of symbolic
conditions; DFS over decision prefixes by re-execution.
"""
import ast
import sys
import time
import types
import z3


class Unsupported(Exception):
    pass


class PathAbort(BaseException):
    """Infeasible path / pruned."""


class Engine:
    def __init__(self):
        self.solver = z3.Solver()
        self.prefix = []      # decisions to replay (list of ints)
        self.trace = []       # decisions taken on this run: (choice, nchoices)
        self.nvars = 0
        self.paths = 0
        self.queries = 0
        self.solver_time = 0.0

    # -- variables
    def fresh_int(self, name, lo=None, hi=None):
        v = z3.Int(f"{name}")
        if lo is not None:
            self.solver.add(v >= lo)
        if hi is not None:
            self.solver.add(v <= hi)
        return SymInt(self, v)

    def check(self, *extra):
        t = time.time()
        self.queries += 1
        r = self.solver.check(*extra)
        self.solver_time += time.time() - t
        if r == z3.unknown:
            raise Unsupported("solver unknown")
        return r == z3.sat

    def decide(self, conds):
        """Choose among mutually exclusive, exhaustive z3 conditions."""
        idx = len(self.trace)
        if idx < len(self.prefix):
            choice, feas = self.prefix[idx]
            self.trace.append([choice, feas])
            self.solver.add(conds[feas[choice]])
            return feas[choice]
        feas = [i for i, c in enumerate(conds) if self.check(c)]
        if not feas:
            raise PathAbort()
        self.trace.append([0, feas])
        self.solver.add(conds[feas[0]])
        return feas[0]

    def branch(self, cond):
        cond = z3.simplify(cond)
        if z3.is_true(cond):
            return True
        if z3.is_false(cond):
            return False
        return self.decide([cond, z3.Not(cond)]) == 0

    def next_prefix(self):
        """Compute the next decision prefix for DFS, checking feasibility lazily."""
        tr = self.trace
        while tr:
            choice, n = tr[-1]
            if choice + 1 < n:
                tr[-1] = [choice + 1, n]
                return [c for c, _ in tr]
            tr.pop()
        return None


ENGINE = None


def lift(x):
    if isinstance(x, SymInt):
        return x.z
    if isinstance(x, bool):
        return z3.BoolVal(x)
    if isinstance(x, int):
        return z3.IntVal(x)
    raise Unsupported(f"lift {type(x)}")


class SymBool:
    def __init__(self, eng, z):
        self.eng = eng
        self.z = z

    def __bool__(self):
        return self.eng.branch(self.z)

    def __invert__(self):
        return SymBool(self.eng, z3.Not(self.z))


def _cmp(op):
    def f(self, other):
        if isinstance(other, (int, SymInt)) and not isinstance(other, bool) or isinstance(other, bool):
            return SymBool(self.eng, op(self.z, lift(other)))
        return NotImplemented
    return f


class SymInt:
    def __init__(self, eng, z):
        self.eng = eng
        self.z = z

    __eq__ = _cmp(lambda a, b: a == b)
    __ne__ = _cmp(lambda a, b: a != b)
    __lt__ = _cmp(lambda a, b: a < b)
    __le__ = _cmp(lambda a, b: a <= b)
    __gt__ = _cmp(lambda a, b: a > b)
    __ge__ = _cmp(lambda a, b: a >= b)

    def __hash__(self):
        raise Unsupported("hash(SymInt)")

    def _bin(op):
        def f(self, other):
            if isinstance(other, (int, SymInt)):
                return SymInt(self.eng, op(self.z, lift(other)))
            return NotImplemented
        return f

    def _rbin(op):
        def f(self, other):
            if isinstance(other, (int, SymInt)):
                return SymInt(self.eng, op(lift(other), self.z))
            return NotImplemented
        return f

    __add__ = _bin(lambda a, b: a + b)
    __radd__ = _rbin(lambda a, b: a + b)
    __sub__ = _bin(lambda a, b: a - b)
    __rsub__ = _rbin(lambda a, b: a - b)
    __mul__ = _bin(lambda a, b: a * b)
    __rmul__ = _rbin(lambda a, b: a * b)

    def __neg__(self):
        return SymInt(self.eng, -self.z)

    def __bool__(self):
        return self.eng.branch(self.z != 0)

    def __index__(self):
        # enumerate feasible values (fork)
        return self.concretize()

    def concretize(self):
        eng = self.eng
        z = z3.simplify(self.z)
        if z3.is_int_value(z):
            return z.as_long()
        idx = len(eng.trace)
        if idx < len(eng.prefix):
            choice, values = eng.prefix[idx]
            eng.trace.append([choice, values])
            eng.solver.add(self.z == values[choice])
            return values[choice]
        values = []
        eng.solver.push()
        while eng.check():
            v = eng.solver.model().eval(self.z, model_completion=True).as_long()
            values.append(v)
            eng.solver.add(self.z != v)
            if len(values) > 256:
                raise Unsupported("too many values to enumerate")
        eng.solver.pop()
        if not values:
            raise PathAbort()
        values.sort()
        eng.trace.append([0, values])
        eng.solver.add(self.z == values[0])
        return values[0]

    def __repr__(self):
        return f"<SymInt {self.z}>"


class SymBytes:
    """Concrete-length sequence; items are int or SymInt (0..255)."""

    def __init__(self, eng, items):
        self.eng = eng
        self.items = list(items)

    def __len__(self):
        return len(self.items)

    def __iter__(self):
        return iter(self.items)

    def __getitem__(self, i):
        if isinstance(i, slice):
            return mk(self.eng, self.items[i])
        return self.items[i]

    def __add__(self, other):
        return mk(self.eng, self.items + seq_items(other))

    def __radd__(self, other):
        return mk(self.eng, seq_items(other) + self.items)

    def __hash__(self):
        raise Unsupported("hash(SymBytes)")

    def _eqz(self, other):
        o = seq_items(other)
        if len(o) != len(self.items):
            return z3.BoolVal(False)
        return z3.And([lift(a) == lift(b) for a, b in zip(self.items, o)] + [z3.BoolVal(True)])

    def __eq__(self, other):
        if not isinstance(other, (bytes, SymBytes)):
            return False
        return SymBool(self.eng, self._eqz(other))

    def __ne__(self, other):
        if not isinstance(other, (bytes, SymBytes)):
            return True
        return SymBool(self.eng, z3.Not(self._eqz(other)))

    def startswith(self, p):
        p = seq_items(p)
        return self[: len(p)] == mk(self.eng, p) if len(p) <= len(self.items) else False

    def endswith(self, p):
        p = seq_items(p)
        if len(p) > len(self.items):
            return False
        if not p:
            return True
        return self[-len(p):] == mk(self.eng, p)

    def find(self, sub, start=0):
        sub = seq_items(sub)
        n, m = len(self.items), len(sub)
        conds = []
        prev_not = []
        for pos in range(start, n - m + 1):
            here = z3.And([lift(self.items[pos + k]) == lift(sub[k]) for k in range(m)] + [z3.BoolVal(True)])
            if self.eng.branch(here):
                return pos
        return -1

    def __contains__(self, sub):
        if isinstance(sub, (int, SymInt)):
            sub = [sub]
        return self.find(sub) != -1

    def split(self, sep):
        sep_i = seq_items(sep)
        out = []
        cur = self
        while True:
            p = cur.find(sep_i)
            if p == -1:
                out.append(cur)
                return out
            out.append(cur[:p])
            cur = cur[p + len(sep_i):]

    def __repr__(self):
        return f"<SymBytes {self.items}>"


def mk(eng, items):
    items = list(items)
    if all(isinstance(i, int) for i in items):
        return bytes(items)
    return SymBytes(eng, items)


def seq_items(x):
    if isinstance(x, SymBytes):
        return list(x.items)
    if isinstance(x, (bytes, bytearray)):
        return list(x)
    if isinstance(x, list):
        return x
    raise Unsupported(f"seq_items {type(x)}")


# ---- runtime helpers used by lifted code
class RT:
    @staticmethod
    def isinstance_(x, t):
        if isinstance(x, SymBytes):
            ts = t if isinstance(t, tuple) else (t,)
            return bytes in ts
        if isinstance(x, SymInt):
            ts = t if isinstance(t, tuple) else (t,)
            return int in ts
        return isinstance(x, t)

    @staticmethod
    def int_(x, base=10):
        if isinstance(x, SymBytes):
            eng = x.eng
            if len(x.items) == 0:
                raise ValueError("empty")
            if base not in (10, 16):
                raise Unsupported("base")
            total = z3.IntVal(0)
            for it in x.items:
                z = lift(it)
                if base == 10:
                    isdig = z3.And(z >= 48, z <= 57)
                    if not eng.branch(isdig):
                        # NOTE: prototype ignores whitespace/sign/underscore forms
                        raise ValueError("bad digit")
                    total = total * 10 + (z - 48)
                else:
                    k = eng.decide([z3.And(z >= 48, z <= 57), z3.And(z >= 97, z <= 102), z3.And(z >= 65, z <= 70),
                                    z3.Not(z3.Or(z3.And(z >= 48, z <= 57), z3.And(z >= 97, z <= 102), z3.And(z >= 65, z <= 70)))])
                    if k == 3:
                        raise ValueError("bad hex digit")
                    total = total * 16 + (z - [48, 87, 55][k])
            return SymInt(eng, total)
        if isinstance(x, SymInt):
            return x
        return int(x, base) if isinstance(x, (bytes, str)) and base != 10 else int(x)

    @staticmethod
    def cmeth(const, name, *args):
        if name == "join":
            parts = list(args[0])
            if any(isinstance(p, SymBytes) for p in parts) or isinstance(const, SymBytes):
                items = []
                sep = seq_items(const)
                for i, p in enumerate(parts):
                    if i:
                        items += sep
                    items += seq_items(p)
                return mk(ENGINE, items)
            return const.join(parts)
        if any(isinstance(a, (SymBytes, SymInt)) for a in args):
            raise Unsupported(f"const.{name} with symbolic arg")
        return getattr(const, name)(*args)

    @staticmethod
    def mod(fmt, arg):
        args = arg if isinstance(arg, tuple) else (arg,)
        if not any(isinstance(a, (SymBytes, SymInt)) for a in args):
            return fmt % arg
        raise Unsupported("format with symbolic")


class Lifter(ast.NodeTransformer):
    def visit_Call(self, node):
        self.generic_visit(node)
        f = node.func
        if isinstance(f, ast.Attribute) and isinstance(f.value, ast.Constant) and isinstance(f.value.value, (bytes, str)):
            return ast.copy_location(ast.Call(
                func=ast.Attribute(value=ast.Name(id="_symrt_", ctx=ast.Load()), attr="cmeth", ctx=ast.Load()),
                args=[f.value, ast.Constant(f.attr)] + node.args, keywords=node.keywords), node)
        if isinstance(f, ast.Name) and f.id in ("isinstance", "int"):
            return ast.copy_location(ast.Call(
                func=ast.Attribute(value=ast.Name(id="_symrt_", ctx=ast.Load()), attr=f.id + "_", ctx=ast.Load()),
                args=node.args, keywords=node.keywords), node)
        return node

    def visit_BinOp(self, node):
        self.generic_visit(node)
        if isinstance(node.op, ast.Mod) and isinstance(node.left, ast.Constant) and isinstance(node.left.value, (bytes, str)):
            return ast.copy_location(ast.Call(
                func=ast.Attribute(value=ast.Name(id="_symrt_", ctx=ast.Load()), attr="mod", ctx=ast.Load()),
                args=[node.left, node.right], keywords=[]), node)
        return node


def load_lifted(modname, path):
    src = open(path).read()
    tree = Lifter().visit(ast.parse(src))
    ast.fix_missing_locations(tree)
    mod = types.ModuleType(modname + "__lifted")
    mod.__file__ = path
    mod.__package__ = modname.rpartition(".")[0]
    mod.__dict__["_symrt_"] = RT
    exec(compile(tree, path, "exec"), mod.__dict__)
    return mod


def explore(harness, max_paths=100000, timeout=600):
    """harness(eng) -> None (ok) or raises AssertionError (violation)."""
    global ENGINE
    prefix = []
    t0 = time.time()
    stats = dict(paths=0, aborted=0, queries=0, solver_time=0.0, violations=[])
    while prefix is not None:
        eng = Engine()
        ENGINE = eng
        eng.prefix = prefix
        try:
            harness(eng)
            stats["paths"] += 1
        except PathAbort:
            stats["aborted"] += 1
        except AssertionError as e:
            stats["paths"] += 1
            assert eng.check()
            stats["violations"].append((str(e), str(eng.solver.model())))
            break
        stats["queries"] += eng.queries
        stats["solver_time"] += eng.solver_time
        tr = eng.trace
        prefix = None
        while tr:
            choice, n = tr[-1]
            cnt = n if isinstance(n, int) else len(n)
            if choice + 1 < cnt:
                tr[-1] = [choice + 1, n]
                prefix = [list(t) for t in tr]
                break
            tr.pop()
        if stats["paths"] + stats["aborted"] > max_paths or time.time() - t0 > timeout:
            stats["incomplete"] = True
            break
    stats["wall"] = time.time() - t0
    return stats
