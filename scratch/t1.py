import sys, time
sys.path.insert(0, '/verif')
from symx.lift import LiftedSet
from symx.explore import explore, explore_serial
NB, NT = int(sys.argv[1]), int(sys.argv[2])
W = int(sys.argv[3]) if len(sys.argv) > 3 else 1
L = LiftedSet()
L.load("breezy.bzr.smart.protocol")

def harness(cx):
    P = cx.mod("breezy.bzr.smart.protocol")
    nb = cx.choose("nb", 0, NB)
    nt = cx.choose("nt", 0, NT)
    body = cx.bytes("body", nb)
    tail = cx.bytes("tail", nt)
    enc = P.SmartProtocolBase()._encode_bulk_data(body) + tail
    msg_len = len(enc) - nt
    c1 = cx.choose("c1", 0, len(enc))
    c2 = cx.choose("c2", c1, len(enc))
    d = P.LengthPrefixedBodyDecoder()
    got = b""
    fed = 0
    for seg in (enc[:c1], enc[c1:c2], enc[c2:]):
        if fed < msg_len:
            nrs = d.next_read_size()
            cx.require(0 < nrs, "nrs positive")
            cx.require(nrs <= msg_len - fed, "next_read_size %r exceeds remaining %d" % (nrs, msg_len - fed))
        d.accept_bytes(seg)
        fed += len(seg)
        got = got + d.read_pending_data()
        cx.require(bool(d.finished_reading) == (fed >= msg_len), "finished flag")
    cx.require(d.finished_reading, "finished")
    cx.require(got == body, "body")
    cx.require(d.unused_data == tail, "tail")
    cx.observe("got", got); cx.observe("unused", d.unused_data)
    cx.cover("done")

t=time.time()
o = explore(harness, L, {}, timeout=600, workers=W)
print(o.status, o.msg, o.inputs, o.detail)
print(o.stats.as_dict(), round(o.wall,2))
