import sys
sys.path.insert(0,'/verif')
from symx.lift import LiftedSet
from symx import explore as ex, core
from harness import smartproto as sp
from functools import partial
L=LiftedSet()
for m in sp.LIFT_ALL: L.load(m)
import harness.C29 as h
ob=[o for o in h.obligations("quick") if o.name=="pipe_server"][0]
def fn(cx):
    try:
        ob.fn(cx)
    finally:
        print("log", sp._Rec.log)
import breezy.trace as t
t.log_exception_quietly = lambda *a: __import__('traceback').print_exc()
r=ex.run_path(fn, L, ob.params, ("main", frozenset()), [], 0)
print(r.status, r.msg)
P=L.modules[sp.PROTO]; M=L.modules[sp.MED]; R=L.modules[sp.REQ]
print(M.protocol is P, P.request is R, P.message is L.modules[sp.MSG])
import traceback
orig=P.SmartServerRequestProtocolOne._send_response
def sr(self, resp):
    print("send_response", resp); return orig(self, resp)
P.SmartServerRequestProtocolOne._send_response=sr
r=ex.run_path(fn, L, ob.params, ("main", frozenset()), [], 0)
