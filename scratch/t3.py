import sys
sys.path.insert(0,'/verif')
from symx import explore as ex, core
import harness.C37 as h
ob=[o for o in h.obligations("quick") if o.name=="add_if_new"][0]
L=ob.lifted()
D=L.modules[h.DR]; T=L.modules[h.TG]
print(D.valid_hexsha, T.RefsContainer is D.RefsContainer, T.read_packed_refs is D.read_packed_refs)
o=ex.explore_serial(ob.fn, L, ob.params)
print(o.status, o.msg[:200], o.stats.paths)
