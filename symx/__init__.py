"""symx: replay-based symbolic execution of real Python code on top of z3."""
