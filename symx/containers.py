"""Association-list dict / set whose keys may be symbolic.

Keys are compared with ``==``; comparing a symbolic key forks, so on every path
the keys of a container are pairwise distinct (decided).  Iteration order is
insertion order, like ``dict``.
"""
from __future__ import annotations

from . import core
from .values import SymBase, has_sym

_MISSING = object()


def _eq(a, b):
    if a is b:
        return True
    return bool(a == b)


class SymDict(SymBase):
    __slots__ = ("_k", "_v")

    def __init__(self, init=(), **kw):
        self._k = []
        self._v = []
        if init is not None:
            self.update(init)
        for k, v in kw.items():
            self[k] = v

    def _idx(self, key):
        for i, k in enumerate(self._k):
            if _eq(k, key):
                return i
        return -1

    def __setitem__(self, key, value):
        i = self._idx(key)
        if i < 0:
            self._k.append(key)
            self._v.append(value)
        else:
            self._v[i] = value

    def __getitem__(self, key):
        i = self._idx(key)
        if i < 0:
            raise KeyError(key)
        return self._v[i]

    def __delitem__(self, key):
        i = self._idx(key)
        if i < 0:
            raise KeyError(key)
        del self._k[i]
        del self._v[i]

    def __contains__(self, key):
        return self._idx(key) >= 0

    def __len__(self):
        return len(self._k)

    def __iter__(self):
        return iter(list(self._k))

    def __bool__(self):
        return bool(self._k)

    def __hash__(self):
        core.cur().unsupported("hash(SymDict)")

    def get(self, key, default=None):
        i = self._idx(key)
        return default if i < 0 else self._v[i]

    def setdefault(self, key, default=None):
        i = self._idx(key)
        if i < 0:
            self._k.append(key)
            self._v.append(default)
            return default
        return self._v[i]

    def pop(self, key, default=_MISSING):
        i = self._idx(key)
        if i < 0:
            if default is _MISSING:
                raise KeyError(key)
            return default
        v = self._v[i]
        del self._k[i]
        del self._v[i]
        return v

    def popitem(self):
        if not self._k:
            raise KeyError("popitem(): dictionary is empty")
        return self._k.pop(), self._v.pop()

    def keys(self):
        return list(self._k)

    def values(self):
        return list(self._v)

    def items(self):
        return list(zip(self._k, self._v))

    def clear(self):
        self._k.clear()
        self._v.clear()

    def copy(self):
        d = SymDict()
        d._k = list(self._k)
        d._v = list(self._v)
        return d

    __copy__ = copy

    def update(self, other=(), **kw):
        if isinstance(other, (dict, SymDict)):
            for k, v in other.items():
                self[k] = v
        else:
            for k, v in other:
                self[k] = v
        for k, v in kw.items():
            self[k] = v

    def __eq__(self, other):
        if not isinstance(other, (dict, SymDict)):
            return False
        if len(other) != len(self):
            return False
        for k, v in self.items():
            if isinstance(other, SymDict):
                i = other._idx(k)
                if i < 0:
                    return False
                ov = other._v[i]
            else:
                ov = _MISSING
                for ok, oval in other.items():
                    if _eq(ok, k):
                        ov = oval
                        break
                if ov is _MISSING:
                    return False
            if not _eq(v, ov):
                return False
        return True

    def __ne__(self, other):
        return not self.__eq__(other)

    def __or__(self, other):
        d = self.copy()
        d.update(other)
        return d

    def __repr__(self):
        return "<SymDict %r>" % (self.items(),)


class SymSet(SymBase):
    __slots__ = ("_e",)

    def __init__(self, init=()):
        self._e = []
        for x in init:
            self.add(x)

    def _idx(self, x):
        for i, e in enumerate(self._e):
            if _eq(e, x):
                return i
        return -1

    def add(self, x):
        if self._idx(x) < 0:
            self._e.append(x)

    def discard(self, x):
        i = self._idx(x)
        if i >= 0:
            del self._e[i]

    def remove(self, x):
        i = self._idx(x)
        if i < 0:
            raise KeyError(x)
        del self._e[i]

    def pop(self):
        if not self._e:
            raise KeyError("pop from an empty set")
        return self._e.pop()

    def clear(self):
        self._e.clear()

    def copy(self):
        s = SymSet()
        s._e = list(self._e)
        return s

    def update(self, *others):
        for o in others:
            for x in o:
                self.add(x)

    def __contains__(self, x):
        return self._idx(x) >= 0

    def __len__(self):
        return len(self._e)

    def __iter__(self):
        return iter(list(self._e))

    def __bool__(self):
        return bool(self._e)

    def __hash__(self):
        core.cur().unsupported("hash(SymSet)")

    def union(self, *others):
        s = self.copy()
        s.update(*others)
        return s

    def intersection(self, *others):
        s = SymSet()
        for x in self._e:
            if all(_contains(o, x) for o in others):
                s._e.append(x)
        return s

    def difference(self, *others):
        s = SymSet()
        for x in self._e:
            if not any(_contains(o, x) for o in others):
                s._e.append(x)
        return s

    def symmetric_difference(self, other):
        other = other if isinstance(other, SymSet) else SymSet(other)
        return self.difference(other).union(other.difference(self))

    def difference_update(self, *others):
        self._e = self.difference(*others)._e

    def intersection_update(self, *others):
        self._e = self.intersection(*others)._e

    def issubset(self, other):
        return all(_contains(other, x) for x in self._e)

    def issuperset(self, other):
        return all(x in self for x in other)

    def isdisjoint(self, other):
        return not any(_contains(other, x) for x in self._e)

    def __or__(self, o):
        if not isinstance(o, (set, frozenset, SymSet)):
            return NotImplemented
        return self.union(o)

    __ror__ = __or__

    def __and__(self, o):
        if not isinstance(o, (set, frozenset, SymSet)):
            return NotImplemented
        return self.intersection(o)

    __rand__ = __and__

    def __sub__(self, o):
        if not isinstance(o, (set, frozenset, SymSet)):
            return NotImplemented
        return self.difference(o)

    def __rsub__(self, o):
        if not isinstance(o, (set, frozenset, SymSet)):
            return NotImplemented
        return SymSet(o).difference(self)

    def __xor__(self, o):
        if not isinstance(o, (set, frozenset, SymSet)):
            return NotImplemented
        return self.symmetric_difference(o)

    __rxor__ = __xor__

    def __ior__(self, o):
        self.update(o)
        return self

    def __isub__(self, o):
        self.difference_update(o)
        return self

    def __iand__(self, o):
        self.intersection_update(o)
        return self

    def __eq__(self, o):
        if not isinstance(o, (set, frozenset, SymSet)):
            return False
        return len(o) == len(self) and self.issubset(o)

    def __ne__(self, o):
        return not self.__eq__(o)

    def __le__(self, o):
        return self.issubset(o)

    def __lt__(self, o):
        return len(self) < len(o) and self.issubset(o)

    def __ge__(self, o):
        return self.issuperset(o)

    def __gt__(self, o):
        return len(self) > len(o) and self.issuperset(o)

    def __repr__(self):
        return "<SymSet %r>" % (self._e,)


def _contains(container, x):
    if isinstance(container, (SymSet, SymDict)):
        return x in container
    if has_sym(x):
        for e in container:
            if _eq(e, x):
                return True
        return False
    return x in container


def _needs_sym(x):
    """True if x cannot be hashed natively (contains a symbolic value)."""
    return has_sym(x, depth=3)


def make_dict(pairs, force=False):
    pairs = list(pairs)
    if force or any(_needs_sym(k) for k, _ in pairs):
        return SymDict(pairs)
    return dict(pairs)


def make_set(elems, force=False):
    elems = list(elems)
    if force or any(_needs_sym(e) for e in elems):
        return SymSet(elems)
    return set(elems)
