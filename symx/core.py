"""symx core: replay-based symbolic execution of real Python code on z3.

One *path* = one native execution of the harness in which every value that
depends on a symbolic input is a proxy object (values.py).  Whenever Python
needs a concrete answer (``__bool__``, ``__index__``, an explicit ``choose``)
the engine records a *decision*.  The search is depth first by re-execution:
after a path ends the last decision with an unexplored alternative is flipped
and the harness is run again from scratch with that decision prefix.

Invariant: the path condition held by ``Engine.solver`` is satisfiable at all
times (every added constraint is either a feasible decision alternative or is
checked by ``assume``).
"""
from __future__ import annotations

import time

import z3


class SymxSignal(BaseException):
    """Base of the engine's control-flow exceptions.

    Derives from BaseException so that ``except Exception`` clauses in the code
    under test cannot swallow them.
    """


class PathAbort(SymxSignal):
    """The current path is infeasible / pruned by an assumption."""


class Unsupported(SymxSignal):
    """An operation on a symbolic value that the engine has no model for.

    Makes the whole check inconclusive (never success, never a violation)."""


class Inconclusive(SymxSignal):
    """Budget exceeded, unwinding bound hit, solver unknown..."""


class Violation(SymxSignal):
    """``require`` found a satisfiable negation.  Carries the message."""

    def __init__(self, msg):
        super().__init__(msg)
        self.msg = msg


CUR = None  # the Engine of the path currently being executed (per process)

Z3_TIMEOUT_MS = 60000

# Second-solver cross-check: every CROSSCHECK_EVERY-th query of a process is re-decided by cvc5 (python wheel from the
# offline wheelhouse) on the SMT-LIB2 text z3 prints for it; a sat/unsat disagreement makes the run inconclusive.
import os as _os
CROSSCHECK_EVERY = int(_os.environ.get("VERIF_CROSSCHECK", "0") or 0)
XSTATS = {"seen": 0, "checked": 0, "agreed": 0, "cvc5_unknown": 0}


def cvc5_check(text, tlimit_ms=10000):
    try:
        import cvc5
    except ImportError:
        return None
    slv = cvc5.Solver()
    slv.setOption("tlimit-per", str(tlimit_ms))
    parser = cvc5.InputParser(slv)
    parser.setStringInput(cvc5.InputLanguage.SMT_LIB_2_6, text, "query")
    sm = parser.getSymbolManager()
    res = None
    while True:
        cmd = parser.nextCommand()
        if cmd.isNull():
            break
        out = cmd.invoke(slv, sm).strip()
        if out in ("sat", "unsat", "unknown"):
            res = out
    return res


def cur():
    if CUR is None:
        raise RuntimeError("no symbolic engine active")
    return CUR


class Engine:
    """State of one symbolic path."""

    sym = True

    def __init__(self, prefix=(), frozen=0):
        self.solver = z3.Solver()
        self.solver.set("timeout", Z3_TIMEOUT_MS)
        self.prefix = list(prefix)   # [[choice_idx, alternatives], ...]
        self.frozen = frozen         # decisions below this depth are not ours to flip
        self.trace = []
        self.inputs = []             # (name, kind, payload) in creation order
        self.names = set()
        self.observations = []       # (label, value)
        self.covered = set()
        self.queries = 0
        self.solver_time = 0.0
        self.decisions = 0
        self.requires = 0
        self.poison = None           # reason string if an Unsupported was raised (even if swallowed)
        self.nfresh = 0
        self.xchecked = self.xagreed = 0
        self.pending = None         # (kind, msg) of a raised engine signal; survives being swallowed by
                                     # "except BaseException" clauses in the code under test

    # ---- solver plumbing
    def check(self, *extra):
        t = time.perf_counter()
        self.queries += 1
        r = self.solver.check(*extra)
        self.solver_time += time.perf_counter() - t
        if r == z3.unknown:
            self.poison = "z3 unknown: %s" % self.solver.reason_unknown()
            self.pending = ("inconclusive", self.poison)
            raise Inconclusive(self.poison)
        if CROSSCHECK_EVERY and (XSTATS["seen"] % CROSSCHECK_EVERY) == 0:
            self._crosscheck(extra, r)
        XSTATS["seen"] += 1
        return r == z3.sat

    def _crosscheck(self, extra, r):
        """Second opinion from cvc5 on the same query (every CROSSCHECK_EVERY-th query of this process)."""
        s2 = z3.Solver()
        s2.add(self.solver.assertions())
        for e in extra:
            s2.add(e)
        verdict = cvc5_check("(set-logic ALL)\n" + s2.to_smt2())
        XSTATS["checked"] += 1
        self.xchecked += 1
        if verdict in ("sat", "unsat"):
            if verdict == str(r):
                self.xagreed += 1
            if verdict != str(r):
                self.poison = "solver disagreement: z3 says %s, cvc5 says %s" % (r, verdict)
                self.pending = ("inconclusive", self.poison)
                raise Inconclusive(self.poison)
            XSTATS["agreed"] += 1
        else:
            XSTATS["cvc5_unknown"] += 1

    def add(self, cond):
        self.solver.add(cond)

    def unsupported(self, what):
        self.poison = "unsupported: " + what
        self.pending = ("inconclusive", self.poison)
        raise Unsupported(what)

    def abort(self):
        if self.pending is None:
            self.pending = ("abort", None)
        raise PathAbort()

    def violation(self, msg):
        if self.pending is None:
            self.pending = ("violation", msg)
        raise Violation(msg)

    # ---- decisions
    def _replay(self):
        idx = len(self.trace)
        if idx < len(self.prefix):
            ent = self.prefix[idx]
            self.trace.append([ent[0], ent[1]])
            return ent[1][ent[0]]
        return None

    def decide(self, conds):
        """Choose among mutually exclusive, jointly exhaustive z3 conditions.

        Returns the index of the alternative taken on this path."""
        self.decisions += 1
        idx = len(self.trace)
        if idx < len(self.prefix):
            ent = self.prefix[idx]
            self.trace.append([ent[0], ent[1]])
            k = ent[1][ent[0]]
            self.solver.add(conds[k])
            return k
        feas = []
        n = len(conds)
        for i, c in enumerate(conds):
            if i == n - 1 and not feas:
                feas.append(i)       # exhaustive + path condition sat => last one is feasible
            elif self.check(c):
                feas.append(i)
        if not feas:
            self.abort()
        self.trace.append([0, feas])
        self.solver.add(conds[feas[0]])
        return feas[0]

    def branch(self, cond):
        """Concrete truth value of a z3 Bool on this path (forks)."""
        if z3.is_true(cond):
            return True
        if z3.is_false(cond):
            return False
        return self.decide([cond, z3.Not(cond)]) == 0

    def choose(self, name, values):
        """Structural fork over a list of concrete python values (no solver)."""
        values = list(values)
        if not values:
            self.abort()
        self.decisions += 1
        idx = len(self.trace)
        if idx < len(self.prefix):
            ent = self.prefix[idx]
            self.trace.append([ent[0], ent[1]])
            v = values[ent[1][ent[0]]]
        else:
            self.trace.append([0, list(range(len(values)))])
            v = values[0]
        self._register(name, "choose", v)
        return v

    def enumerate_values(self, zexpr, limit=300):
        """All feasible integer values of zexpr on this path (fork over them)."""
        self.decisions += 1
        idx = len(self.trace)
        if idx < len(self.prefix):
            ent = self.prefix[idx]
            self.trace.append([ent[0], ent[1]])
            v = ent[1][ent[0]]
            self.solver.add(zexpr == v)
            return v
        values = []
        self.solver.push()
        try:
            while self.check():
                v = self.solver.model().eval(zexpr, model_completion=True).as_long()
                values.append(v)
                self.solver.add(zexpr != v)
                if len(values) > limit:
                    self.unsupported("more than %d feasible values to enumerate for %s" % (limit, zexpr))
        finally:
            self.solver.pop()
        if not values:
            self.abort()
        values.sort()
        self.trace.append([0, values])
        self.solver.add(zexpr == values[0])
        return values[0]

    # ---- inputs
    def _register(self, name, kind, payload):
        if name in self.names:
            raise RuntimeError("duplicate input name %r" % name)
        self.names.add(name)
        self.inputs.append((name, kind, payload))

    def fresh_name(self, stem):
        self.nfresh += 1
        return "%s#%d" % (stem, self.nfresh)

    def assume(self, cond):
        from .values import SymBool
        if isinstance(cond, SymBool):
            z = cond.z
        elif isinstance(cond, z3.BoolRef):
            z = cond
        elif cond:
            return
        else:
            self.abort()
        self.solver.add(z)
        if not self.check():
            self.abort()

    def require(self, cond, msg):
        """Assertion: the negation must be unsatisfiable on this path."""
        from .values import SymBool
        self.requires += 1
        if isinstance(cond, SymBool):
            z = cond.z
        elif isinstance(cond, z3.BoolRef):
            z = cond
        else:
            if not cond:
                self.violation(msg)
            return
        if self.check(z3.Not(z)):
            self.solver.add(z3.Not(z))
            self.violation(msg)
        self.solver.add(z)

    def observe(self, label, value):
        self.observations.append((label, value))

    def cover(self, label):
        self.covered.add(label)

    # ---- model extraction
    def model_inputs(self):
        """Concrete inputs (name -> python value) satisfying the path condition."""
        if not self.check():
            raise RuntimeError("path condition unsatisfiable at end of path (engine invariant broken)")
        m = self.solver.model()
        return concretize_inputs(m, self.inputs), m


def concretize_inputs(model, inputs):
    out = {}
    for name, kind, payload in inputs:
        if kind == "choose":
            out[name] = payload
        elif kind == "int":
            out[name] = model.eval(payload, model_completion=True).as_long()
        elif kind == "bool":
            out[name] = z3.is_true(model.eval(payload, model_completion=True))
        elif kind == "bytes":
            out[name] = bytes(model.eval(z, model_completion=True).as_long() if not isinstance(z, int) else z
                              for z in payload)
        elif kind == "str":
            out[name] = "".join(chr(model.eval(z, model_completion=True).as_long()) if not isinstance(z, int) else chr(z)
                                for z in payload)
        else:
            raise RuntimeError(kind)
    return out


def next_prefix(trace, frozen=0):
    """Flip the deepest decision (>= frozen) that has an unexplored alternative."""
    tr = [list(t) for t in trace]
    while len(tr) > frozen:
        choice, alts = tr[-1]
        if choice + 1 < len(alts):
            tr[-1] = [choice + 1, alts]
            return tr
        tr.pop()
    return None
