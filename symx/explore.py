"""Exploration driver: contexts, path execution, validation against the
unlifted implementation, (parallel) depth-first search."""
from __future__ import annotations

import importlib
import multiprocessing as mp
import os
import queue
import time
import traceback

import z3

from . import core
from .containers import SymDict, SymSet
from .core import Engine, Inconclusive, PathAbort, Unsupported, Violation
from .lift import LiftedSet
from .values import SymBool, SymBytes, SymInt, SymSeq, SymStr, mkseq


# ------------------------------------------------------------------ contexts
class _CtxBase:
    def __init__(self, params):
        self.params = params or {}

    def p(self, name, default=None):
        return self.params.get(name, default)


class SymCtx(_CtxBase):
    """Harness-facing API in symbolic mode."""
    sym = True

    def __init__(self, eng, lifted, params, mode):
        super().__init__(params)
        self.eng = eng
        self._lifted = lifted
        self._mode = mode        # ("main", set_of_excluded_ids) | ("witness", id)

    def mod(self, name):
        m = self._lifted.modules.get(name)
        if m is None:
            raise KeyError("module %s was not lifted for this obligation" % name)
        return m

    def real(self, name):
        return importlib.import_module(name)

    def choose(self, name, lo, hi):
        return self.eng.choose(name, range(lo, hi + 1))

    def pick(self, name, values):
        values = list(values)
        i = self.eng.choose(name, range(len(values)))
        return values[i]

    def int(self, name, lo=None, hi=None):
        z = z3.Int(name)
        self.eng._register(name, "int", z)
        if lo is not None:
            self.eng.add(z >= lo)
        if hi is not None:
            self.eng.add(z <= hi)
        return SymInt(z)

    atom = int

    def bool(self, name):
        z = z3.Bool(name)
        self.eng._register(name, "bool", z)
        return SymBool(z)

    def _seq(self, name, n, kind, alphabet, lo, hi):
        zs = [z3.Int("%s[%d]" % (name, i)) for i in range(n)]
        self.eng._register(name, kind, zs)
        for z in zs:
            if alphabet is not None:
                codes = sorted(set(alphabet if kind == "bytes" else [ord(c) for c in alphabet]))
                self.eng.add(z3.Or([z == c for c in codes]))
            else:
                self.eng.add(z3.And(z >= lo, z <= hi))
        return mkseq(kind, zs)

    def bytes(self, name, n, alphabet=None):
        return self._seq(name, n, "bytes", alphabet, 0, 255)

    def str(self, name, n, alphabet=None, lo=0, hi=0x10FFFF):
        return self._seq(name, n, "str", alphabet, lo, hi)

    def assume(self, cond):
        self.eng.assume(cond)

    def require(self, cond, msg):
        self.eng.require(cond, msg)

    def observe(self, label, value):
        self.eng.observe(label, value)

    def cover(self, label):
        self.eng.cover(label)

    def known(self, fid, cond):
        """Declare the input class of a known finding (solver-level predicate)."""
        kind, arg = self._mode
        if kind == "main":
            if fid in arg:
                self.eng.assume(_neg(cond))
        elif kind == "witness":
            if fid == arg:
                self.eng.witness_hit = True
                self.eng.assume(cond)

    def unwind(self, what):
        self.eng.pending = ("inconclusive", "unwinding bound reached: " + what)
        raise Inconclusive("unwinding bound reached: " + what)

    def truth(self, cond):
        """Concrete truth of a condition on this path (forks)."""
        return bool(cond)


def _neg(cond):
    if isinstance(cond, SymBool):
        return SymBool(z3.Not(cond.z))
    if isinstance(cond, z3.BoolRef):
        return z3.Not(cond)
    return not cond


class ConcreteViolation(Exception):
    pass


class ConcreteAbort(Exception):
    pass


class ConcreteCtx(_CtxBase):
    """Same API on concrete inputs, against the unlifted installed modules."""
    sym = False

    def __init__(self, inputs, params, mode=("main", frozenset())):
        super().__init__(params)
        self.inputs = inputs
        self.observations = []
        self.covered = set()
        self._mode = mode

    def mod(self, name):
        return importlib.import_module(name)

    real = mod

    def _get(self, name):
        if name not in self.inputs:
            raise ConcreteAbort("input %r not present in the recorded path" % name)
        return self.inputs[name]

    def choose(self, name, lo, hi):
        return self._get(name)

    def pick(self, name, values):
        return list(values)[self._get(name)]

    def int(self, name, lo=None, hi=None):
        return self._get(name)

    atom = int

    def bool(self, name):
        return self._get(name)

    def bytes(self, name, n, alphabet=None):
        v = self._get(name)
        if len(v) != n:
            raise ConcreteAbort("length mismatch for %s" % name)
        return v

    def str(self, name, n, alphabet=None, lo=0, hi=0x10FFFF):
        v = self._get(name)
        if len(v) != n:
            raise ConcreteAbort("length mismatch for %s" % name)
        return v

    def assume(self, cond):
        if not cond:
            raise ConcreteAbort("assumption false on concrete inputs")

    def require(self, cond, msg):
        if not cond:
            raise ConcreteViolation(msg)

    def observe(self, label, value):
        self.observations.append((label, value))

    def cover(self, label):
        self.covered.add(label)

    def known(self, fid, cond):
        kind, arg = self._mode
        if kind == "main" and fid in arg and cond:
            raise ConcreteAbort("known class %s" % fid)
        if kind == "witness" and fid == arg and not cond:
            raise ConcreteAbort("not in class %s" % fid)

    def unwind(self, what):
        raise ConcreteAbort("unwinding bound: " + what)

    def truth(self, cond):
        return bool(cond)


# ------------------------------------------------------------------ concretisation of observed values
def concretize_value(model, v):
    if isinstance(v, SymInt):
        return model.eval(v.z, model_completion=True).as_long()
    if isinstance(v, SymBool):
        return z3.is_true(model.eval(v.z, model_completion=True))
    if isinstance(v, SymSeq):
        vals = [it if isinstance(it, int) else model.eval(it, model_completion=True).as_long() for it in v.items]
        return bytes(vals) if v.kind == "bytes" else "".join(map(chr, vals))
    if isinstance(v, SymDict):
        return {_hashable(concretize_value(model, k)): concretize_value(model, x) for k, x in v.items()}
    if isinstance(v, SymSet):
        return {_hashable(concretize_value(model, k)) for k in v}
    if isinstance(v, list):
        return [concretize_value(model, x) for x in v]
    if isinstance(v, tuple):
        return tuple(concretize_value(model, x) for x in v)
    if isinstance(v, dict):
        return {k: concretize_value(model, x) for k, x in v.items()}
    if isinstance(v, (set, frozenset)):
        return {concretize_value(model, x) for x in v}
    return v


def _hashable(x):
    if isinstance(x, list):
        return tuple(_hashable(e) for e in x)
    if isinstance(x, tuple):
        return tuple(_hashable(e) for e in x)
    return x


def _norm(v):
    """Normalise containers for comparison of observations."""
    if isinstance(v, (list, tuple)):
        return [_norm(x) for x in v]
    if isinstance(v, dict):
        return {k: _norm(x) for k, x in v.items()}
    if isinstance(v, (set, frozenset)):
        return set(v)
    return v


# ------------------------------------------------------------------ single path
class PathResult:
    __slots__ = ("status", "msg", "eng", "tb")

    def __init__(self, status, eng, msg=None, tb=None):
        self.status = status
        self.eng = eng
        self.msg = msg
        self.tb = tb


def run_path(fn, lifted, params, mode, prefix, frozen):
    eng = Engine(prefix, frozen)
    core.CUR = eng
    cx = SymCtx(eng, lifted, params, mode)
    try:
        res = _run_path(fn, cx, eng)
    finally:
        core.CUR = None
    # an engine signal that was swallowed by the code under test (e.g. "except BaseException") still counts
    if eng.pending is not None and res.status in ("ok", "exception", "violation"):
        kind, msg = eng.pending
        if kind == "abort":
            return PathResult("abort", eng)
        if kind == "inconclusive":
            return PathResult("inconclusive", eng, msg + ("" if res.status != "ok" else " (swallowed by the code under test)"))
        if kind == "violation" and res.status != "violation":
            return PathResult("violation", eng, msg)
    return res


def _run_path(fn, cx, eng):
    try:
        fn(cx)
        return PathResult("ok", eng)
    except PathAbort:
        return PathResult("abort", eng)
    except Violation as v:
        return PathResult("violation", eng, v.msg)
    except AssertionError as e:
        return PathResult("violation", eng, "assert: %s" % (e,))
    except Unsupported as e:
        return PathResult("inconclusive", eng, "unsupported: %s" % (e,), traceback.format_exc())
    except Inconclusive as e:
        return PathResult("inconclusive", eng, str(e))
    except RecursionError:
        return PathResult("inconclusive", eng, "recursion limit", traceback.format_exc())
    except Exception as e:   # unexpected exception escaping the harness: candidate violation
        gap = _stub_gap(e)
        if gap:
            return PathResult("inconclusive", eng, gap, traceback.format_exc())
        return PathResult("exception", eng, _exc_msg(e), _safe_tb())


def _exc_msg(e):
    """type and message of an exception whose arguments may be symbolic values (which cannot be rendered)"""
    eng = core.CUR
    before = (eng.pending, eng.poison) if eng is not None else None
    try:
        return "%s: %s" % (type(e).__name__, e)
    except BaseException:
        if eng is not None:
            eng.pending, eng.poison = before      # rendering the message is not part of the execution under test
        return "%s: <message contains symbolic values>" % type(e).__name__


def _safe_tb():
    eng = core.CUR
    before = (eng.pending, eng.poison) if eng is not None else None
    try:
        return traceback.format_exc()
    except BaseException:
        if eng is not None:
            eng.pending, eng.poison = before
        return "<traceback contains symbolic values>"


def _stub_gap(e):
    """The code under test asked a harness stub for something the stub does not provide (an attribute it lacks, a call
    signature it does not accept).  That is an incomplete harness, not a property violation: report it as inconclusive."""
    if isinstance(e, AttributeError):
        tb = e.__traceback__
        last = None
        while tb is not None:
            last = tb
            tb = tb.tb_next
        if last is not None and "/harness/" in last.tb_frame.f_code.co_filename:
            # the harness itself looked up a name the code under test no longer has (renamed / removed entry point)
            return "the harness refers to %r, which the code under test does not provide: %s" % (getattr(e, "name", "?"), e)
        obj = getattr(e, "obj", None)
        if obj is not None:
            t = obj if isinstance(obj, type) else type(obj)
            if (getattr(t, "__module__", "") or "").startswith("harness."):
                return "harness stub %s does not provide attribute %r (incomplete harness, not a finding)" % (
                    t.__qualname__, getattr(e, "name", "?"))
    if isinstance(e, TypeError) and e.args and isinstance(e.args[0], str):
        msg = e.args[0]
        head = msg.split("(", 1)[0]
        if "got an unexpected keyword" in msg or "positional argument" in msg or "required" in msg:
            import sys
            tb = e.__traceback__
            last = None
            while tb is not None:
                last = tb
                tb = tb.tb_next
            if last is not None and "/harness/" in last.tb_frame.f_code.co_filename:
                # raised at a call made BY the harness (the callee never started): the entry point's signature changed
                return "the harness calls %s with a signature the code under test no longer has: %s" % (head, msg)
            first = head.strip().split(".")[0]
            for name, mod in list(sys.modules.items()):
                if name.startswith("harness.") and mod is not None and first and hasattr(mod, first):
                    return "harness stub %s was called with a signature it does not accept: %s" % (head, msg)
    return None


def run_concrete(fn, inputs, params, mode=("main", frozenset())):
    """Run the harness natively on concrete inputs against the installed code.

    Returns (status, msg, ctx); status in ok / violation / exception / abort."""
    cx = ConcreteCtx(inputs, params, mode)
    try:
        fn(cx)
        return "ok", None, cx
    except ConcreteViolation as v:
        return "violation", str(v), cx
    except AssertionError as e:
        return "violation", "assert: %s" % (e,), cx
    except ConcreteAbort as e:
        return "abort", str(e), cx
    except Exception as e:
        return "exception", "%s: %s" % (type(e).__name__, e), cx


def validate_path(fn, params, res, mode):
    """Replay a completed symbolic path concretely on the unlifted code and
    compare observations.  Returns (ok, detail, inputs)."""
    eng = res.eng
    inputs, model = eng.model_inputs()
    status, msg, cx = run_concrete(fn, inputs, params, mode)
    if status != "ok":
        return False, "symbolic path completed but the concrete run on the same inputs gave %s: %s" % (status, msg), inputs
    sym_obs = [(l, _norm(concretize_value(model, v))) for l, v in eng.observations]
    con_obs = [(l, _norm(v)) for l, v in cx.observations]
    if sym_obs != con_obs:
        return False, "observations differ: symbolic %r vs concrete %r" % (sym_obs, con_obs), inputs
    if eng.covered != cx.covered:
        return False, "cover labels differ: %r vs %r" % (sorted(eng.covered), sorted(cx.covered)), inputs
    return True, None, inputs


# ------------------------------------------------------------------ search
class Stats:
    FIELDS = ("paths", "aborted", "queries", "decisions", "requires", "validated", "max_depth", "crosschecked",
              "crosscheck_agreed")

    def __init__(self):
        self.paths = self.aborted = self.queries = self.decisions = self.requires = self.validated = 0
        self.crosschecked = self.crosscheck_agreed = 0
        self.max_depth = 0
        self.solver_time = 0.0
        self.covered = {}
        self.samples = []

    def add_path(self, res):
        e = res.eng
        self.queries += e.queries
        self.solver_time += e.solver_time
        self.decisions += e.decisions
        self.requires += e.requires
        self.crosschecked += e.xchecked
        self.crosscheck_agreed += e.xagreed
        self.max_depth = max(self.max_depth, len(e.trace))
        if res.status == "abort":
            self.aborted += 1
        else:
            self.paths += 1
            for c in e.covered:
                self.covered[c] = self.covered.get(c, 0) + 1

    def merge(self, o):
        for f in self.FIELDS:
            if f == "max_depth":
                self.max_depth = max(self.max_depth, o.max_depth)
            else:
                setattr(self, f, getattr(self, f) + getattr(o, f))
        self.solver_time += o.solver_time
        for k, v in o.covered.items():
            self.covered[k] = self.covered.get(k, 0) + v
        for s in o.samples:
            if len(self.samples) < 6:
                self.samples.append(s)

    def as_dict(self):
        d = {f: getattr(self, f) for f in self.FIELDS}
        d["solver_time_s"] = round(self.solver_time, 3)
        d["covered"] = dict(self.covered)
        return d


class Outcome:
    """Result of exploring one obligation."""

    def __init__(self):
        self.stats = Stats()
        self.status = "ok"          # ok | violation | inconclusive
        self.msg = None
        self.inputs = None          # counterexample inputs (replayed)
        self.detail = None
        self.wall = 0.0


def _jsonable(v):
    if isinstance(v, bytes):
        return {"bytes": v.hex(), "repr": repr(v)}
    if isinstance(v, dict):
        return {str(k): _jsonable(x) for k, x in v.items()}
    if isinstance(v, (list, tuple)):
        return [_jsonable(x) for x in v]
    return v


def _handle(fn, params, mode, res, stats, validate_every, counter):
    """Post-process one path result.  Returns None to continue or
    (status, msg, inputs, detail) to stop the search."""
    stats.add_path(res)
    if res.status == "abort":
        return None
    if mode[0] == "witness" and not getattr(res.eng, "witness_hit", False):
        return None          # this path never entered the class being witnessed: irrelevant for the witness run
    if res.status == "inconclusive":
        return ("inconclusive", res.msg, None, res.tb)
    if res.status == "ok":
        if validate_every and counter[0] % validate_every == 0:
            ok, detail, inputs = validate_path(fn, params, res, mode)
            if not ok:
                return ("inconclusive", "engine/encoding mismatch: " + detail, inputs, None)
            stats.validated += 1
            if len(stats.samples) < 3:
                stats.samples.append({"inputs": _jsonable(inputs), "decisions": len(res.eng.trace)})
        counter[0] += 1
        return None
    # violation / exception: replay on the unlifted code before believing it
    inputs, _model = res.eng.model_inputs()
    status, msg, _cx = run_concrete(fn, inputs, params, mode)
    if res.status == "violation" and status == "violation":
        return ("violation", msg, inputs, "symbolic: %s" % res.msg)
    if res.status == "exception" and status == "exception":
        return ("violation", "unexpected exception " + msg, inputs, res.tb)
    return ("inconclusive",
            "counterexample did not reproduce on the unlifted code (symbolic %s: %s; concrete %s: %s)" %
            (res.status, res.msg, status, msg), inputs, res.tb)


def explore_serial(fn, lifted, params, mode=("main", frozenset()), timeout=600, validate_every=1, max_paths=None):
    out = Outcome()
    t0 = time.time()
    prefix = []
    counter = [0]
    while prefix is not None:
        res = run_path(fn, lifted, params, mode, prefix, 0)
        stop = _handle(fn, params, mode, res, out.stats, validate_every, counter)
        if stop:
            out.status, out.msg, out.inputs, out.detail = stop
            break
        prefix = core.next_prefix(res.eng.trace, 0)
        if time.time() - t0 > timeout:
            out.status, out.msg = "inconclusive", "time budget of %ds exceeded" % timeout
            break
        if max_paths and out.stats.paths >= max_paths:
            out.status, out.msg = "inconclusive", "path budget exceeded"
            break
    out.wall = time.time() - t0
    return out


def _worker(fn, lifted, params, mode, tasks, results, pending, stop, nworkers, validate_every, deadline):
    stats = Stats()
    counter = [os.getpid() % 7]
    try:
        while not stop.is_set():
            try:
                prefix, frozen = tasks.get(timeout=0.05)
            except queue.Empty:
                if pending.value == 0:
                    break
                continue
            while prefix is not None and not stop.is_set():
                res = run_path(fn, lifted, params, mode, prefix, frozen)
                halt = _handle(fn, params, mode, res, stats, validate_every, counter)
                if halt:
                    results.put(("halt", halt))
                    stop.set()
                    break
                trace = res.eng.trace
                # share work: hand the shallowest unexplored alternatives to idle workers
                try:
                    need = tasks.qsize() < nworkers
                except NotImplementedError:
                    need = True
                if need:
                    for i in range(frozen, len(trace)):
                        choice, alts = trace[i]
                        if choice + 1 < len(alts):
                            base = [list(t) for t in trace[:i]]
                            with pending.get_lock():
                                pending.value += len(alts) - choice - 1
                            for j in range(choice + 1, len(alts)):
                                tasks.put((base + [[j, alts]], i + 1))
                            trace[i] = [choice, alts[:choice + 1]]
                            break
                prefix = core.next_prefix(trace, frozen)
                if time.time() > deadline:
                    results.put(("halt", ("inconclusive", "time budget exceeded", None, None)))
                    stop.set()
                    break
            with pending.get_lock():
                pending.value -= 1
    except BaseException:
        results.put(("halt", ("inconclusive", "engine error in worker", None, traceback.format_exc())))
        stop.set()
    finally:
        results.put(("stats", stats))


def explore(fn, lifted, params=None, mode=("main", frozenset()), timeout=600, validate_every=1, workers=None):
    """Explore all paths of harness *fn*.  Parallel when workers > 1."""
    workers = workers or int(os.environ.get("VERIF_WORKERS", "0")) or min(16, os.cpu_count() or 1)
    if workers <= 1:
        return explore_serial(fn, lifted, params, mode, timeout, validate_every)
    out = Outcome()
    t0 = time.time()
    ctx = mp.get_context("fork")
    tasks = ctx.Queue()
    results = ctx.Queue()
    pending = ctx.Value("i", 1)
    stop = ctx.Event()
    tasks.put(([], 0))
    deadline = t0 + timeout
    procs = [ctx.Process(target=_worker, args=(fn, lifted, params, mode, tasks, results, pending, stop, workers,
                                               validate_every, deadline), daemon=True) for _ in range(workers)]
    for p in procs:
        p.start()
    nstats = 0
    halts = []
    while nstats < workers:
        try:
            kind, payload = results.get(timeout=1.0)
        except queue.Empty:
            if not any(p.is_alive() for p in procs) and results.empty():
                halts.append(("inconclusive", "worker processes died", None, None))
                break
            if time.time() > deadline + 30:
                stop.set()
                halts.append(("inconclusive", "time budget exceeded (hard)", None, None))
                break
            continue
        if kind == "stats":
            nstats += 1
            out.stats.merge(payload)
        else:
            halts.append(payload)
    for p in procs:
        p.join(timeout=5)
        if p.is_alive():
            p.terminate()
    tasks.cancel_join_thread()
    results.cancel_join_thread()
    if halts:
        # prefer a confirmed violation over inconclusive noise from other workers
        halts.sort(key=lambda h: 0 if h[0] == "violation" else 1)
        out.status, out.msg, out.inputs, out.detail = halts[0]
    out.wall = time.time() - t0
    return out
