"""AST lifting pass and shadow-module loader.

The installed module is never touched: its *current source file* is parsed,
rewritten and compiled into a separate module object.  Rewrites only the
constructs CPython would execute in C without consulting a proxy object:

* every call ``f(a...)``            -> ``_symrt_.call(f, a...)``
* ``a % b``                         -> ``_symrt_.mod(a, b)``
* f-strings                         -> ``_symrt_.fstr([...])``
* ``a in b`` / ``a not in b``       -> ``_symrt_.contains(b, a)``
* (symdict=True) dict/set displays, comprehensions and ``dict()``/``set()``
  calls                             -> association-list containers
"""
from __future__ import annotations

import ast
import builtins
import hashlib
import importlib
import importlib.util
import sys
import types

from . import rt

RT_NAME = "_symrt_"
_NO_WRAP = {"super", "locals", "globals", "vars", "eval", "exec", "dir", "__import__", "breakpoint"}


def _rt_attr(name):
    return ast.Attribute(value=ast.Name(id=RT_NAME, ctx=ast.Load()), attr=name, ctx=ast.Load())


class Lifter(ast.NodeTransformer):
    def __init__(self, symdict=False):
        self.symdict = symdict

    def visit_Call(self, node):
        self.generic_visit(node)
        f = node.func
        if isinstance(f, ast.Name) and f.id in _NO_WRAP:
            return node
        if self.symdict and isinstance(f, ast.Name) and f.id in ("dict", "set") :
            return ast.copy_location(ast.Call(
                func=ast.Attribute(value=_rt_attr("DictMode"), attr=f.id + "_", ctx=ast.Load()),
                args=node.args, keywords=node.keywords), node)
        return ast.copy_location(ast.Call(func=_rt_attr("call"), args=[f] + node.args, keywords=node.keywords), node)

    def visit_BinOp(self, node):
        self.generic_visit(node)
        if isinstance(node.op, ast.Mod):
            return ast.copy_location(ast.Call(func=_rt_attr("mod"), args=[node.left, node.right], keywords=[]), node)
        return node

    def visit_JoinedStr(self, node):
        self.generic_visit(node)
        parts = []
        for v in node.values:
            if isinstance(v, ast.Constant):
                parts.append(v)
            else:
                spec = v.format_spec if v.format_spec is not None else ast.Constant(value="")
                parts.append(ast.Tuple(elts=[v.value, ast.Constant(value=v.conversion), spec], ctx=ast.Load()))
        return ast.copy_location(ast.Call(func=_rt_attr("fstr"), args=[ast.List(elts=parts, ctx=ast.Load())],
                                          keywords=[]), node)

    def visit_FormattedValue(self, node):
        # only reached for nested format specs; handled by visit_JoinedStr of the parent
        self.generic_visit(node)
        return node

    def visit_Compare(self, node):
        self.generic_visit(node)
        if len(node.ops) == 1 and isinstance(node.ops[0], (ast.In, ast.NotIn)):
            c = ast.Call(func=_rt_attr("contains"), args=[node.comparators[0], node.left], keywords=[])
            if isinstance(node.ops[0], ast.NotIn):
                c = ast.UnaryOp(op=ast.Not(), operand=c)
            return ast.copy_location(c, node)
        return node

    # ---- symdict mode
    def visit_Dict(self, node):
        self.generic_visit(node)
        if not self.symdict or any(k is None for k in node.keys):
            return node
        return ast.copy_location(ast.Call(
            func=ast.Attribute(value=_rt_attr("DictMode"), attr="mkdict", ctx=ast.Load()),
            args=[ast.List(elts=node.keys, ctx=ast.Load()), ast.List(elts=node.values, ctx=ast.Load())],
            keywords=[]), node)

    def visit_Set(self, node):
        self.generic_visit(node)
        if not self.symdict:
            return node
        return ast.copy_location(ast.Call(
            func=ast.Attribute(value=_rt_attr("DictMode"), attr="mkset", ctx=ast.Load()),
            args=[ast.List(elts=node.elts, ctx=ast.Load())], keywords=[]), node)

    def visit_SetComp(self, node):
        self.generic_visit(node)
        if not self.symdict:
            # {e for ...} behaves like set([e for ...]): a real set unless an element is symbolic
            return ast.copy_location(ast.Call(
                func=_rt_attr("m_set"),
                args=[ast.ListComp(elt=node.elt, generators=node.generators)], keywords=[]), node)
        return ast.copy_location(ast.Call(
            func=ast.Attribute(value=_rt_attr("DictMode"), attr="mkset", ctx=ast.Load()),
            args=[ast.ListComp(elt=node.elt, generators=node.generators)], keywords=[]), node)

    def visit_DictComp(self, node):
        self.generic_visit(node)
        pair = ast.Tuple(elts=[node.key, node.value], ctx=ast.Load())
        if not self.symdict:
            return ast.copy_location(ast.Call(
                func=_rt_attr("m_dict"),
                args=[ast.ListComp(elt=pair, generators=node.generators)], keywords=[]), node)
        return ast.copy_location(ast.Call(
            func=ast.Attribute(value=_rt_attr("DictMode"), attr="dict_", ctx=ast.Load()),
            args=[ast.ListComp(elt=pair, generators=node.generators)], keywords=[]), node)


class _PkgView:
    """Wraps a real (unlifted) package/module as seen from lifted code:

    * submodules that have been lifted resolve to their lifted version;
    * names the module merely re-exports from a lifted module (``from dulwich.repo import RefsContainer`` where
      RefsContainer lives in the lifted dulwich.refs) resolve to the lifted object, so that base classes and helper
      functions of lifted code are the lifted ones."""

    def __init__(self, real, lifted):
        self.__dict__["_real"] = real
        self.__dict__["_lifted"] = lifted

    def __getattr__(self, name):
        real = self.__dict__["_real"]
        full = real.__name__ + "." + name
        lifted = self.__dict__["_lifted"]
        if full in lifted:
            return lifted[full]
        v = getattr(real, name)
        if isinstance(v, types.ModuleType):
            if v.__name__ in lifted:
                return lifted[v.__name__]
            if any(k.startswith(v.__name__ + ".") for k in lifted):
                return _PkgView(v, lifted)
            return v
        home = getattr(v, "__module__", None)
        if isinstance(home, str) and home in lifted and home != real.__name__:
            n = getattr(v, "__name__", None)
            src = sys.modules.get(home)
            if n and src is not None and getattr(src, n, None) is v and hasattr(lifted[home], n):
                return getattr(lifted[home], n)
        return v


def _make_import(lifted):
    real_import = builtins.__import__

    def _import(name, globals=None, locals=None, fromlist=(), level=0):
        mod = real_import(name, globals, locals, fromlist, level)
        if not lifted:
            return mod
        if level:
            pkg = globals.get("__package__") or globals["__name__"].rpartition(".")[0]
            base = pkg.rsplit(".", level - 1)[0] if level > 1 else pkg
            absname = base + ("." + name if name else "")
        else:
            absname = name
        if fromlist:
            if absname in lifted:
                return lifted[absname]
            return _PkgView(mod, lifted)
        # plain "import a.b.c" binds the top-level package
        top = absname.partition(".")[0]
        if any(k == top or k.startswith(top + ".") for k in lifted):
            return lifted.get(top) or _PkgView(mod, lifted)
        return mod
    return _import


class LiftedSet:
    """A group of lifted modules that reference each other."""

    def __init__(self):
        self.modules = {}
        self.sources = {}

    def load(self, modname, symdict=False, patch=None):
        """Lift module *modname* from its current source.  Modules lifted
        earlier into the same set are visible to its imports."""
        if modname in self.modules:
            return self.modules[modname]
        spec = importlib.util.find_spec(modname)
        if spec is None or not spec.origin or not spec.origin.endswith(".py"):
            raise ImportError("cannot lift %s (no python source)" % modname)
        importlib.import_module(modname)       # make sure the real one (and its deps) is importable/initialised
        path = spec.origin
        with open(path, "rb") as f:
            raw = f.read()
        self.sources[modname] = (path, hashlib.sha1(raw).hexdigest())
        tree = ast.parse(raw, path)
        tree = Lifter(symdict=symdict).visit(tree)
        ast.fix_missing_locations(tree)
        mod = types.ModuleType(modname)
        mod.__file__ = path
        mod.__spec__ = spec
        is_pkg = spec.submodule_search_locations is not None
        mod.__package__ = modname if is_pkg else modname.rpartition(".")[0]
        if is_pkg:
            mod.__path__ = list(spec.submodule_search_locations)
        mod.__dict__[RT_NAME] = rt
        bi = dict(builtins.__dict__)
        bi["__import__"] = _make_import(self.modules)
        mod.__dict__["__builtins__"] = bi
        mod.__dict__["__symx_lifted__"] = True
        code = compile(tree, path, "exec")
        exec(code, mod.__dict__)
        self._relink_lazy(mod)
        if patch:
            patch(mod)
        self.modules[modname] = mod
        return mod


def _lazy_target(v):
    """(dotted target name) of a breezy.lazy_import placeholder, else None."""
    try:
        from breezy.lazy_import import ImportReplacer
    except ImportError:
        return None
    if type(v) is not ImportReplacer:
        return None
    path = object.__getattribute__(v, "_module_path")
    member = object.__getattribute__(v, "_member")
    return ".".join(path) + ("." + member if member else "")


def _relink(self, mod):
    """Lazy imports in a lifted module must also resolve to lifted modules."""
    for name, v in list(mod.__dict__.items()):
        target = _lazy_target(v)
        if target and target in self.modules:
            mod.__dict__[name] = self.modules[target]


LiftedSet._relink_lazy = _relink


def source_sha(obj):
    """SHA-1 of the source text of a function/class (for the evidence)."""
    import inspect
    try:
        src = inspect.getsource(obj)
    except (OSError, TypeError):
        return None
    return hashlib.sha1(src.encode("utf-8")).hexdigest()
