"""Generic backtracking regex matcher over concrete-length symbolic sequences.

Walks the ``re._parser`` tree of whatever compiled pattern object the code
under test built, forking on character tests in CPython's priority order.
"""
from __future__ import annotations

import re
import re._constants as sc
import re._parser as sp

import z3

from . import core
from .values import SymSeq, item_in, mkseq, seq_items, seq_kind, zand, znot, zor, STR_WS, BYTES_WS

_TREE_CACHE = {}


def _tree(pattern, flags):
    key = (pattern, flags)
    t = _TREE_CACHE.get(key)
    if t is None:
        t = _TREE_CACHE[key] = sp.parse(pattern, flags & ~re.DEBUG)
    return t


def _rng(z, lo, hi):
    if isinstance(z, int):
        return lo <= z <= hi
    return z3.And(z >= lo, z <= hi)


def _cat_cond(z, cat, is_str, ascii_flag):
    uni = is_str and not ascii_flag
    if cat in (sc.CATEGORY_DIGIT, sc.CATEGORY_NOT_DIGIT):
        if uni:
            # unicode digits above ASCII are not modelled: loud if reachable
            c = zor([_rng(z, 48, 57), _nonascii_unsupported(z, "\\d")])
        else:
            c = _rng(z, 48, 57)
        return znot(c) if cat == sc.CATEGORY_NOT_DIGIT else c
    if cat in (sc.CATEGORY_SPACE, sc.CATEGORY_NOT_SPACE):
        c = item_in(z, STR_WS if uni else BYTES_WS)
        return znot(c) if cat == sc.CATEGORY_NOT_SPACE else c
    if cat in (sc.CATEGORY_WORD, sc.CATEGORY_NOT_WORD):
        c = zor([_rng(z, 48, 57), _rng(z, 65, 90), _rng(z, 97, 122), (z == 95)])
        if uni:
            c = zor([c, _nonascii_unsupported(z, "\\w")])
        return znot(c) if cat == sc.CATEGORY_NOT_WORD else c
    core.cur().unsupported("regex category %s" % cat)


class _NonAsciiMarker:
    pass


def _nonascii_unsupported(z, what):
    """Unicode-aware category on a possibly non-ASCII symbolic char: make it loud."""
    eng = core.cur()
    if isinstance(z, int):
        if z >= 128:
            import unicodedata
            ch = chr(z)
            if what == "\\d":
                return ch.isdigit() and unicodedata.category(ch) == "Nd"
            return ch.isalnum() or ch == "_"
        return False
    if eng.branch(z >= 128):
        eng.unsupported("regex %s on non-ASCII symbolic character" % what)
    return False


def _in_cond(z, items, is_str, ascii_flag, ignorecase):
    neg = False
    conds = []
    for op, av in items:
        if op is sc.NEGATE:
            neg = True
        elif op is sc.LITERAL:
            conds.append(_lit(z, av, ignorecase))
        elif op is sc.RANGE:
            if ignorecase:
                core.cur().unsupported("regex range with IGNORECASE")
            conds.append(_rng(z, av[0], av[1]))
        elif op is sc.CATEGORY:
            conds.append(_cat_cond(z, av, is_str, ascii_flag))
        else:
            core.cur().unsupported("regex IN item %s" % (op,))
    c = zor(conds)
    return znot(c) if neg else c


def _lit(z, av, ignorecase):
    if ignorecase:
        ch = chr(av)
        alts = {av, ord(ch.lower()) if len(ch.lower()) == 1 else av, ord(ch.upper()) if len(ch.upper()) == 1 else av}
        if av >= 128:
            core.cur().unsupported("regex IGNORECASE non-ASCII literal")
        return item_in(z, tuple(sorted(alts)))
    if isinstance(z, int):
        return z == av
    return z == av


class _Matcher:
    def __init__(self, items, is_str, flags, endpos=None):
        self.eng = core.cur()
        self.s = items
        self.n = len(items) if endpos is None else endpos
        self.is_str = is_str
        self.flags = flags
        self.ascii = bool(flags & re.ASCII)
        self.ic = bool(flags & re.IGNORECASE)
        self.dotall = bool(flags & re.DOTALL)
        self.multiline = bool(flags & re.MULTILINE)
        if flags & re.LOCALE:
            self.eng.unsupported("regex LOCALE flag")

    def t(self, c):
        return c if isinstance(c, bool) else self.eng.branch(c)

    def is_nl(self, pos):
        it = self.s[pos]
        return self.t((it == 10) if isinstance(it, int) else (it == 10))

    def is_word(self, pos):
        if pos < 0 or pos >= self.n:
            return False
        return self.t(_cat_cond(self.s[pos], sc.CATEGORY_WORD, self.is_str, self.ascii))

    def m(self, nodes, i, pos, groups, k):
        """Match nodes[i:] at pos; on success call k(pos, groups); None = fail."""
        if i == len(nodes):
            return k(pos, groups)
        op, av = nodes[i]

        def nxt(p, g):
            return self.m(nodes, i + 1, p, g, k)

        if op is sc.LITERAL or op is sc.NOT_LITERAL or op is sc.ANY or op is sc.IN:
            if pos >= self.n:
                return None
            z = self.s[pos]
            if op is sc.LITERAL:
                c = _lit(z, av, self.ic)
            elif op is sc.NOT_LITERAL:
                c = znot(_lit(z, av, self.ic))
            elif op is sc.ANY:
                c = True if self.dotall else ((z != 10) if isinstance(z, int) else (z != 10))
            else:
                c = _in_cond(z, av, self.is_str, self.ascii, self.ic)
            if self.t(c):
                return nxt(pos + 1, groups)
            return None
        if op is sc.AT:
            if av is sc.AT_END:
                if pos == self.n:
                    return nxt(pos, groups)
                if pos == self.n - 1 and self.is_nl(pos):
                    return nxt(pos, groups)
                if self.multiline and pos < self.n and self.is_nl(pos):
                    return nxt(pos, groups)
                return None
            if av is sc.AT_BEGINNING:
                if pos == 0:
                    return nxt(pos, groups)
                if self.multiline and self.is_nl(pos - 1):
                    return nxt(pos, groups)
                return None
            if av is sc.AT_BEGINNING_STRING:
                return nxt(pos, groups) if pos == 0 else None
            if av is sc.AT_END_STRING:
                return nxt(pos, groups) if pos == self.n else None
            if av is sc.AT_BOUNDARY or av is sc.AT_NON_BOUNDARY:
                if self.n == 0:
                    b = False
                else:
                    b = self.is_word(pos - 1) != self.is_word(pos)
                if b == (av is sc.AT_BOUNDARY):
                    return nxt(pos, groups)
                return None
            self.eng.unsupported("regex AT %s" % (av,))
        if op is sc.SUBPATTERN:
            gid, add_flags, del_flags, sub = av
            if add_flags or del_flags:
                inner = _Matcher(self.s, self.is_str, (self.flags | add_flags) & ~del_flags, self.n)

                def after_scoped(p, g):
                    g2 = g
                    if gid is not None:
                        g2 = dict(g)
                        g2[gid] = (pos, p)
                        g2["last"] = gid
                    return nxt(p, g2)
                return inner.m(list(sub), 0, pos, groups, after_scoped)

            def after(p, g):
                g2 = g
                if gid is not None:
                    g2 = dict(g)
                    g2[gid] = (pos, p)
                    g2["last"] = gid
                return nxt(p, g2)
            return self.m(list(sub), 0, pos, groups, after)
        if op is sc.BRANCH:
            for alt in av[1]:
                r = self.m(list(alt), 0, pos, groups, nxt)
                if r is not None:
                    return r
            return None
        if op is sc.MAX_REPEAT or op is sc.MIN_REPEAT:
            lo, hi, sub = av
            sub = list(sub)
            greedy = op is sc.MAX_REPEAT

            def rep(count, p, g):
                def more():
                    if hi is not sc.MAXREPEAT and count >= hi:
                        return None

                    def again(p2, g2):
                        if p2 == p and count >= lo:
                            return None          # empty iteration cannot make progress
                        return rep(count + 1, p2, g2)
                    return self.m(sub, 0, p, g, again)

                def stop():
                    return nxt(p, g) if count >= lo else None
                if greedy:
                    r = more()
                    return r if r is not None else stop()
                r = stop()
                return r if r is not None else more()
            return rep(0, pos, groups)
        if op is sc.ASSERT or op is sc.ASSERT_NOT:
            direction, sub = av
            if direction >= 0:
                ok = self.m(list(sub), 0, pos, groups, lambda p, g: (p, g)) is not None
            else:
                lo_w, hi_w = sub.getwidth()
                if lo_w != hi_w:
                    self.eng.unsupported("variable-width look-behind")
                if pos - lo_w < 0:
                    ok = False
                else:
                    full = _Matcher(self.s, self.is_str, self.flags, None)
                    full.n = self.n
                    ok = full.m(list(sub), 0, pos - lo_w, groups,
                                lambda p, g: (p, g) if p == pos else None) is not None
            if (op is sc.ASSERT) == ok:
                return nxt(pos, groups)
            return None
        if op is sc.GROUPREF:
            span = groups.get(av)
            if span is None:
                return None
            a, b = span
            w = b - a
            if pos + w > self.n:
                return None
            from .values import zeq
            if self.t(zand([zeq(self.s[a + j], self.s[pos + j]) for j in range(w)])):
                return nxt(pos + w, groups)
            return None
        self.eng.unsupported("regex op %s" % (op,))


class SymMatch:
    """Stand-in for re.Match over a symbolic subject."""

    def __init__(self, pattern, subject, kind, start, end, groups):
        self.re = pattern
        self.string = subject
        self._kind = kind
        self._items = seq_items(subject)
        self._start = start
        self._end = end
        self._groups = groups
        self.lastindex = groups.get("last")
        self.pos = 0
        self.endpos = len(self._items)

    @property
    def lastgroup(self):
        if self.lastindex is None:
            return None
        for name, idx in self.re.groupindex.items():
            if idx == self.lastindex:
                return name
        return None

    def _gid(self, g):
        if isinstance(g, (str, bytes)):
            return self.re.groupindex[g]
        return g

    def span(self, g=0):
        g = self._gid(g)
        if g == 0:
            return (self._start, self._end)
        if g < 0 or g > self.re.groups:
            raise IndexError("no such group")
        return self._groups.get(g, (-1, -1))

    def start(self, g=0):
        return self.span(g)[0]

    def end(self, g=0):
        return self.span(g)[1]

    def _one(self, g, default=None):
        a, b = self.span(g)
        if a < 0:
            return default
        return mkseq(self._kind, self._items[a:b])

    def group(self, *gs):
        if not gs:
            return self._one(0)
        if len(gs) == 1:
            return self._one(gs[0])
        return tuple(self._one(g) for g in gs)

    def __getitem__(self, g):
        return self._one(g)

    def groups(self, default=None):
        return tuple(self._one(g, default) for g in range(1, self.re.groups + 1))

    def groupdict(self, default=None):
        return {name: self._one(idx, default) for name, idx in self.re.groupindex.items()}

    def __bool__(self):
        return True


def _prep(pattern, subject):
    kind = seq_kind(subject)
    pat_kind = "str" if isinstance(pattern.pattern, str) else "bytes"
    if kind != pat_kind:
        raise TypeError("cannot use a %s pattern on a %s-like object" % (pat_kind, kind))
    return kind, seq_items(subject)


def match_at(pattern, subject, start, full=False, pos_end=None):
    kind, items = _prep(pattern, subject)
    tree = _tree(pattern.pattern, pattern.flags)
    m = _Matcher(items, kind == "str", pattern.flags, pos_end)

    def done(p, g):
        if full and p != m.n:
            return None
        return (p, g)
    r = m.m(list(tree), 0, start, {}, done)
    if r is None:
        return None
    return SymMatch(pattern, subject, kind, start, r[0], r[1])


def p_match(pattern, subject, pos=0, endpos=None):
    return match_at(pattern, subject, int(pos), False, endpos)


def p_fullmatch(pattern, subject, pos=0, endpos=None):
    return match_at(pattern, subject, int(pos), True, endpos)


def p_search(pattern, subject, pos=0, endpos=None):
    n = len(subject) if endpos is None else endpos
    for start in range(int(pos), n + 1):
        r = match_at(pattern, subject, start, False, endpos)
        if r is not None:
            return r
    return None


def _expand_template(pattern, repl, kind):
    """Parse a replacement template into literal item lists and group refs."""
    if callable(repl):
        return repl
    tmpl = sp.parse_template(repl, pattern)
    # py3.12: parse_template returns list [literal, group, literal, group, ..., literal]
    parts = []
    if isinstance(tmpl, tuple):
        groups, literals = tmpl
        lits = list(literals)
        gmap = dict(groups)
        for i, lit in enumerate(lits):
            if i in gmap:
                parts.append(("g", gmap[i]))
            elif lit is not None:
                parts.append(("l", seq_items(lit)))
    else:
        for i, x in enumerate(tmpl):
            if i % 2 == 0:
                if x:
                    parts.append(("l", seq_items(x)))
            else:
                parts.append(("g", x))
    return parts


def p_sub(pattern, repl, subject, count=0):
    return p_subn(pattern, repl, subject, count)[0]


def p_subn(pattern, repl, subject, count=0):
    kind, items = _prep(pattern, subject)
    if isinstance(repl, SymSeq):
        tmpl = [("l", repl.items)]
    else:
        tmpl = _expand_template(pattern, repl, kind)
    out = []
    pos = 0
    n = len(items)
    nsub = 0
    while pos <= n and (count == 0 or nsub < count):
        r = match_at(pattern, subject, pos)
        if r is None:
            if pos < n:
                out.append(items[pos])
            pos += 1
            continue
        if r._end == r._start:
            core.cur().unsupported("re.sub with an empty match")
        if callable(tmpl):
            out += seq_items(tmpl(r))
        else:
            for t, v in tmpl:
                if t == "l":
                    out += v
                else:
                    g = r._one(v)
                    if g is not None:
                        out += seq_items(g)
        nsub += 1
        pos = r._end
    out += items[pos:]
    return mkseq(kind, out), nsub


def p_split(pattern, subject, maxsplit=0):
    kind, items = _prep(pattern, subject)
    out = []
    pos = 0
    start = 0
    n = len(items)
    nsplit = 0
    while pos <= n and (maxsplit == 0 or nsplit < maxsplit):
        r = match_at(pattern, subject, pos)
        if r is None:
            pos += 1
            continue
        if r._end == r._start:
            core.cur().unsupported("re.split with an empty match")
        out.append(mkseq(kind, items[start:r._start]))
        out += list(r.groups())
        start = pos = r._end
        nsplit += 1
    out.append(mkseq(kind, items[start:]))
    return out


def p_finditer(pattern, subject):
    kind, items = _prep(pattern, subject)
    n = len(items)
    pos = 0
    res = []
    while pos <= n:
        r = match_at(pattern, subject, pos)
        if r is None:
            pos += 1
            continue
        if r._end == r._start:
            core.cur().unsupported("re.finditer with an empty match")
        res.append(r)
        pos = r._end
    return iter(res)


def p_findall(pattern, subject):
    out = []
    for r in p_finditer(pattern, subject):
        if pattern.groups == 0:
            out.append(r.group(0))
        elif pattern.groups == 1:
            out.append(r._one(1, mkseq(r._kind, [])))
        else:
            out.append(r.groups(mkseq(r._kind, [])))
    return out


PATTERN_METHODS = {
    "match": p_match,
    "fullmatch": p_fullmatch,
    "search": p_search,
    "sub": p_sub,
    "subn": p_subn,
    "split": p_split,
    "findall": p_findall,
    "finditer": p_finditer,
}
