"""Runtime support for lifted modules: call dispatch and models of builtins."""
from __future__ import annotations

import bisect
import builtins
import io
import itertools
import posixpath
import re
import struct
import types

import z3

from . import core, relib
from .containers import SymDict, SymSet, make_dict, make_set
from .values import (SymBase, SymBool, SymBytes, SymInt, SymSeq, SymStr, has_sym, mkbool, mkint, mkseq,
                     parse_int, render_int, seq_items, seq_kind, to_symseq, zi)

_C_CALLABLE_TYPES = (types.BuiltinFunctionType, types.BuiltinMethodType, types.MethodDescriptorType,
                     types.WrapperDescriptorType, types.MethodWrapperType, types.ClassMethodDescriptorType)

_PROXY_FOR = {SymBytes: bytes, SymStr: str, SymInt: int, SymBool: bool, SymDict: dict, SymSet: set}



def _any_sym(args, kwargs):
    for a in args:
        if has_sym(a):
            return True
    for a in kwargs.values():
        if has_sym(a):
            return True
    return False


class OpaqueStr(str):
    """Result of formatting a symbolic value for human consumption (repr / %r / f-string of bytes ...).

    Output formatting of symbolic values is not modelled: the text is replaced by a fixed placeholder.  This is
    only sound when the text is not inspected by the code under test (exception messages, log lines); the
    per-path replay against the unlifted code compares every observation and flags a harness that depends on it."""


OPAQUE_COUNT = [0]


def opaque(what):
    OPAQUE_COUNT[0] += 1
    return OpaqueStr("<symbolic %s>" % what)


# ------------------------------------------------------------ builtin models
def m_isinstance(x, t):
    if isinstance(x, SymBase):
        real = _PROXY_FOR.get(type(x))
        ts = t if isinstance(t, tuple) else (t,)
        for c in ts:
            if isinstance(c, tuple):
                if m_isinstance(x, c):
                    return True
            elif real is not None and isinstance(c, type) and issubclass(real, c):
                return True
            elif isinstance(c, type) and isinstance(x, c):
                return True
        return False
    return isinstance(x, t)


def m_type(*args):
    if len(args) == 1 and isinstance(args[0], SymBase):
        return _PROXY_FOR.get(type(args[0]), type(args[0]))
    return type(*args)


def m_int(x=0, base=None):
    if isinstance(x, SymSeq):
        return parse_int(x, 10 if base is None else int(base))
    if isinstance(x, SymInt):
        return x
    if isinstance(x, SymBool):
        return mkint(zi(x))
    if base is None:
        return int(x)
    return int(x, base)


def m_bool(x=False):
    return bool(x)


def m_str(*args):
    if not args:
        return ""
    x = args[0]
    if isinstance(x, SymStr):
        return x
    if isinstance(x, SymInt):
        return render_int(x, "str")
    if isinstance(x, SymBytes):
        if len(args) > 1:
            return x.decode(*args[1:])
        return opaque("bytes")
    if isinstance(x, SymBase):
        return opaque(type(x).__name__)
    return str(*args)


def m_bytes(*args):
    if not args:
        return b""
    x = args[0]
    if isinstance(x, SymBytes):
        return x
    if isinstance(x, SymByteArray):
        return x.tobytes()
    if isinstance(x, SymStr):
        return x.encode(*args[1:])
    if isinstance(x, (list, tuple)) and has_sym(x):
        return mkseq("bytes", [zi(e) if isinstance(e, SymBase) else e for e in x])
    if isinstance(x, SymBase):
        core.cur().unsupported("bytes(%s)" % type(x).__name__)
    return bytes(*args)


def m_ord(c):
    if isinstance(c, SymSeq):
        if len(c) != 1:
            raise TypeError("ord() expected a character, but string of length %d found" % len(c))
        return mkint(c.items[0])
    return ord(c)


def m_chr(i):
    if isinstance(i, SymInt):
        eng = core.cur()
        if not eng.branch(z3.And(i.z >= 0, i.z < 0x110000)):
            raise ValueError("chr() arg not in range(0x110000)")
        return mkseq("str", [i.z])
    return chr(i)


def m_repr(x):
    if isinstance(x, SymBase) or has_sym(x, 3):
        return opaque("repr")
    return repr(x)


def m_hash(x):
    if has_sym(x, 3):
        core.cur().unsupported("hash() of a symbolic value")
    return hash(x)


def m_dict(*args, **kw):
    if args and isinstance(args[0], SymDict):
        d = args[0].copy()
        d.update(kw)
        return d
    if args and not isinstance(args[0], dict):
        pairs = [tuple(p) for p in args[0]]
        d = make_dict(pairs)
        d.update(kw)
        return d
    return dict(*args, **kw)


def m_set(*args):
    if args:
        if isinstance(args[0], SymSet):
            return args[0].copy()
        return make_set(list(args[0]))
    return set()


def m_frozenset(*args):
    if args:
        elems = list(args[0])
        if isinstance(args[0], SymSet) or any(has_sym(e, 3) for e in elems):
            return SymSet(elems)
        return frozenset(elems)
    return frozenset()


def m_len(x):
    return len(x)


def m_print(*a, **k):
    return None


def m_sorted(it, key=None, reverse=False):
    return sorted(it, key=key, reverse=reverse)


def m_divmod(a, b):
    if isinstance(a, SymBase) or isinstance(b, SymBase):
        return (a // b, a % b)
    return divmod(a, b)


def m_struct_unpack(fmt, data):
    if isinstance(data, SymBytes):
        if fmt in ("!L", ">L", "!I", ">I"):
            if len(data) != 4:
                raise struct.error("unpack requires a buffer of 4 bytes")
            total = 0
            for it in data.items:
                total = total * 256 + it
            return (mkint(total),)
        core.cur().unsupported("struct.unpack(%r) of symbolic bytes" % (fmt,))
    return struct.unpack(fmt, data)


def m_struct_pack(fmt, *vals):
    if has_sym(vals):
        if fmt in ("!L", ">L", "!I", ">I") and len(vals) == 1:
            eng = core.cur()
            v = zi(vals[0])
            if not eng.branch(z3.And(v >= 0, v < 2 ** 32)):
                raise struct.error("argument out of range")
            bs = [z3.Int(eng.fresh_name("pk")) for _ in range(4)]
            for b in bs:
                eng.add(z3.And(b >= 0, b <= 255))
            eng.add(v == ((bs[0] * 256 + bs[1]) * 256 + bs[2]) * 256 + bs[3])
            return mkseq("bytes", bs)
        core.cur().unsupported("struct.pack(%r) of symbolic values" % (fmt,))
    return struct.pack(fmt, *vals)


class SymByteArray(SymBase):
    """bytearray whose items may be symbolic (created for every bytearray() call in lifted code)."""
    __slots__ = ("items",)

    def __init__(self, init=b""):
        if isinstance(init, int):
            self.items = [0] * init
        else:
            self.items = list(seq_items(init)) if isinstance(init, (bytes, bytearray, SymBytes)) else \
                [zi(x) if isinstance(x, SymBase) else x for x in init]

    def _item(self, x):
        if isinstance(x, SymInt):
            eng = core.cur()
            if not eng.branch(z3.And(x.z >= 0, x.z < 256)):
                raise ValueError("byte must be in range(0, 256)")
            return x.z
        x = int(x)
        if not 0 <= x < 256:
            raise ValueError("byte must be in range(0, 256)")
        return x

    def append(self, x):
        self.items.append(self._item(x))

    def extend(self, other):
        if isinstance(other, (bytes, bytearray, SymBytes, SymByteArray)):
            self.items += list(other.items if isinstance(other, (SymBytes, SymByteArray)) else other)
        else:
            for x in other:
                self.append(x)

    def __iadd__(self, other):
        self.extend(other)
        return self

    def __add__(self, other):
        r = SymByteArray(self)
        r.extend(other)
        return r

    def __len__(self):
        return len(self.items)

    def __iter__(self):
        return iter([mkint(i) for i in self.items])

    def __getitem__(self, i):
        if isinstance(i, slice):
            r = SymByteArray()
            r.items = self.items[i]
            return r
        return mkint(self.items[i])

    def __setitem__(self, i, v):
        if isinstance(i, slice):
            self.items[i] = list(seq_items(v))
        else:
            self.items[i] = self._item(v)

    def __eq__(self, other):
        return mkseq("bytes", self.items) == (mkseq("bytes", other.items) if isinstance(other, SymByteArray) else other)

    def __ne__(self, other):
        r = self.__eq__(other)
        return ~r if isinstance(r, SymBool) else not r

    def __hash__(self):
        core.cur().unsupported("hash(bytearray)")

    def __bool__(self):
        return bool(self.items)

    def tobytes(self):
        return mkseq("bytes", self.items)

    def decode(self, *a, **k):
        v = mkseq("bytes", self.items)
        return v.decode(*a, **k)

    def __repr__(self):
        return "<SymByteArray %r>" % (self.items,)


class SymBytesIO:
    """io.BytesIO over symbolic content (read side + append-only write)."""

    def __init__(self, initial=b""):
        self._buf = initial
        self._pos = 0
        self.closed = False

    def getvalue(self):
        return self._buf

    def tell(self):
        return self._pos

    def seek(self, pos, whence=0):
        pos = int(pos)
        if whence == 0:
            self._pos = pos
        elif whence == 1:
            self._pos += pos
        else:
            self._pos = len(self._buf) + pos
        return self._pos

    def read(self, n=-1):
        if n is None or n < 0:
            r = self._buf[self._pos:]
        else:
            r = self._buf[self._pos:self._pos + int(n)]
        self._pos += len(r)
        return r

    def readline(self, limit=-1):
        rest = self._buf[self._pos:]
        p = to_symseq(rest).find(b"\n") if isinstance(rest, SymBytes) else rest.find(b"\n")
        line = rest if p == -1 else rest[:p + 1]
        if limit is not None and limit >= 0:
            line = line[:limit]
        self._pos += len(line)
        return line

    def readlines(self):
        out = []
        while True:
            l = self.readline()
            if not len(l):
                return out
            out.append(l)

    def __iter__(self):
        return self

    def __next__(self):
        l = self.readline()
        if not len(l):
            raise StopIteration
        return l

    def write(self, data):
        if self._pos != len(self._buf):
            core.cur().unsupported("SymBytesIO.write not at end")
        self._buf = self._buf + data
        self._pos = len(self._buf)
        return len(data)

    def close(self):
        self.closed = True

    def __enter__(self):
        return self

    def __exit__(self, *a):
        self.close()


def m_bytesio(*args):
    if args and isinstance(args[0], SymBytes):
        return SymBytesIO(args[0])
    return io.BytesIO(*args)


_PROXY_FOR[SymByteArray] = bytearray

_FNMATCH_CACHE = {}


def m_fnmatchcase(name, pat):
    """fnmatch.fnmatchcase / fnmatch.fnmatch (posix: normcase is the identity) with a symbolic name or pattern."""
    import fnmatch
    if isinstance(pat, SymSeq):
        core.cur().unsupported("fnmatch with a symbolic pattern")
    if not isinstance(name, SymSeq):
        return fnmatch.fnmatchcase(name, pat)
    rx = _FNMATCH_CACHE.get(pat)
    if rx is None:
        res = fnmatch.translate(pat)
        rx = _FNMATCH_CACHE[pat] = re.compile(res if isinstance(pat, str) else res.encode("latin-1"))
    return relib.p_match(rx, name) is not None


def _fnmatch_models():
    import fnmatch
    return {fnmatch.fnmatch: m_fnmatchcase, fnmatch.fnmatchcase: m_fnmatchcase}


def m_re_func(name):
    def f(pattern, *args, **kwargs):
        flags = kwargs.pop("flags", 0)
        if name in ("match", "search", "fullmatch", "findall", "finditer") and len(args) > 1:
            flags = args[1]
            args = args[:1]
        pat = pattern if isinstance(pattern, re.Pattern) else re.compile(pattern, flags)
        return relib.PATTERN_METHODS[name](pat, *args, **kwargs)
    return f


FUNC_MODELS = {
    io.BytesIO: m_bytesio,
    builtins.isinstance: m_isinstance,
    builtins.int: m_int,
    builtins.str: m_str,
    builtins.bytes: m_bytes,
    builtins.ord: m_ord,
    builtins.chr: m_chr,
    builtins.repr: m_repr,
    builtins.hash: m_hash,
    builtins.dict: m_dict,
    builtins.set: m_set,
    builtins.frozenset: m_frozenset,
    builtins.type: m_type,
    builtins.print: m_print,
    builtins.divmod: m_divmod,
    struct.unpack: m_struct_unpack,
    struct.pack: m_struct_pack,
    re.match: m_re_func("match"),
    re.search: m_re_func("search"),
    re.fullmatch: m_re_func("fullmatch"),
    re.findall: m_re_func("findall"),
}
FUNC_MODELS.update(_fnmatch_models())


def m_splitext(p):
    """posixpath.splitext (genericpath._splitext with sep '/', no altsep, extsep '.')."""
    s = to_symseq(p)
    sep, dot = ("/", ".") if s.kind == "str" else (b"/", b".")
    sep_index = s.rfind(sep)
    dot_index = s.rfind(dot)
    if dot_index > sep_index:
        i = sep_index + 1
        while i < dot_index:
            if s[i:i + 1] != dot:
                return s[:dot_index], s[dot_index:]
            i += 1
    return s, s[:0]


FUNC_MODELS[posixpath.splitext] = m_splitext


def m_bisect_right(a, x, lo=0, hi=None, *, key=None):
    """bisect.bisect_right in python: the comparisons go through the proxies"""
    if hi is None:
        hi = len(a)
    while lo < hi:
        mid = (lo + hi) // 2
        if (x < a[mid]) if key is None else (x < key(a[mid])):
            hi = mid
        else:
            lo = mid + 1
    return lo


def m_bisect_left(a, x, lo=0, hi=None, *, key=None):
    if hi is None:
        hi = len(a)
    while lo < hi:
        mid = (lo + hi) // 2
        if (a[mid] < x) if key is None else (key(a[mid]) < x):
            lo = mid + 1
        else:
            hi = mid
    return lo


FUNC_MODELS[bisect.bisect_right] = m_bisect_right
FUNC_MODELS[bisect.bisect] = m_bisect_right
FUNC_MODELS[bisect.bisect_left] = m_bisect_left


def m_map(fn, *iterables):
    """map(): the mapped function is dispatched through call(), so map(str, ...) / map(int, ...) reach their models."""
    return iter([call(fn, *xs) for xs in zip(*iterables)])


FUNC_MODELS[builtins.map] = m_map

# C-level callables that only use the generic object protocols (iteration,
# comparison, arithmetic, truth) and therefore work natively on proxies.
_NATIVE_OK = {
    builtins.len, builtins.bool, builtins.min, builtins.max, builtins.sum, builtins.sorted, builtins.any,
    builtins.all, builtins.enumerate, builtins.zip, builtins.range, builtins.list, builtins.tuple,
    builtins.reversed, builtins.iter, builtins.next, builtins.map, builtins.filter, builtins.abs,
    builtins.getattr, builtins.setattr, builtins.hasattr, builtins.callable, builtins.id, builtins.slice,
    builtins.issubclass, builtins.delattr, builtins.super, builtins.object, builtins.property,
    builtins.staticmethod, builtins.classmethod,
}

_NATIVE_SELF_TYPES = (list, tuple, dict, set, frozenset, type(iter([])), type(iter(())), types.GeneratorType)


def _bound_builtin(f, args, kwargs):
    """A bound C method (f.__self__ is the receiver) called with a symbolic argument."""
    recv = f.__self__
    name = f.__name__
    if isinstance(recv, (bytes, bytearray, str)) and not isinstance(recv, type):
        return getattr(to_symseq(bytes(recv) if isinstance(recv, bytearray) else recv), name)(*args, **kwargs)
    if isinstance(recv, re.Pattern):
        model = relib.PATTERN_METHODS.get(name)
        if model is None:
            core.cur().unsupported("re.Pattern.%s on a symbolic subject" % name)
        return model(recv, *args, **kwargs)
    if isinstance(recv, _NATIVE_SELF_TYPES) or type(recv).__module__ == "collections":
        return f(*args, **kwargs)
    if isinstance(recv, io.BytesIO) and name == "write" and recv.tell() == len(recv.getvalue()):
        core.cur().unsupported("BytesIO.write of symbolic bytes into a native BytesIO (create it from symbolic "
                               "content or stub the file object)")
    if isinstance(recv, (io.BytesIO, io.StringIO)):
        core.cur().unsupported("%s.%s with a symbolic argument" % (type(recv).__name__, name))
    if isinstance(recv, types.ModuleType):
        core.cur().unsupported("C function %s.%s with a symbolic argument" % (recv.__name__, name))
    core.cur().unsupported("C method %s.%s with a symbolic argument" % (type(recv).__name__, name))


def call(f, *args, **kwargs):
    """Every call in a lifted module goes through here."""
    if (type(f) is types.BuiltinMethodType and f.__name__ == "join" and args
            and not isinstance(args[0], (list, tuple)) and isinstance(f.__self__, (bytes, str))):
        args = (list(args[0]),) + args[1:]      # materialise generators/deques so symbolic parts are seen
    if f is bytearray:
        return SymByteArray(*args)
    if getattr(f, "__self__", None) is itertools.chain and getattr(f, "__name__", "") == "from_iterable" and len(args) == 1:
        # chain.from_iterable only iterates: materialise (the items may be symbolic, which a C-level receiver hides)
        return iter([x for it in args[0] for x in it])
    if f is itertools.chain:
        return iter([x for it in args for x in it])
    if f is builtins.map and len(args) >= 2 and not kwargs:
        # materialise the iterables (they may be iterators produced by another map()) so symbolic items are seen
        its = [a if isinstance(a, (list, tuple)) else list(a) for a in args[1:]]
        if _any_sym(its, {}):
            return m_map(args[0], *its)
        return map(args[0], *its)
    if not _any_sym(args, kwargs):
        return f(*args, **kwargs)
    model = None
    try:
        model = FUNC_MODELS.get(f)
    except TypeError:      # unhashable callable
        model = None
    if model is not None:
        return model(*args, **kwargs)
    if isinstance(f, _C_CALLABLE_TYPES):
        try:
            if f in _NATIVE_OK:
                return f(*args, **kwargs)
        except TypeError:
            pass
        recv = getattr(f, "__self__", None)
        if recv is not None and not isinstance(recv, types.ModuleType):
            return _bound_builtin(f, args, kwargs)
        if isinstance(f, types.MethodDescriptorType):
            # unbound C method, e.g. bytes.join(sep, parts) / str.startswith(s, p)
            owner = f.__objclass__
            if owner in (bytes, str) and args:
                return getattr(to_symseq(args[0]), f.__name__)(*args[1:], **kwargs)
            if owner in (list, tuple, dict, set, frozenset):
                return f(*args, **kwargs)
        if (args and not kwargs and all(isinstance(a, (SymInt, SymBool)) or not has_sym(a) for a in args)
                and getattr(f, "__module__", None) in ("math", "builtins", "operator")):
            # a C-level numeric function (math.log, pow, ...) without a model: concretise its integer arguments, i.e.
            # fork over their feasible values on this path (bounded; more than 4096 values is "unsupported")
            cargs = [a.concretize(4096) if isinstance(a, SymInt) else (bool(a) if isinstance(a, SymBool) else a) for a in args]
            return f(*cargs)
        if (args and not kwargs and getattr(f, "__module__", None) == "unicodedata"
                and all(isinstance(a, SymSeq) or not has_sym(a) for a in args)):
            # unicodedata.normalize & co. on a symbolic string: fork over the feasible characters (small alphabets only)
            return f(*[a.concretize() if isinstance(a, SymSeq) else a for a in args])
        core.cur().unsupported("C function %s with a symbolic argument" %
                               (getattr(f, "__qualname__", None) or repr(f)))
    if isinstance(f, type):
        if f in _NATIVE_OK:
            return f(*args, **kwargs)
        if f.__module__ == "builtins" and not issubclass(f, BaseException):
            core.cur().unsupported("builtin type %s called with a symbolic argument" % f.__name__)
        if issubclass(f, re.Pattern):
            core.cur().unsupported("re.Pattern()")
    if f is re.compile or getattr(f, "__module__", None) == "re":
        core.cur().unsupported("re.%s with a symbolic argument" % getattr(f, "__name__", "?"))
    return f(*args, **kwargs)


# ------------------------------------------------------------ operators
def mod(a, b):
    """a % b"""
    if isinstance(a, (bytes, str)):
        if not has_sym(b):
            return a % b
        return _format_percent(a, b)
    if isinstance(a, SymSeq):
        core.cur().unsupported("symbolic format string")
    return a % b


_FMT_RE = re.compile(r"%(?:\((?P<key>[^)]*)\))?(?P<flags>[-#0 +]*)(?P<width>\*|\d+)?(?:\.(?P<prec>\*|\d+))?(?P<type>[diouxXeEfFgGcrsab%])")


def _format_percent(fmt, arg):
    kind = "bytes" if isinstance(fmt, bytes) else "str"
    text = fmt.decode("latin-1") if kind == "bytes" else fmt
    if isinstance(arg, tuple):
        args = list(arg)
    elif isinstance(arg, (dict, SymDict)):
        args = arg
    else:
        args = [arg]
    out = []
    pos = 0
    ai = 0
    for m in _FMT_RE.finditer(text):
        out += [ord(c) for c in text[pos:m.start()]]
        pos = m.end()
        t = m.group("type")
        if t == "%":
            out.append(37)
            continue
        if m.group("key") is not None:
            v = args[m.group("key") if kind == "str" else m.group("key").encode("latin-1")]
        else:
            if isinstance(args, (dict, SymDict)):
                raise TypeError("format requires a mapping")
            if ai >= len(args):
                raise TypeError("not enough arguments for format string")
            v = args[ai]
            ai += 1
        plain = not (m.group("flags") or m.group("width") or m.group("prec"))
        if not isinstance(v, SymBase):
            spec = "%" + (m.group("flags") or "") + (m.group("width") or "") + \
                   ("." + m.group("prec") if m.group("prec") else "") + t
            if kind == "bytes":
                out += list(spec.encode("latin-1") % (v,))
            else:
                out += [ord(c) for c in spec % (v,)]
            continue
        if not plain:
            core.cur().unsupported("%%-format with flags/width on a symbolic value")
        if t in "di" and isinstance(v, (SymInt, SymBool)):
            out += seq_items(render_int(v if isinstance(v, SymInt) else SymInt(zi(v)), kind))
        elif t == "x" and isinstance(v, SymInt):
            out += seq_items(render_int(v, kind, 16))
        elif t == "s" and isinstance(v, SymSeq) and v.kind == kind:
            out += v.items
        elif t == "s" and kind == "str" and isinstance(v, SymInt):
            out += seq_items(render_int(v, kind))
        elif t == "b" and kind == "bytes" and isinstance(v, SymBytes):
            out += v.items
        elif kind == "str" and t in "rsa":
            out += [ord(c) for c in opaque("%" + t)]
        else:
            core.cur().unsupported("%%%s of %s in %s format" % (t, type(v).__name__, kind))
    if not isinstance(args, (dict, SymDict)) and ai < len(args):
        raise TypeError("not all arguments converted during %s formatting" % ("bytes" if kind == "bytes" else "string"))
    out += [ord(c) for c in text[pos:]]
    return mkseq(kind, out)


def fstr(parts):
    """f-string: parts is a list of str constants and (value, conversion, spec) triples."""
    if not any(isinstance(p, tuple) and has_sym(p[0]) for p in parts):
        out = []
        for p in parts:
            if isinstance(p, tuple):
                v, conv, spec = p
                if conv == ord("r"):
                    v = repr(v)
                elif conv == ord("s"):
                    v = str(v)
                elif conv == ord("a"):
                    v = ascii(v)
                out.append(format(v, spec or ""))
            else:
                out.append(p)
        return "".join(out)
    items = []
    for p in parts:
        if isinstance(p, tuple):
            v, conv, spec = p
            if isinstance(v, SymBase):
                if isinstance(v, SymStr) and not spec and conv in (-1, ord("s")):
                    items += v.items
                elif isinstance(v, SymInt) and not spec and conv in (-1, ord("s")):
                    items += seq_items(render_int(v, "str"))
                else:
                    items += [ord(c) for c in opaque("f-string")]
            else:
                if has_sym(v, 3):
                    items += [ord(c) for c in opaque("f-string")]
                    continue
                if conv == ord("r"):
                    v = repr(v)
                elif conv == ord("s"):
                    v = str(v)
                elif conv == ord("a"):
                    v = ascii(v)
                items += [ord(c) for c in format(v, spec or "")]
        else:
            items += [ord(c) for c in p]
    return mkseq("str", items)


def contains(container, item):
    """item in container"""
    if isinstance(container, (bytes, bytearray, str)) and isinstance(item, SymBase):
        return item in to_symseq(bytes(container) if isinstance(container, bytearray) else container)
    if isinstance(container, (dict, set, frozenset)) and has_sym(item, 3):
        # hashing is meaningless for a symbolic key: compare by equality
        for k in container:
            if bool(k == item):
                return True
        return False
    return item in container


class DictMode:
    """Literal constructors used when a module is lifted with symdict=True."""

    @staticmethod
    def mkdict(keys, values):
        return SymDict(zip(keys, values))

    @staticmethod
    def mkset(elems):
        return SymSet(elems)

    @staticmethod
    def dict_(*a, **k):
        d = SymDict()
        if a:
            d.update(a[0])
        d.update(k)
        return d

    @staticmethod
    def set_(*a):
        return SymSet(a[0]) if a else SymSet()
