"""Property-level runner: obligations, tiers, known findings, evidence, replay."""
from __future__ import annotations

import argparse
import importlib
import inspect
import json
import os
import sys
import time

from . import explore as ex
from .lift import LiftedSet, source_sha

ROOT = os.path.dirname(os.path.dirname(os.path.abspath(__file__)))
EVIDENCE_DIR = os.path.join(ROOT, "evidence")
REPLAY_DIR = os.path.join(EVIDENCE_DIR, "replay")
KNOWN_FILE = os.path.join(ROOT, "known_findings.json")

EXIT_OK, EXIT_VIOLATION, EXIT_INCONCLUSIVE = 0, 1, 3


class Ob:
    """One proof obligation = one harness explored exhaustively within its bounds."""

    def __init__(self, name, fn, lift=(), params=None, timeout=600, validate_every=1, covers=(), known=(),
                 bounds="", setup=None, workers=None):
        self.name = name
        self.fn = fn
        self.lift = list(lift)
        self.params = params or {}
        self.timeout = timeout
        self.validate_every = validate_every
        self.covers = list(covers)
        self.known = list(known)      # ids of known-finding classes this harness declares via cx.known()
        self.bounds = bounds
        self.setup = setup            # callable(LiftedSet) run once after lifting (stubs, monkeypatches)
        self.workers = workers

    def lifted(self):
        ls = LiftedSet()
        for item in self.lift:
            if isinstance(item, str):
                ls.load(item)
            else:
                name, kw = item
                ls.load(name, **kw)
        if self.setup:
            self.setup(ls)
        return ls


def enc_inputs(inputs):
    out = {}
    for k, v in inputs.items():
        if isinstance(v, bytes):
            out[k] = {"__bytes__": v.hex()}
        else:
            out[k] = v
    return out


def dec_inputs(d):
    out = {}
    for k, v in d.items():
        if isinstance(v, dict) and "__bytes__" in v:
            out[k] = bytes.fromhex(v["__bytes__"])
        else:
            out[k] = v
    return out


def load_known(prop):
    try:
        with open(KNOWN_FILE) as f:
            data = json.load(f)
    except FileNotFoundError:
        return []
    return [e for e in data.get("findings", []) if e.get("property") == prop]


def functions_encoded(specs):
    out = []
    for spec in specs:
        modname, _, qual = spec.partition(":")
        try:
            obj = importlib.import_module(modname)
            for part in qual.split("."):
                obj = getattr(obj, part)
            obj = inspect.unwrap(obj) if callable(obj) else obj
            if isinstance(obj, (staticmethod, classmethod)):
                obj = obj.__func__
            sha = source_sha(obj)
        except Exception as e:          # a renamed/removed function must be visible, not fatal here
            sha = "unresolved: %s" % (e,)
        out.append({"function": spec, "source_sha1": sha})
    return out


def run_property(hmod, tier, seed, only=None):
    t0 = time.time()
    pid = hmod.ID
    from . import core as _core
    if "VERIF_CROSSCHECK" not in os.environ:
        _core.CROSSCHECK_EVERY = 400 if tier == "quick" else 100       # inherited by the forked workers
    known = load_known(pid)
    active = frozenset(e["id"] for e in known)
    obs = hmod.obligations(tier)
    if only:
        obs = [o for o in obs if o.name in only]
    per_ob = []
    violations = []
    inconclusive = []
    total = ex.Stats()
    known_lines = []
    for ob in obs:
        t1 = time.time()
        lifted = ob.lifted()
        timeout = int(os.environ.get("VERIF_TIMEOUT", "0") or 0) or ob.timeout
        out = ex.explore(ob.fn, lifted, ob.params, ("main", active), timeout, ob.validate_every, ob.workers)
        total.merge(out.stats)
        rec = {"obligation": ob.name, "bounds": ob.bounds, "status": out.status, "wall_s": round(time.time() - t1, 2)}
        rec.update(out.stats.as_dict())
        rec["lifted_sources"] = {k: v[1] for k, v in lifted.sources.items()}
        if out.status == "ok":
            missing = [c for c in ob.covers if not out.stats.covered.get(c)]
            if out.stats.paths == 0 or missing:
                out.status = "inconclusive"
                out.msg = "vacuous: %s" % ("no completed path" if out.stats.paths == 0 else
                                           "reachability label(s) never covered: %s" % missing)
                rec["status"] = "inconclusive"
        if out.status == "violation":
            os.makedirs(REPLAY_DIR, exist_ok=True)
            path = os.path.join(REPLAY_DIR, "%s-%s.json" % (pid, ob.name))
            with open(path, "w") as f:
                json.dump({"property": pid, "obligation": ob.name, "tier": tier, "message": out.msg,
                           "inputs": enc_inputs(out.inputs), "inputs_repr": {k: repr(v) for k, v in out.inputs.items()},
                           "detail": out.detail}, f, indent=1)
            violations.append((ob.name, out.msg, path, out.inputs))
            rec["message"] = out.msg
        elif out.status == "inconclusive":
            inconclusive.append((ob.name, out.msg, out.detail))
            rec["message"] = out.msg
        per_ob.append(rec)
        print("[%s/%s] %-28s %-12s paths=%d queries=%d validated=%d %.1fs%s" % (
            pid, tier, ob.name, rec["status"], out.stats.paths, out.stats.queries, out.stats.validated,
            rec["wall_s"], ("  -- " + str(out.msg)) if out.msg else ""), flush=True)
        if out.status == "inconclusive" and out.detail and os.environ.get("VERIF_DEBUG"):
            print(out.detail)
    # re-witness every listed known finding
    witness = []
    for ent in known:
        fid = ent["id"]
        found = None
        for ob in obs:
            if fid not in ob.known:
                continue
            lifted = ob.lifted()
            out = ex.explore(ob.fn, lifted, ob.params, ("witness", fid), ob.timeout, 0, ob.workers)
            total.queries += out.stats.queries
            total.solver_time += out.stats.solver_time
            if out.status == "violation":
                found = (ob.name, out.msg, out.inputs)
                break
        if found:
            line = "KNOWN-FINDING: property=%s %s [%s] witness(%s): %s" % (
                pid, ent.get("what", fid), fid, found[0], {k: v for k, v in found[2].items()})
            known_lines.append(line)
            print(line, flush=True)
            witness.append({"id": fid, "reproduced": True, "obligation": found[0], "inputs": {k: repr(v) for k, v in found[2].items()}})
        else:
            print("note: listed known finding %s of %s did not reproduce on this tree" % (fid, pid), flush=True)
            witness.append({"id": fid, "reproduced": False})
    wall = time.time() - t0
    samples = total.samples or [{"note": "no completed path"}]
    cov = {
        "states": total.paths,
        "transitions": total.decisions,
        "traces_validated_against_impl": total.validated,
        "samples": samples,
        "exhaustive": not violations and not inconclusive,
        "explanation": "states = completed symbolic paths of the real (lifted) code, each standing for all concrete "
                       "inputs satisfying its path condition; transitions = branch decisions; every obligation's "
                       "decision tree was exhausted within the stated bounds unless its status says otherwise",
        "engine": "symx (replay-based symbolic execution on z3 %s)" % _z3_version(),
        "functions_encoded": functions_encoded(getattr(hmod, "FUNCTIONS", [])),
        "bounds": {r["obligation"]: r["bounds"] for r in per_ob},
        "outside_bounds": getattr(hmod, "OUTSIDE", []),
        "stubs": getattr(hmod, "STUBS", []),
        "queries": total.queries,
        "requires_checked": total.requires,
        "solver_time_s": round(total.solver_time, 3),
        "second_solver": {"solver": "cvc5 (python wheel)", "every_nth_query_per_worker": _core.CROSSCHECK_EVERY,
                          "queries_rechecked": total.crosschecked, "agreed": total.crosscheck_agreed,
                          "cvc5_unknown_or_timeout": total.crosschecked - total.crosscheck_agreed,
                          "note": "a sat/unsat disagreement makes the run inconclusive (exit 3)"},
        "aborted_paths": total.aborted,
        "obligations": len(per_ob),
        "discharged": sum(1 for r in per_ob if r["status"] == "ok"),
        "evaluations": total.paths + total.aborted,
        "distinct_nontrivial": total.paths,
        "rule": "evaluations = symbolic executions of the harness (completed + assumed-away paths); a case is one "
                "completed path = one distinct sequence of branch decisions through the real code (its path condition is "
                "disjoint from every other path's) that reached the end of the harness with all of its assertions "
                "discharged by the solver; paths cut by an assumption are not counted",
        "obligation_details": per_ob,
        "known_findings": witness,
    }
    evidence = {
        "property_id": pid,
        "tier": tier,
        "seed": seed,
        "level": "model_checking",
        "coverage": cov,
        "assumptions": getattr(hmod, "ASSUMPTIONS", []),
        "wall_s": round(wall, 2),
        "violations": len(violations),
    }
    extra = getattr(hmod, "extra_evidence", None)
    if extra:
        cov.update(extra())
    os.makedirs(EVIDENCE_DIR, exist_ok=True)
    if not only and not os.environ.get("VERIF_NO_EVIDENCE"):      # (development runs against scratch trees leave no evidence)
        with open(os.path.join(EVIDENCE_DIR, "%s.json" % pid), "w") as f:
            json.dump(evidence, f, indent=1, default=repr)
    for name, msg, path, inputs in violations:
        print("counterexample (%s): %s" % (name, {k: v for k, v in inputs.items()}))
        print("  %s" % msg)
        print("VIOLATION property=%s replay=%s" % (pid, path), flush=True)
    if violations:
        return EXIT_VIOLATION
    if inconclusive:
        for name, msg, detail in inconclusive:
            print("INCONCLUSIVE %s/%s: %s" % (pid, name, msg))
            if detail:
                print(detail)
        return EXIT_INCONCLUSIVE
    print("OK property=%s tier=%s obligations=%d paths=%d queries=%d solver=%.1fs wall=%.1fs" % (
        pid, tier, len(per_ob), total.paths, total.queries, total.solver_time, wall), flush=True)
    return EXIT_OK


def _z3_version():
    import z3
    return z3.get_version_string()


def replay(hmod, path):
    with open(path) as f:
        data = json.load(f)
    inputs = dec_inputs(data["inputs"])
    tier = data.get("tier", "quick")
    for t in (tier, "thorough", "quick"):
        for ob in hmod.obligations(t):
            if ob.name == data["obligation"]:
                status, msg, _cx = ex.run_concrete(ob.fn, inputs, ob.params)
                print("replay %s/%s on the installed code: %s %s" % (hmod.ID, ob.name, status, msg or ""))
                if status in ("violation", "exception"):
                    print("VIOLATION property=%s replay=%s" % (hmod.ID, path))
                    return EXIT_VIOLATION
                return EXIT_OK
    print("obligation %s not found" % data["obligation"])
    return EXIT_INCONCLUSIVE


def main(argv=None):
    ap = argparse.ArgumentParser()
    ap.add_argument("property")
    ap.add_argument("--tier", default=os.environ.get("VERIF_TIER") or "quick", choices=["quick", "thorough"])
    ap.add_argument("--replay")
    ap.add_argument("--only", action="append")
    args = ap.parse_args(argv)
    seed = int(os.environ.get("VERIF_SEED", "0") or 0)
    sys.path.insert(0, ROOT)
    sys.setrecursionlimit(20000)
    hmod = importlib.import_module("harness.%s" % args.property)
    if args.replay:
        return replay(hmod, args.replay)
    return run_property(hmod, args.tier, seed, args.only)


if __name__ == "__main__":
    sys.exit(main())
