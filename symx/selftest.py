"""Engine self-test: every proxy operation and the regex walker against CPython.

Two modes per operation:
* free:   symbolic input of bounded length over a small alphabet, all paths explored, each path's model replayed
          natively and the observed result compared (path validation);
* pinned: for EVERY concrete input of that length/alphabet the symbolic run is constrained to exactly that input and
          its result compared with the native result (exhaustive differential test of the models).
Exit 0 only if everything agrees."""
from __future__ import annotations

import itertools
import re
import sys
import time

from . import core, relib, rt
from .explore import explore_serial
from .lift import LiftedSet
from .values import SymSeq

STR_ALPHA = "a \n/"
BYTES_ALPHA = b"a\n\r_"


def _safe(f):
    def g(*a):
        try:
            return ("ok", f(*a))
        except (ValueError, IndexError, TypeError, KeyError) as e:
            return ("exc", type(e).__name__)
    return g


def _match_obs(m):
    if m is None:
        return None
    return (m.span(), m.groups(), m.lastindex)


def _rx(pattern, method, flags=0):
    pat = re.compile(pattern, flags)

    def f(s):
        if isinstance(s, SymSeq):
            r = relib.PATTERN_METHODS[method](pat, s) if method not in ("sub",) else relib.p_sub(pat, pat_repl(pat), s)
        else:
            r = getattr(pat, method)(s) if method != "sub" else pat.sub(pat_repl(pat), s)
        return _match_obs(r) if method in ("match", "search", "fullmatch") else r
    f.__name__ = "re:%s:%s" % (method, pattern)
    return f


def pat_repl(pat):
    return "X" if isinstance(pat.pattern, str) else b"X"


def _int(s):
    if isinstance(s, SymSeq):
        return rt.m_int(s)
    return int(s)


def _int16(s):
    if isinstance(s, SymSeq):
        return rt.m_int(s, 16)
    return int(s, 16)


STR_OPS = [
    ("split_a", lambda s: s.split("a")), ("split_ws", lambda s: s.split()), ("split_1", lambda s: s.split("/", 1)),
    ("rsplit_1", lambda s: s.rsplit("/", 1)), ("partition", lambda s: s.partition("/")),
    ("rpartition", lambda s: s.rpartition("/")), ("find", lambda s: s.find("a/")), ("rfind", lambda s: s.rfind("a")),
    ("count", lambda s: s.count("a")), ("strip", lambda s: s.strip()), ("rstrip_c", lambda s: s.rstrip("/\n")),
    ("lstrip", lambda s: s.lstrip()), ("replace", lambda s: s.replace("a", "bb")), ("replace2", lambda s: s.replace("a/", "")),
    ("splitlines", lambda s: s.splitlines()), ("splitlines_k", lambda s: s.splitlines(True)),
    ("startswith", lambda s: bool(s.startswith("a/"))), ("endswith", lambda s: bool(s.endswith(("\n", "/")))),
    ("lt", lambda s: bool(s < "a/")), ("ge", lambda s: bool(s >= "a")), ("eq", lambda s: bool(s == "a a")),
    ("in", lambda s: bool("a " in s)), ("slice", lambda s: s[1:] + s[:1]), ("neg_index", lambda s: s[-1:]),
    ("upper", lambda s: s.upper()), ("isspace", lambda s: bool(s.isspace())), ("join", lambda s: rt.call("-".join, [s, s])),
    ("encode", lambda s: s.encode("utf-8")), ("removeprefix", lambda s: s.removeprefix("a")),
    ("re_ws", _rx(r"\s", "match")), ("re_star", _rx(r"(a*)(/)?", "match")), ("re_alt", _rx(r"(?:(a/)|(a))(\n)?$", "match")),
    ("re_search", _rx(r"/+", "search")), ("re_full", _rx(r"a.|[^a]+", "fullmatch")), ("re_lazy", _rx(r"(.+?)/", "match")),
    ("re_look", _rx(r"(?:.*/)?(?!.*/)(a)", "match")), ("re_sub", _rx(r"(?<!a)\n", "sub")), ("re_dollar", _rx(r"a$", "search")),
    ("re_Z", _rx(r"a\Z", "search")), ("re_dotall", _rx(r"(?s:.)a", "match")), ("re_split", _rx(r"/", "split")),
    ("re_findall", _rx(r"a|/", "findall")), ("re_grp_rep", _rx(r"(a|/)+", "match")), ("re_word", _rx(r"\w+\b", "match")),
]

BYTES_OPS = [
    ("split", lambda s: s.split(b"\n")), ("split_1", lambda s: s.split(b"\n", 1)), ("find", lambda s: s.find(b"\n")),
    ("strip", lambda s: s.strip()), ("rstrip", lambda s: s.rstrip(b"\r\n")), ("replace", lambda s: s.replace(b"\r\n", b"\n")),
    ("replace_", lambda s: s.replace(b"_", b"__")), ("splitlines", lambda s: s.splitlines()),
    ("startswith", lambda s: bool(s.startswith(b"a"))), ("index_item", lambda s: list(s)), ("in_int", lambda s: bool(10 in s)),
    ("in_sub", lambda s: bool(b"\r\n" in s)), ("decode", lambda s: s.decode("ascii")), ("join", lambda s: rt.call(b"".join, (s, b"x", s))),
    ("lt", lambda s: bool(s < b"a_")), ("partition", lambda s: s.partition(b"_")),
    ("re_unixnl", _rx(rb"(?<!\r)\n", "sub")), ("re_hunk", _rx(rb"\@\@ ([^@]*) \@\@( (.*))?\n", "match")),
]

UTF8_BYTES = bytes([0x41, 0xC3, 0xA9, 0xE2, 0x82, 0xED, 0xA0, 0xF0, 0x9F, 0xC1, 0xFF])
UTF8_OPS = [
    ("dec_strict", lambda s: s.decode("utf-8")), ("dec_surr", lambda s: s.decode("utf-8", "surrogateescape")),
    ("dec_repl", lambda s: s.decode("utf-8", "replace")), ("dec_ign", lambda s: s.decode("utf-8", "ignore")),
    ("dec_ascii_surr", lambda s: s.decode("ascii", "surrogateescape")),
    ("rt_surr", lambda s: s.decode("utf-8", "surrogateescape").encode("utf-8", "surrogateescape")),
    ("dec_l1", lambda s: s.decode("iso8859-1")),
    ("l1_of_utf8", lambda s: s.decode("utf-8", "surrogateescape").encode("iso8859-1", "surrogateescape")),
]
UTF8_STR = "a\xe9€\udce9\ud800\U0001d11e\x7f߿"
UTF8_STR_OPS = [
    ("enc_strict", lambda s: s.encode("utf-8")), ("enc_surr", lambda s: s.encode("utf-8", "surrogateescape")),
    ("enc_ascii_surr", lambda s: s.encode("ascii", "surrogateescape")), ("enc_repl", lambda s: s.encode("utf-8", "replace")),
    ("rt", lambda s: s.encode("utf-8", "surrogateescape").decode("utf-8", "surrogateescape")),
    ("enc_l1", lambda s: s.encode("iso8859-1")), ("enc_l1_surr", lambda s: s.encode("iso8859-1", "surrogateescape")),
    ("enc_l1_repl", lambda s: s.encode("latin-1", "replace")),
]

DIGIT_ALPHA = "0a 1-_+"
def _splitext(s):
    import posixpath
    if isinstance(s, SymSeq):
        return rt.call(posixpath.splitext, s)
    return posixpath.splitext(s)


def _map_int_str(s):
    # map() through the call dispatcher: int parsing and int rendering models under map(...)
    parts = s.split("-")
    if isinstance(s, SymSeq):
        return rt.call(".".join, rt.call(map, str, rt.call(map, int, parts)))
    return ".".join(map(str, map(int, parts)))


INT_OPS = [("int10", _int), ("int16", _int16), ("map_int_str", _map_int_str)]


def _harness(kind, op, n, alpha, pinned):
    def h(cx):
        s = cx.str("s", n, alpha) if kind == "str" else cx.bytes("s", n, alpha)
        if pinned is not None:
            cx.assume(s == pinned)
        cx.observe("r", _safe(op)(s))
    return h


def run(kind, ops, alpha, nmax, stats, pinned_max=None):
    empty = LiftedSet()
    for name, op in ops:
        for n in range(0, nmax + 1):
            out = explore_serial(_harness(kind, op, n, alpha, None), empty, {}, timeout=120, validate_every=1)
            stats["free_paths"] += out.stats.paths
            if out.status != "ok":
                print("SELFTEST FAIL (free) %s/%s n=%d: %s %s" % (kind, name, n, out.status, out.msg))
                return False
            if pinned_max is not None and n > pinned_max:
                continue
            for t in itertools.product(alpha, repeat=n):
                pinned = "".join(t) if kind == "str" else bytes(t)
                out = explore_serial(_harness(kind, op, n, alpha, pinned), empty, {}, timeout=60, validate_every=1)
                stats["pinned"] += 1
                if out.status != "ok" or out.stats.paths != 1:
                    print("SELFTEST FAIL (pinned) %s/%s input=%r: %s %s paths=%d" % (kind, name, pinned, out.status, out.msg,
                                                                                      out.stats.paths))
                    return False
    return True


def render_test(stats):
    """str(int) / %d rendering and parsing round trip."""
    def h(cx):
        v = cx.int("v", -1200, 1200)
        s = rt.m_str(v) if cx.sym else str(v)
        cx.observe("s", s)
        back = rt.m_int(s) if cx.sym else int(s)
        cx.require(back == v, "int(str(v)) != v")
        b = rt.mod(b"%d,%x", (v, abs(v))) if cx.sym else b"%d,%x" % (v, abs(v))
        cx.observe("b", b)
        cx.observe("div", (v // 7, v % 7, v // -7, v % -7))
    out = explore_serial(h, LiftedSet(), {}, timeout=120, validate_every=1)
    stats["free_paths"] += out.stats.paths
    if out.status != "ok":
        print("SELFTEST FAIL render: %s %s" % (out.status, out.msg))
        return False

    def hc(cx):
        # an unmodelled numeric C function concretises its integer argument: one path per feasible value
        import math
        v = cx.int("v", 1, 40)
        r = rt.call(math.log, v, 10) if cx.sym else math.log(v, 10)
        cx.observe("log", int(r * 1000))
    out = explore_serial(hc, LiftedSet(), {}, timeout=120, validate_every=1)
    stats["free_paths"] += out.stats.paths
    if out.status != "ok" or out.stats.paths != 40:
        print("SELFTEST FAIL concretise: %s %s paths=%d" % (out.status, out.msg, out.stats.paths))
        return False
    return True


def main():
    t0 = time.time()
    quick = "--full" not in sys.argv
    stats = {"free_paths": 0, "pinned": 0}
    ok = run("str", STR_OPS, STR_ALPHA, 3 if quick else 4, stats)
    ok = ok and run("bytes", BYTES_OPS, BYTES_ALPHA, 3 if quick else 4, stats)
    ok = ok and run("str", INT_OPS, DIGIT_ALPHA, 3, stats)
    ok = ok and run("str", [("splitext", _splitext)], "a./", 4, stats)
    ok = ok and run("bytes", [("splitext", _splitext)], b"a./", 3, stats)
    ok = ok and run("bytes", UTF8_OPS, UTF8_BYTES, 3 if quick else 4, stats, 2 if quick else 3)
    ok = ok and run("str", UTF8_STR_OPS, UTF8_STR, 2 if quick else 3, stats)
    ok = ok and render_test(stats)
    print("symx selftest: %s (%d symbolic paths validated, %d pinned inputs, %.1fs)" %
          ("OK" if ok else "FAILED", stats["free_paths"], stats["pinned"], time.time() - t0))
    return 0 if ok else 3


if __name__ == "__main__":
    sys.exit(main())
