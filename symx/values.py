"""Proxy values: SymBool, SymInt, SymBytes, SymStr.

Sequences have a *concrete length*; their elements are python ints or z3 Int
terms (byte values / code points).  No z3 sequence theory is used.
"""
from __future__ import annotations

from collections import deque

import z3

from . import core
from .core import Unsupported


class SymBase:
    __slots__ = ()


def is_sym(x):
    return isinstance(x, SymBase)


def has_sym(x, depth=2):
    """Shallow test used by the call dispatcher."""
    if isinstance(x, SymBase):
        return True
    if depth and isinstance(x, (list, tuple, deque)):
        for e in x:
            if has_sym(e, depth - 1):
                return True
    return False


def zi(x):
    """python int / SymInt / z3 int -> z3 int term."""
    if isinstance(x, SymInt):
        return x.z
    if isinstance(x, bool):
        return z3.IntVal(1 if x else 0)
    if isinstance(x, int):
        return z3.IntVal(x)
    if isinstance(x, SymBool):
        return z3.If(x.z, z3.IntVal(1), z3.IntVal(0))
    if isinstance(x, z3.ArithRef):
        return x
    raise TypeError("zi(%r)" % type(x))


def zb(x):
    if isinstance(x, SymBool):
        return x.z
    if isinstance(x, bool):
        return z3.BoolVal(x)
    if isinstance(x, z3.BoolRef):
        return x
    raise TypeError("zb(%r)" % type(x))


def mkbool(z):
    if isinstance(z, bool):
        return z
    if z3.is_true(z):
        return True
    if z3.is_false(z):
        return False
    return SymBool(z)


def mkint(z):
    if isinstance(z, int):
        return z
    if z3.is_int_value(z):
        return z.as_long()
    return SymInt(z)


def zand(cs):
    cs = [c for c in cs if not (isinstance(c, bool) and c)]
    if any(isinstance(c, bool) and not c for c in cs):
        return False
    if not cs:
        return True
    if len(cs) == 1:
        return cs[0]
    return z3.And(cs)


def zor(cs):
    cs = [c for c in cs if not (isinstance(c, bool) and not c)]
    if any(isinstance(c, bool) and c for c in cs):
        return True
    if not cs:
        return False
    if len(cs) == 1:
        return cs[0]
    return z3.Or(cs)


def znot(c):
    if isinstance(c, bool):
        return not c
    return z3.Not(c)


def zeq(a, b):
    """Equality of two items (int | z3 term) as bool | z3 Bool."""
    if isinstance(a, int) and isinstance(b, int):
        return a == b
    return zi(a) == zi(b)


class SymBool(SymBase):
    __slots__ = ("z",)

    def __init__(self, z):
        self.z = z

    def __bool__(self):
        return core.cur().branch(self.z)

    def __invert__(self):
        return mkbool(z3.Not(self.z))

    def __and__(self, o):
        if isinstance(o, (bool, SymBool)):
            return mkbool(zand([self.z, zb(o) if isinstance(o, SymBool) else o]))
        return NotImplemented

    __rand__ = __and__

    def __or__(self, o):
        if isinstance(o, (bool, SymBool)):
            return mkbool(zor([self.z, zb(o) if isinstance(o, SymBool) else o]))
        return NotImplemented

    __ror__ = __or__

    def __eq__(self, o):
        if isinstance(o, (bool, SymBool)):
            return mkbool(self.z == zb(o))
        if isinstance(o, (int, SymInt)):
            return mkbool(zi(self) == zi(o))
        return False

    def __ne__(self, o):
        r = self.__eq__(o)
        if isinstance(r, SymBool):
            return mkbool(z3.Not(r.z))
        return not r

    def __hash__(self):
        core.cur().unsupported("hash(SymBool)")

    def __index__(self):
        return 1 if bool(self) else 0

    def __repr__(self):
        return "<SymBool %s>" % (self.z,)


def _int_like(o):
    return isinstance(o, (int, SymInt, SymBool))


def _cmp(op):
    def f(self, other):
        if _int_like(other):
            return mkbool(op(self.z, zi(other)))
        return NotImplemented
    return f


def _bin(op):
    def f(self, other):
        if _int_like(other):
            return mkint(op(self.z, zi(other)))
        return NotImplemented
    return f


def _rbin(op):
    def f(self, other):
        if _int_like(other):
            return mkint(op(zi(other), self.z))
        return NotImplemented
    return f


def _floordiv(a, b):
    """Python floor division on (int|SymInt) operands, at least one symbolic."""
    eng = core.cur()
    if isinstance(b, int):
        if b == 0:
            raise ZeroDivisionError("integer division or modulo by zero")
        if b > 0:
            return mkint(zi(a) / z3.IntVal(b))
        return mkint((-zi(a)) / z3.IntVal(-b))
    bz = zi(b)
    k = eng.decide([bz > 0, bz < 0, bz == 0])
    if k == 2:
        raise ZeroDivisionError("integer division or modulo by zero")
    if k == 0:
        return mkint(zi(a) / bz)
    return mkint((-zi(a)) / (-bz))


def _mod(a, b):
    eng = core.cur()
    if isinstance(b, int):
        if b == 0:
            raise ZeroDivisionError("integer division or modulo by zero")
        if b > 0:
            return mkint(zi(a) % z3.IntVal(b))
        return mkint(-((-zi(a)) % z3.IntVal(-b)))
    bz = zi(b)
    k = eng.decide([bz > 0, bz < 0, bz == 0])
    if k == 2:
        raise ZeroDivisionError("integer division or modulo by zero")
    if k == 0:
        return mkint(zi(a) % bz)
    return mkint(-((-zi(a)) % (-bz)))


class SymInt(SymBase):
    __slots__ = ("z",)

    def __init__(self, z):
        self.z = z

    __lt__ = _cmp(lambda a, b: a < b)
    __le__ = _cmp(lambda a, b: a <= b)
    __gt__ = _cmp(lambda a, b: a > b)
    __ge__ = _cmp(lambda a, b: a >= b)

    def __eq__(self, other):
        if _int_like(other):
            return mkbool(self.z == zi(other))
        return False

    def __ne__(self, other):
        if _int_like(other):
            return mkbool(self.z != zi(other))
        return True

    def __hash__(self):
        core.cur().unsupported("hash(SymInt)")

    __add__ = _bin(lambda a, b: a + b)
    __radd__ = _rbin(lambda a, b: a + b)
    __sub__ = _bin(lambda a, b: a - b)
    __rsub__ = _rbin(lambda a, b: a - b)
    __mul__ = _bin(lambda a, b: a * b)
    __rmul__ = _rbin(lambda a, b: a * b)

    def __floordiv__(self, o):
        if _int_like(o):
            return _floordiv(self, o if isinstance(o, int) else SymInt(zi(o)))
        return NotImplemented

    def __rfloordiv__(self, o):
        if _int_like(o):
            return _floordiv(o, self)
        return NotImplemented

    def __mod__(self, o):
        if _int_like(o):
            return _mod(self, o if isinstance(o, int) else SymInt(zi(o)))
        return NotImplemented

    def __rmod__(self, o):
        if _int_like(o):
            return _mod(o, self)
        return NotImplemented

    def __divmod__(self, o):
        return (self // o, self % o)

    def __truediv__(self, o):
        core.cur().unsupported("true division of SymInt (float)")

    def __neg__(self):
        return mkint(-self.z)

    def __pos__(self):
        return self

    def __abs__(self):
        return mkint(z3.If(self.z >= 0, self.z, -self.z))

    def __bool__(self):
        return core.cur().branch(self.z != 0)

    def __index__(self):
        return self.concretize()

    __int__ = __index__

    def concretize(self, limit=300):
        return core.cur().enumerate_values(self.z, limit)

    def __str__(self):
        core.cur().unsupported("str(SymInt) reached from unlifted code")

    def __repr__(self):
        return "<SymInt %s>" % (self.z,)

    def __format__(self, spec):
        core.cur().unsupported("format(SymInt) reached from unlifted code")


# ---------------------------------------------------------------- sequences
BYTES_WS = (9, 10, 11, 12, 13, 32)
STR_WS = (9, 10, 11, 12, 13, 28, 29, 30, 31, 32, 0x85, 0xA0, 0x1680, 0x2000, 0x2001, 0x2002, 0x2003,
          0x2004, 0x2005, 0x2006, 0x2007, 0x2008, 0x2009, 0x200A, 0x2028, 0x2029, 0x202F, 0x205F, 0x3000)
BYTES_LINEBREAKS = (10, 13)
STR_LINEBREAKS = (10, 11, 12, 13, 0x1C, 0x1D, 0x1E, 0x85, 0x2028, 0x2029)


def item_in(it, values):
    """item (int|z3) member of a set of ints -> bool | z3 Bool."""
    if isinstance(it, int):
        return it in values
    return zor([it == v for v in values])


def seq_kind(x):
    if isinstance(x, SymSeq):
        return x.kind
    if isinstance(x, (bytes, bytearray)):
        return "bytes"
    if isinstance(x, str):
        return "str"
    if type(x).__name__ == "SymByteArray":
        return "bytes"
    return None


def seq_items(x):
    if isinstance(x, SymSeq):
        return x.items
    if isinstance(x, (bytes, bytearray)):
        return list(x)
    if isinstance(x, str):
        return [ord(c) for c in x]
    if type(x).__name__ == "SymByteArray":
        return list(x.items)
    raise TypeError("expected bytes/str-like, got %r" % type(x))


def mkseq(kind, items):
    items = list(items)
    for i, it in enumerate(items):
        if not isinstance(it, int):
            if z3.is_int_value(it):
                items[i] = it.as_long()
            else:
                return (SymBytes if kind == "bytes" else SymStr)(items)
    if kind == "bytes":
        return bytes(items)
    return "".join(map(chr, items))


def to_symseq(x):
    if isinstance(x, SymSeq):
        return x
    k = seq_kind(x)
    if k is None:
        raise TypeError("expected bytes/str-like, got %r" % type(x))
    return (SymBytes if k == "bytes" else SymStr)(seq_items(x))


def _seq_eq(a_items, b_items):
    if len(a_items) != len(b_items):
        return False
    return zand([zeq(a, b) for a, b in zip(a_items, b_items)])


def _seq_lt(a, b, or_equal):
    """lexicographic a < b (or <=) as bool | z3 Bool."""
    n = min(len(a), len(b))
    alts = []
    prefix_eq = []
    for i in range(n):
        ai, bi = a[i], b[i]
        if isinstance(ai, int) and isinstance(bi, int):
            lt = ai < bi
        else:
            lt = zi(ai) < zi(bi)
        alts.append(zand(prefix_eq + [lt]))
        prefix_eq.append(zeq(ai, bi))
    # all common items equal
    if len(a) < len(b) or (or_equal and len(a) == len(b)):
        alts.append(zand(prefix_eq))
    return zor(alts)


class SymSeq(SymBase):
    __slots__ = ("items",)
    kind = None

    def __init__(self, items):
        self.items = list(items)

    def concretize(self, per_item_limit=16):
        """A real bytes / str holding one feasible value of this sequence on this path (forks over the feasible values of
        each symbolic item in turn; an item with more than per_item_limit values is 'unsupported')."""
        out = []
        for it in self.items:
            out.append(it if isinstance(it, int) else core.cur().enumerate_values(it, per_item_limit))
        return bytes(out) if self.kind == "bytes" else "".join(chr(c) for c in out)

    # -- helpers
    def _same(self, other):
        return seq_kind(other) == self.kind

    def _mk(self, items):
        return mkseq(self.kind, items)

    def _coerce_arg(self, x, what):
        if not self._same(x):
            raise TypeError("%s: expected %s-like argument, got %s" % (what, self.kind, type(x).__name__))
        return seq_items(x)

    def _ws(self):
        return BYTES_WS if self.kind == "bytes" else STR_WS

    # -- protocol
    def __len__(self):
        return len(self.items)

    def __getitem__(self, i):
        if isinstance(i, slice):
            return self._mk(self.items[i])
        it = self.items[i]          # SymInt index -> __index__ -> fork over feasible values
        if self.kind == "bytes":
            return mkint(it)
        return self._mk([it])

    def __iter__(self):
        if self.kind == "bytes":
            return iter([mkint(it) for it in self.items])
        return iter([self._mk([it]) for it in self.items])

    def __add__(self, other):
        if not self._same(other):
            return NotImplemented
        return self._mk(self.items + seq_items(other))

    def __radd__(self, other):
        if not self._same(other):
            return NotImplemented
        return self._mk(seq_items(other) + self.items)

    def __mul__(self, n):
        if isinstance(n, (int, SymInt)):
            return self._mk(self.items * int(n))
        return NotImplemented

    __rmul__ = __mul__

    def __hash__(self):
        core.cur().unsupported("hash(%s)" % type(self).__name__)

    def __eq__(self, other):
        if not self._same(other):
            return False
        return mkbool(_seq_eq(self.items, seq_items(other)))

    def __ne__(self, other):
        if not self._same(other):
            return True
        return mkbool(znot(_seq_eq(self.items, seq_items(other))))

    def __lt__(self, other):
        if not self._same(other):
            return NotImplemented
        return mkbool(_seq_lt(self.items, seq_items(other), False))

    def __le__(self, other):
        if not self._same(other):
            return NotImplemented
        return mkbool(_seq_lt(self.items, seq_items(other), True))

    def __gt__(self, other):
        if not self._same(other):
            return NotImplemented
        return mkbool(_seq_lt(seq_items(other), self.items, False))

    def __ge__(self, other):
        if not self._same(other):
            return NotImplemented
        return mkbool(_seq_lt(seq_items(other), self.items, True))

    def __contains__(self, sub):
        if self.kind == "bytes" and isinstance(sub, (int, SymInt)):
            sub_items = [sub.z if isinstance(sub, SymInt) else sub]
        else:
            sub_items = self._coerce_arg(sub, "in")
        return self._find_items(sub_items, 0, len(self.items)) != -1

    def __repr__(self):
        return "<%s %s>" % (type(self).__name__, self.items)

    def __str__(self):
        core.cur().unsupported("str(%s) reached from unlifted code" % type(self).__name__)

    def __format__(self, spec):
        core.cur().unsupported("format(%s) reached from unlifted code" % type(self).__name__)

    # -- searching
    def _norm_range(self, start, end):
        n = len(self.items)
        if start is None:
            start = 0
        if end is None:
            end = n
        start, end = int(start), int(end)
        if start < 0:
            start = max(0, n + start)
        if end < 0:
            end = max(0, n + end)
        return start, min(end, n)

    def _match_at(self, sub, pos):
        return zand([zeq(self.items[pos + k], sub[k]) for k in range(len(sub))])

    def _find_items(self, sub, start, end):
        eng = core.cur()
        m = len(sub)
        for pos in range(start, end - m + 1):
            c = self._match_at(sub, pos)
            if isinstance(c, bool):
                if c:
                    return pos
            elif eng.branch(c):
                return pos
        return -1

    def _rfind_items(self, sub, start, end):
        eng = core.cur()
        m = len(sub)
        for pos in range(end - m, start - 1, -1):
            c = self._match_at(sub, pos)
            if isinstance(c, bool):
                if c:
                    return pos
            elif eng.branch(c):
                return pos
        return -1

    def _sub_arg(self, sub, what):
        if self.kind == "bytes" and isinstance(sub, (int, SymInt)):
            return [sub.z if isinstance(sub, SymInt) else sub]
        return self._coerce_arg(sub, what)

    def find(self, sub, start=None, end=None):
        s, e = self._norm_range(start, end)
        if s > len(self.items):
            return -1
        return self._find_items(self._sub_arg(sub, "find"), s, e)

    def rfind(self, sub, start=None, end=None):
        s, e = self._norm_range(start, end)
        if s > len(self.items):
            return -1
        return self._rfind_items(self._sub_arg(sub, "rfind"), s, e)

    def index(self, sub, start=None, end=None):
        r = self.find(sub, start, end)
        if r == -1:
            raise ValueError("subsection not found" if self.kind == "bytes" else "substring not found")
        return r

    def rindex(self, sub, start=None, end=None):
        r = self.rfind(sub, start, end)
        if r == -1:
            raise ValueError("subsection not found" if self.kind == "bytes" else "substring not found")
        return r

    def count(self, sub, start=None, end=None):
        s, e = self._norm_range(start, end)
        sub = self._sub_arg(sub, "count")
        if not sub:
            return max(0, e - s + 1)
        n = 0
        pos = s
        while True:
            p = self._find_items(sub, pos, e)
            if p == -1:
                return n
            n += 1
            pos = p + len(sub)

    def startswith(self, prefix, start=None, end=None):
        if isinstance(prefix, tuple):
            for p in prefix:
                if self.startswith(p, start, end):
                    return True
            return False
        p = self._coerce_arg(prefix, "startswith")
        s, e = self._norm_range(start, end)
        if s + len(p) > e:
            return False
        return mkbool(_seq_eq(self.items[s:s + len(p)], p))

    def endswith(self, suffix, start=None, end=None):
        if isinstance(suffix, tuple):
            for p in suffix:
                if self.endswith(p, start, end):
                    return True
            return False
        p = self._coerce_arg(suffix, "endswith")
        s, e = self._norm_range(start, end)
        if e - len(p) < s:
            return False
        return mkbool(_seq_eq(self.items[e - len(p):e], p))

    # -- splitting
    def _is_ws(self, it):
        eng = core.cur()
        c = item_in(it, self._ws())
        return c if isinstance(c, bool) else eng.branch(c)

    def _split_ws(self, maxsplit):
        out = []
        n = len(self.items)
        i = 0
        while True:
            while i < n and self._is_ws(self.items[i]):
                i += 1
            if i >= n:
                return out
            if maxsplit >= 0 and len(out) >= maxsplit:
                # remainder, with trailing whitespace stripped
                j = n
                while j > i and self._is_ws(self.items[j - 1]):
                    j -= 1
                out.append(self._mk(self.items[i:j]))
                return out
            j = i
            while j < n and not self._is_ws(self.items[j]):
                j += 1
            out.append(self._mk(self.items[i:j]))
            i = j

    def split(self, sep=None, maxsplit=-1):
        maxsplit = int(maxsplit)
        if sep is None:
            return self._split_ws(maxsplit)
        sep = self._coerce_arg(sep, "split")
        if not sep:
            raise ValueError("empty separator")
        out = []
        pos = 0
        n = len(self.items)
        while maxsplit < 0 or len(out) < maxsplit:
            p = self._find_items(sep, pos, n)
            if p == -1:
                break
            out.append(self._mk(self.items[pos:p]))
            pos = p + len(sep)
        out.append(self._mk(self.items[pos:]))
        return out

    def rsplit(self, sep=None, maxsplit=-1):
        maxsplit = int(maxsplit)
        if sep is None:
            if maxsplit < 0:
                return self._split_ws(-1)
            core.cur().unsupported("rsplit(None, maxsplit)")
        sep = self._coerce_arg(sep, "rsplit")
        if not sep:
            raise ValueError("empty separator")
        out = []
        end = len(self.items)
        while maxsplit < 0 or len(out) < maxsplit:
            p = self._rfind_items(sep, 0, end)
            if p == -1:
                break
            out.append(self._mk(self.items[p + len(sep):end]))
            end = p
        out.append(self._mk(self.items[:end]))
        out.reverse()
        return out

    def partition(self, sep):
        sep_i = self._coerce_arg(sep, "partition")
        if not sep_i:
            raise ValueError("empty separator")
        p = self._find_items(sep_i, 0, len(self.items))
        empty = self._mk([])
        if p == -1:
            return (self, empty, empty)
        return (self._mk(self.items[:p]), self._mk(self.items[p:p + len(sep_i)]), self._mk(self.items[p + len(sep_i):]))

    def rpartition(self, sep):
        sep_i = self._coerce_arg(sep, "rpartition")
        if not sep_i:
            raise ValueError("empty separator")
        p = self._rfind_items(sep_i, 0, len(self.items))
        empty = self._mk([])
        if p == -1:
            return (empty, empty, self)
        return (self._mk(self.items[:p]), self._mk(self.items[p:p + len(sep_i)]), self._mk(self.items[p + len(sep_i):]))

    def splitlines(self, keepends=False):
        eng = core.cur()
        lbs = BYTES_LINEBREAKS if self.kind == "bytes" else STR_LINEBREAKS
        out = []
        n = len(self.items)
        i = 0
        start = 0
        while i < n:
            it = self.items[i]
            c = item_in(it, lbs)
            isbreak = c if isinstance(c, bool) else eng.branch(c)
            if not isbreak:
                i += 1
                continue
            eol = i + 1
            c13 = zeq(it, 13)
            is_cr = c13 if isinstance(c13, bool) else eng.branch(c13)
            if is_cr and i + 1 < n:
                c10 = zeq(self.items[i + 1], 10)
                if (c10 if isinstance(c10, bool) else eng.branch(c10)):
                    eol = i + 2
            out.append(self._mk(self.items[start:eol if keepends else i]))
            i = start = eol
        if start < n:
            out.append(self._mk(self.items[start:]))
        return out

    def _strip(self, chars, left, right):
        eng = core.cur()
        if chars is None:
            cs = self._ws()

            def isc(it):
                c = item_in(it, cs)
                return c if isinstance(c, bool) else eng.branch(c)
        else:
            ci = self._coerce_arg(chars, "strip")

            def isc(it):
                c = zor([zeq(it, x) for x in ci])
                return c if isinstance(c, bool) else eng.branch(c)
        i, j = 0, len(self.items)
        if left:
            while i < j and isc(self.items[i]):
                i += 1
        if right:
            while j > i and isc(self.items[j - 1]):
                j -= 1
        return self._mk(self.items[i:j])

    def strip(self, chars=None):
        return self._strip(chars, True, True)

    def lstrip(self, chars=None):
        return self._strip(chars, True, False)

    def rstrip(self, chars=None):
        return self._strip(chars, False, True)

    def removeprefix(self, p):
        if self.startswith(p):
            return self[len(p):]
        return self

    def removesuffix(self, p):
        if len(p) and self.endswith(p):
            return self[:len(self.items) - len(p)]
        return self

    def replace(self, old, new, count=-1):
        old_i = self._coerce_arg(old, "replace")
        new_i = self._coerce_arg(new, "replace")
        count = int(count)
        if not old_i:
            core.cur().unsupported("replace with empty pattern")
        out = []
        pos = 0
        n = len(self.items)
        done = 0
        while count < 0 or done < count:
            p = self._find_items(old_i, pos, n)
            if p == -1:
                break
            out += self.items[pos:p]
            out += new_i
            pos = p + len(old_i)
            done += 1
        out += self.items[pos:]
        return self._mk(out)

    def join(self, parts):
        out = []
        for i, p in enumerate(parts):
            if not self._same(p):
                raise TypeError("sequence item %d: expected %s-like instance, %s found" % (i, self.kind, type(p).__name__))
            if i:
                out += self.items
            out += seq_items(p)
        return self._mk(out)

    # -- character classes / case
    def _all_items(self, pred_values=None, ranges=()):
        """True iff non-empty and all items in ranges (forks)."""
        eng = core.cur()
        if not self.items:
            return False
        for it in self.items:
            if isinstance(it, int):
                ok = any(lo <= it <= hi for lo, hi in ranges)
            else:
                ok = eng.branch(zor([z3.And(it >= lo, it <= hi) for lo, hi in ranges]))
            if not ok:
                return False
        return True

    def _ascii_only(self, what):
        eng = core.cur()
        for it in self.items:
            if isinstance(it, int):
                ok = it < 128
            else:
                ok = eng.branch(it < 128)
            if not ok:
                eng.unsupported("%s on non-ASCII symbolic %s" % (what, self.kind))

    def isdigit(self):
        if self.kind == "str":
            self._ascii_only("isdigit")
        return self._all_items(ranges=((48, 57),))

    def isspace(self):
        if not self.items:
            return False
        for it in self.items:
            if not self._is_ws(it):
                return False
        return True

    def isalpha(self):
        if self.kind == "str":
            self._ascii_only("isalpha")
        return self._all_items(ranges=((65, 90), (97, 122)))

    def isalnum(self):
        if self.kind == "str":
            self._ascii_only("isalnum")
        return self._all_items(ranges=((48, 57), (65, 90), (97, 122)))

    def lower(self):
        if self.kind == "str":
            self._ascii_only("lower")
        return self._mk([(it + 32 if 65 <= it <= 90 else it) if isinstance(it, int)
                         else z3.If(z3.And(it >= 65, it <= 90), it + 32, it) for it in self.items])

    def upper(self):
        if self.kind == "str":
            self._ascii_only("upper")
        return self._mk([(it - 32 if 97 <= it <= 122 else it) if isinstance(it, int)
                         else z3.If(z3.And(it >= 97, it <= 122), it - 32, it) for it in self.items])


class SymBytes(SymSeq):
    __slots__ = ()
    kind = "bytes"

    def decode(self, encoding="utf-8", errors="strict"):
        enc = encoding.lower().replace("_", "-")
        if enc in ("utf-8", "utf8"):
            return mkseq("str", utf8_decode_items(self.items, errors))
        if enc in ("ascii", "us-ascii"):
            eng = core.cur()
            out = []
            for i, it in enumerate(self.items):
                ok = (it < 128) if isinstance(it, int) else eng.branch(it < 128)
                if ok:
                    out.append(it)
                elif errors == "strict":
                    raise UnicodeDecodeError("ascii", b"?", i, i + 1, "ordinal not in range(128)")
                elif errors == "surrogateescape":
                    out.append(it + 0xDC00)
                elif errors == "replace":
                    out.append(0xFFFD)
                elif errors == "ignore":
                    pass
                else:
                    eng.unsupported("decode(ascii, errors=%r)" % (errors,))
            return mkseq("str", out)
        if enc in LATIN1_NAMES:
            return mkseq("str", self.items)
        core.cur().unsupported("decode(%s)" % encoding)

    def hex(self):
        core.cur().unsupported("SymBytes.hex")

    def __bytes__(self):
        core.cur().unsupported("bytes(SymBytes) reached from unlifted code")


LATIN1_NAMES = ("latin-1", "latin1", "iso-8859-1", "iso8859-1", "8859", "l1", "latin", "cp819", "iso-ir-100")


class SymStr(SymSeq):
    __slots__ = ()
    kind = "str"

    def format(self, *args, **kwargs):
        """str.format for a concrete template with symbolic arguments ({} / {0} / {name} fields, no specs)."""
        import string
        eng = core.cur()
        if any(not isinstance(it, int) for it in self.items):
            eng.unsupported("symbolic format template")
        tmpl = "".join(map(chr, self.items))
        out = []
        auto = 0
        for lit, field, spec, conv in string.Formatter().parse(tmpl):
            out += [ord(c) for c in lit]
            if field is None:
                continue
            if field == "":
                v = args[auto]
                auto += 1
            elif field.isdigit():
                v = args[int(field)]
            else:
                v = kwargs[field]
            if isinstance(v, SymStr) and not spec and conv in (None, "s"):
                out += v.items
            elif isinstance(v, SymInt) and not spec and conv in (None, "s"):
                out += seq_items(render_int(v, "str"))
            elif isinstance(v, SymBase):
                from .rt import opaque
                out += [ord(c) for c in opaque("format")]
            else:
                if conv == "r":
                    v = repr(v)
                elif conv == "s":
                    v = str(v)
                out += [ord(c) for c in format(v, spec or "")]
        return mkseq("str", out)

    def encode(self, encoding="utf-8", errors="strict"):
        enc = encoding.lower().replace("_", "-")
        if enc in ("utf-8", "utf8"):
            return mkseq("bytes", utf8_encode_items(self.items, errors))
        if enc in ("ascii", "us-ascii"):
            eng = core.cur()
            out = []
            for i, it in enumerate(self.items):
                ok = (it < 128) if isinstance(it, int) else eng.branch(it < 128)
                if ok:
                    out.append(it)
                elif errors == "surrogateescape" and _t(eng, _rng(it, 0xDC80, 0xDCFF)):
                    out.append(it - 0xDC00)
                elif errors == "replace":
                    out.append(63)
                elif errors == "ignore":
                    pass
                else:
                    raise UnicodeEncodeError("ascii", "?", i, i + 1, "ordinal not in range(128)")
            return mkseq("bytes", out)
        if enc in LATIN1_NAMES:
            eng = core.cur()
            out = []
            for i, it in enumerate(self.items):
                ok = (it < 256) if isinstance(it, int) else eng.branch(it < 256)
                if ok:
                    out.append(it)
                elif errors == "surrogateescape" and _t(eng, _rng(it, 0xDC80, 0xDCFF)):
                    out.append(it - 0xDC00)
                elif errors == "replace":
                    out.append(63)
                elif errors == "ignore":
                    pass
                else:
                    raise UnicodeEncodeError("latin-1", "?", i, i + 1, "ordinal not in range(256)")
            return mkseq("bytes", out)
        core.cur().unsupported("encode(%s)" % encoding)


# ---------------------------------------------------------------- UTF-8 codec
def _t(eng, c):
    return c if isinstance(c, bool) else eng.branch(c)


def _rng(x, lo, hi):
    if isinstance(x, int):
        return lo <= x <= hi
    return z3.And(x >= lo, x <= hi)


def utf8_decode_items(items, errors="strict"):
    """bytes items -> code point items, forking on the class of every lead byte (CPython's decoder rules)."""
    eng = core.cur()
    if errors not in ("strict", "surrogateescape", "replace", "ignore"):
        eng.unsupported("utf-8 decode with errors=%r" % (errors,))
    out = []
    n = len(items)
    i = 0

    def invalid(start, k, reason):
        if errors == "strict":
            raise UnicodeDecodeError("utf-8", b"?", start, start + k, reason)
        if errors == "surrogateescape":
            for j in range(start, start + k):
                out.append(items[j] + 0xDC00)
        elif errors == "replace":
            out.append(0xFFFD)
        return start + k

    def cont(j):
        return j < n and _t(eng, _rng(items[j], 0x80, 0xBF))

    while i < n:
        b0 = items[i]
        if _t(eng, _rng(b0, 0, 0x7F)):
            out.append(b0)
            i += 1
        elif _t(eng, _rng(b0, 0xC2, 0xDF)):
            if cont(i + 1):
                out.append((b0 - 0xC0) * 64 + (items[i + 1] - 0x80))
                i += 2
            else:
                i = invalid(i, 1, "invalid continuation byte" if i + 1 < n else "unexpected end of data")
        elif _t(eng, _rng(b0, 0xE0, 0xEF)):
            ok2 = False
            if i + 1 < n:
                b1 = items[i + 1]
                if isinstance(b0, int) and isinstance(b1, int):
                    c2 = 0x80 <= b1 <= 0xBF and not (b0 == 0xE0 and b1 < 0xA0) and not (b0 == 0xED and b1 > 0x9F)
                else:
                    c2 = z3.And(_z(b1) >= 0x80, _z(b1) <= 0xBF, z3.Implies(_z(b0) == 0xE0, _z(b1) >= 0xA0),
                                z3.Implies(_z(b0) == 0xED, _z(b1) <= 0x9F))
                ok2 = _t(eng, c2)
            if not ok2:
                i = invalid(i, 1, "invalid continuation byte" if i + 1 < n else "unexpected end of data")
            elif cont(i + 2):
                out.append(((b0 - 0xE0) * 64 + (items[i + 1] - 0x80)) * 64 + (items[i + 2] - 0x80))
                i += 3
            else:
                i = invalid(i, 2, "invalid continuation byte" if i + 2 < n else "unexpected end of data")
        elif _t(eng, _rng(b0, 0xF0, 0xF4)):
            ok2 = False
            if i + 1 < n:
                b1 = items[i + 1]
                if isinstance(b0, int) and isinstance(b1, int):
                    c2 = 0x80 <= b1 <= 0xBF and not (b0 == 0xF0 and b1 < 0x90) and not (b0 == 0xF4 and b1 > 0x8F)
                else:
                    c2 = z3.And(_z(b1) >= 0x80, _z(b1) <= 0xBF, z3.Implies(_z(b0) == 0xF0, _z(b1) >= 0x90),
                                z3.Implies(_z(b0) == 0xF4, _z(b1) <= 0x8F))
                ok2 = _t(eng, c2)
            if not ok2:
                i = invalid(i, 1, "invalid continuation byte" if i + 1 < n else "unexpected end of data")
            elif not cont(i + 2):
                i = invalid(i, 2, "invalid continuation byte" if i + 2 < n else "unexpected end of data")
            elif not cont(i + 3):
                i = invalid(i, 3, "invalid continuation byte" if i + 3 < n else "unexpected end of data")
            else:
                out.append((((b0 - 0xF0) * 64 + (items[i + 1] - 0x80)) * 64 + (items[i + 2] - 0x80)) * 64 +
                           (items[i + 3] - 0x80))
                i += 4
        else:
            i = invalid(i, 1, "invalid start byte")
    return out


def _z(x):
    return z3.IntVal(x) if isinstance(x, int) else x


def utf8_encode_items(items, errors="strict"):
    """code point items -> utf-8 byte items, forking on the size class of every character."""
    eng = core.cur()
    if errors not in ("strict", "surrogateescape", "replace", "ignore", "surrogatepass"):
        eng.unsupported("utf-8 encode with errors=%r" % (errors,))
    out = []
    for i, c in enumerate(items):
        if _t(eng, _rng(c, 0, 0x7F)):
            out.append(c)
        elif _t(eng, _rng(c, 0x80, 0x7FF)):
            out += [0xC0 + c / 64, 0x80 + c % 64] if not isinstance(c, int) else [0xC0 + c // 64, 0x80 + c % 64]
        elif _t(eng, _rng(c, 0xD800, 0xDFFF)):
            if errors == "surrogateescape" and _t(eng, _rng(c, 0xDC80, 0xDCFF)):
                out.append(c - 0xDC00)
            elif errors == "replace":
                out.append(63)
            elif errors == "ignore":
                pass
            elif errors == "surrogatepass":
                out += _enc3(c)
            else:
                raise UnicodeEncodeError("utf-8", "?", i, i + 1, "surrogates not allowed")
        elif _t(eng, _rng(c, 0x800, 0xFFFF)):
            out += _enc3(c)
        else:
            if isinstance(c, int):
                out += [0xF0 + c // 262144, 0x80 + (c // 4096) % 64, 0x80 + (c // 64) % 64, 0x80 + c % 64]
            else:
                out += [0xF0 + c / 262144, 0x80 + (c / 4096) % 64, 0x80 + (c / 64) % 64, 0x80 + c % 64]
    return out


def _enc3(c):
    if isinstance(c, int):
        return [0xE0 + c // 4096, 0x80 + (c // 64) % 64, 0x80 + c % 64]
    return [0xE0 + c / 4096, 0x80 + (c / 64) % 64, 0x80 + c % 64]


# ---------------------------------------------------------------- int <-> text
MAX_RENDER_DIGITS = 12


def render_int(x, kind, base=10):
    """str(x) / b'%d' % x for a SymInt: fork on sign and digit count."""
    eng = core.cur()
    if isinstance(x, int):
        s = str(x) if base == 10 else format(x, "x")
        return s if kind == "str" else s.encode("ascii")
    z = x.z
    neg = eng.branch(z < 0)
    mag = -z if neg else z
    conds = []
    for k in range(1, MAX_RENDER_DIGITS + 1):
        lo = 0 if k == 1 else base ** (k - 1)
        conds.append(z3.And(mag >= lo, mag < base ** k))
    conds.append(mag >= base ** MAX_RENDER_DIGITS)
    k = eng.decide(conds)
    if k == MAX_RENDER_DIGITS:
        eng.unsupported("rendering an integer with more than %d digits" % MAX_RENDER_DIGITS)
    ndig = k + 1
    digs = []
    total = z3.IntVal(0)
    for i in range(ndig):
        d = z3.Int(eng.fresh_name("dig"))
        eng.add(z3.And(d >= 0, d < base))
        digs.append(d)
        total = total * base + d
    eng.add(total == mag)
    items = [45] if neg else []
    for d in digs:
        if base == 10:
            items.append(d + 48)
        else:
            items.append(z3.If(d < 10, d + 48, d + 87))
    return mkseq(kind, items)


def parse_int(seq, base=10):
    """int(seq[, base]) for a symbolic bytes/str with python's grammar:
    optional surrounding whitespace, optional sign, digits with single
    underscores between digits.  base 10 and 16 only."""
    eng = core.cur()
    if base not in (10, 16):
        eng.unsupported("int() with base %r" % (base,))
    kind = seq.kind
    items = seq.items
    ws = BYTES_WS if kind == "bytes" else STR_WS

    def bad():
        raise ValueError("invalid literal for int() with base %d" % base)

    def test(c):
        return c if isinstance(c, bool) else eng.branch(c)

    i, j = 0, len(items)
    while i < j and test(item_in(items[i], ws)):
        i += 1
    while j > i and test(item_in(items[j - 1], ws)):
        j -= 1
    neg = False
    if i < j:
        if test(zeq(items[i], 45)):
            neg = True
            i += 1
        elif test(zeq(items[i], 43)):
            i += 1
    if base == 16 and j - i >= 2 and test(zeq(items[i], 48)) and test(item_in(items[i + 1], (120, 88))):
        i += 2
        if i < j and test(zeq(items[i], 95)):
            i += 1
    if i >= j:
        bad()
    total = 0
    prev_digit = False
    while i < j:
        it = items[i]
        if test(zeq(it, 95)):
            if not prev_digit or i + 1 >= j:
                bad()
            prev_digit = False
            i += 1
            continue
        if isinstance(it, int):
            ch = chr(it)
            try:
                v = int(ch, base)
            except ValueError:
                bad()
            if kind == "bytes" and it >= 128:
                bad()
            total = total * base + v
        else:
            if base == 10:
                if eng.branch(z3.And(it >= 48, it <= 57)):
                    total = total * 10 + (it - 48)
                else:
                    if kind == "str" and eng.branch(it >= 128):
                        eng.unsupported("int() of non-ASCII symbolic str")
                    bad()
            else:
                k = eng.decide([z3.And(it >= 48, it <= 57), z3.And(it >= 97, it <= 102), z3.And(it >= 65, it <= 70),
                                z3.Not(z3.Or(z3.And(it >= 48, it <= 57), z3.And(it >= 97, it <= 102),
                                             z3.And(it >= 65, it <= 70)))])
                if k == 3:
                    if kind == "str" and eng.branch(it >= 128):
                        eng.unsupported("int() of non-ASCII symbolic str")
                    bad()
                total = total * 16 + (it - (48, 87, 55)[k])
        prev_digit = True
        i += 1
    if neg:
        total = -total
    return mkint(total) if not isinstance(total, int) else total
