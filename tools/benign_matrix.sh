#!/bin/sh
# tools/benign_matrix.sh : apply each behaviour-preserving refactoring in seeded/benign/<ID>r/ to /repo, run the quick checks
# of the properties anchored in the refactored code (all must exit 0), undo it; table in seeded/benign/MATRIX.md.
# Never run this while another check is running: /repo's working tree is modified for the duration of each check.
cd "$(dirname "$0")/.."
OUT=seeded/benign/MATRIX.md
TMP=$(mktemp)
for d in $(ls seeded/benign | grep -E '^C[0-9]+r$' | sort); do
  id=${d%r}
  case $id in
    C27) ids="C26 C27";;
    C04) ids="C04 C05 C06 C07";;
    C29) ids="C29 C30";;
    *) ids="$id";;
  esac
  p=seeded/benign/$d/patch.diff
  if ! git -C /repo apply --check "$PWD/$p" 2>/dev/null; then
    echo "| $d | - | patch does not apply to the current tree |" >> $TMP; continue
  fi
  git -C /repo apply "$PWD/$p"
  for c in $ids; do
    ./check $c --tier quick > /tmp/benign_${d}_$c.log 2>&1; rc=$?
    case $rc in 0) res="passes (exit 0)";; 1) res="FALSE ALARM (exit 1)";; 3) res="inconclusive (exit 3)";; *) res="exit $rc";; esac
    echo "| $d | $c | $res |" >> $TMP
    echo "$d $c $res"
  done
  git -C /repo checkout -- .
done
{
  echo "# Behaviour-preserving refactorings against the current checks (quick tier)"
  echo
  echo "Each patch was written by a sub-agent that saw only the property text (tools/refactor_prompt_template.txt), keeps every"
  echo "existing test result and was compared with the original by the agent's own differential run. A check must NOT report a"
  echo "violation on them."
  echo
  echo "| refactoring | check | result |"
  echo "|---|---|---|"
  cat $TMP
} > $OUT
rm -f $TMP
exit 0
