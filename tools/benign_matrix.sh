#!/bin/sh
# tools/benign_matrix.sh : for each behaviour-preserving refactoring in seeded/benign/<ID>r/, make a scratch worktree of
# /repo HEAD (under /tmp/wt, removed afterwards), apply the patch there and run the quick checks of the properties anchored
# in the refactored code against that worktree (PYTHONPATH; /repo is not touched, no evidence is written). All must exit 0.
# Table in seeded/benign/MATRIX.md.
cd "$(dirname "$0")/.."
OUT=seeded/benign/MATRIX.md
TMP=$(mktemp)
for d in $(ls seeded/benign | grep -E '^C[0-9]+r[0-9]*$' | sort); do
  id=${d%%r*}
  case $id in
    C27) ids="C26 C27";;
    C04|C05|C06) ids="C04 C05 C06 C07";;
    C07) ids="C07 C04";;
    C17) ids="C17 C18 C19";;
    C18) ids="C18 C17";;
    C01|C23) ids="C01 C23";;
    C29) ids="C29 C30";;
    C22) ids="C21 C22";;
    *) ids="$id";;
  esac
  W=/tmp/wt/bm_$d
  tools/mk_worktree.sh bm_$d > /dev/null
  if ! git -C $W apply "$PWD/seeded/benign/$d/patch.diff" 2>/dev/null; then
    echo "| $d | - | patch does not apply to the current tree |" >> $TMP
    tools/rm_worktree.sh bm_$d > /dev/null; continue
  fi
  for c in $ids; do
    PYTHONPATH=$W VERIF_NO_EVIDENCE=1 ./check $c --tier quick > /tmp/benign_${d}_$c.log 2>&1; rc=$?
    case $rc in 0) res="passes (exit 0)";; 1) res="FALSE ALARM (exit 1)";; 3) res="inconclusive (exit 3)";; *) res="exit $rc";; esac
    echo "| $d | $c | $res |" >> $TMP
    echo "$d $c $res"
  done
  tools/rm_worktree.sh bm_$d > /dev/null
done
{
  echo "# Behaviour-preserving refactorings against the current checks (quick tier)"
  echo
  echo "Each patch was written by a sub-agent that saw only the property text (tools/refactor_prompt_template.txt), keeps every"
  echo "existing test result and was compared with the original by the agent's own differential run. A check must NOT report a"
  echo "violation on them."
  echo
  echo "| refactoring | check | result |"
  echo "|---|---|---|"
  cat $TMP
} > $OUT
rm -f $TMP
exit 0
