#!/usr/bin/env python3
"""Compare a junit xml from the baseline command with /root/.vp/BASELINE.json's stable_pass list."""
import json, sys, xml.etree.ElementTree as ET
b = json.load(open('/root/.vp/BASELINE.json')); sp = set(b['stable_pass'])
res = {}
for tc in ET.parse(sys.argv[1]).iter('testcase'):
    name = tc.get('classname') + '::' + tc.get('name'); st = 'pass'
    for ch in tc:
        if ch.tag in ('failure', 'error'): st = 'fail'
        elif ch.tag == 'skipped': st = 'skip'
    res[name] = st
missing = sorted(n for n in sp if res.get(n) != 'pass')
print(len(res), 'tests,', sum(1 for v in res.values() if v == 'pass'), 'passed; stable_pass not passing:', len(missing))
for m in missing[:20]: print('  ', m, res.get(m))
