#!/bin/sh
# tools/confirm_seed.sh ID [full] : confirm a seeded change produced in /tmp/wt/ID (+ /tmp/wt/ID.out)
ID=$1
W=/tmp/wt/$ID; O=/tmp/wt/$ID.out
DEMO=$(ls $O/demo*.py | head -1)
cd /tmp
PYTHONPATH=$W timeout 300 /venv/bin/python $DEMO > $O/demo_with.log 2>&1; with=$?
PYTHONPATH=/repo timeout 300 /venv/bin/python $DEMO > $O/demo_without.log 2>&1; without=$?
echo "$ID demo: with-change rc=$with, without rc=$without"
git -C $W diff > $O/patch.check.diff
if [ "$2" = "full" ]; then
  (cd $W && PYTHONPATH=$W timeout 6000 /venv/bin/python -m pytest -ra -q -p no:cacheprovider --timeout=900 --continue-on-collection-errors --junitxml=$O/junit.xml > $O/suite.log 2>&1)
  python3 /verif/tools/cmp_baseline.py $O/junit.xml > $O/suite_cmp.txt 2>&1
  echo "$ID suite: $(head -1 $O/suite_cmp.txt)"
fi
