#!/usr/bin/env python3
"""Regenerate /verif/MANIFEST.json from the harness modules and the tables below."""
import json
import os
import subprocess

ROOT = os.path.dirname(os.path.dirname(os.path.abspath(__file__)))

TECH = "bounded symbolic execution of the real Python source (symx: AST lifting + z3), exhaustive over all paths within the bounds; every path and every counterexample replayed on the unlifted code"

CLAIMED = {
    "C01": ("which changes a commit records: selection / exclusion / missing-file filters and the commit() pipeline with a failure point",
            "The real filter_excluded over changes with SYMBOLIC old / new paths and symbolic excluded paths: a change is "
            "passed on, unchanged and in order, iff neither of its paths lies in an excluded path (component-wise "
            "containment). The real Commit._filter_iter_changes over every combination of versioned flags and kinds: "
            "versioned entries whose file is missing are committed as deletions (and listed for unversioning), changes "
            "between two unversioned states are not committed, everything else passes unchanged. The real Commit.commit() "
            "over recording stand-ins with the form of the selection / exclusion arguments, a pending merge, "
            "allow_pointless and the step at which an exception is raised SYMBOLIC: the builder records exactly the selected, "
            "not excluded changes (None = all, [] = none), the steps run in order, and a commit that raises before its "
            "revision is stored aborts the write group once and leaves tip, basis and locks untouched. The tree comparison "
            "itself, the commit builder's inventory / text recording, the recorded revision tree and failures after "
            "builder.commit are outside.",
            "osutils.is_inside_any (Rust) replaced by a python model validated against it before each run; reporter and "
            "tree are stubs"),
    "C02": ("last-changed revision and per-file parents of one file (the commit builder's decision)",
            "The real VersionedFileCommitBuilder.record_iter_changes / _heads for one file over one or two parent "
            "inventories and a working tree in which the file is absent or a file / directory with SYMBOLIC name, directory, "
            "content hash, executable bit and last-changed revision ids (equal or not), with a symbolic per-file ancestry "
            "between the parents' versions: the per-file parents are exactly the heads among the parents' versions; the new "
            "inventory names the single head as last-changed (and stores no text) iff the tree's file is identical to it in "
            "kind, name, directory, executable bit and content, otherwise the new revision with a text whose parents are "
            "those heads; removed files get a deletion row, untouched files none. Symlinks, tree references, more than two "
            "parents, ghosts, the compiled inventory classes, the real graph and brz check over real histories are outside.",
            "parent entries are python records; make_inventory_delta and the per-file graph are computed by the harness"),
    "C04": ("ordering of the durable effects of commit / autopack / pack (crash points between effects)",
            "The real RepositoryPackCollection._commit_write_group, allocate, autopack / _do_autopack / "
            "plan_autopack_combinations, _execute_pack_operations, _save_pack_names (+ diff / synchronise), "
            "_clear_obsolete_packs and _obsolete_packs with in-memory bookkeeping run over record packs with SYMBOLIC "
            "revision counts (which decide whether and what autopack combines); finishing a pack, replacing pack-names and "
            "moving a pack to obsolete_packs are recorded as effects in the order the code performs them. After EVERY "
            "prefix of the effects (= a crash there) the pack list names only packs that are complete and not moved away, "
            "and the listed packs hold exactly the old or exactly the new set of revisions, and no pack is ever finished "
            "(index and pack files written in place) under a name pack-names lists at that moment. Same for an explicit "
            "pack() through the real GCCHKPacker.pack / _create_pack_from_packs (content copying is a stand-in; whether "
            "the repacked content hashes to the only live pack's name is symbolic). Crash points inside NewPack.finish, "
            "the content copying of the packers, fetch and the consistency check of a real repository are outside.",
            "a finished pack is durable as a whole, pack-names is replaced atomically, no concurrent writer (C05)"),
    "C05": ("three-way merge of pack-names (kernel)",
            "Decides the sentence 'the pack list written by any process is the three-way merge of its own changes with "
            "changes made by others' for the real _diff_pack_names / _save_pack_names / "
            "_syncronize_pack_names_from_disk_nodes with symbolic pack names and index sizes (<= 2-3 nodes per collection). "
            "The interleaving part of C05 (renames, obsoleting between processes) is concurrency over real I/O and is not "
            "claimed.",
            "index builder, transport, names lock and pack objects are recording stubs; a pack name identifies its content"),
    "C06": ("write-group life cycle of the pack collection (abort / suspend / resume / refuse)",
            "The real RepositoryPackCollection._abort_write_group, _suspend_write_group, _resume_write_group and "
            "_commit_write_group (with autopack and _save_pack_names behind it) over the record packs / effect log of "
            "C04: an aborted group writes nothing and lists nothing; a suspended group is invisible and yields its "
            "token; resuming it in a second group and committing shows exactly what committing directly would show "
            "(with every crash point of that commit checked), aborting the resumed group shows the old content; a group "
            "with missing compression parents or missing inventories is refused (BzrCheckError) without any effect. "
            "The real GCRepositoryPackCollection._check_new_inventories (+ _build_interesting_key_sets, _filter_text_keys) over "
            "a write group whose new revisions and their parents are SYMBOLIC ids (a parent is another new revision, an old "
            "revision or a ghost) with each new inventory / text present or missing: the group is reported as broken iff a "
            "new revision lacks its inventory or the text it introduces, also when that revision is the parent of another "
            "new revision. Pack / index contents, CHK maps themselves, token validation and the repository-level state machine are outside.",
            "_resume_pack is a stand-in; in the life-cycle obligations the sanity checks answer from a symbolic choice; effects "
            "atomic as in C04; for _check_new_inventories the indices and chk_map.iter_interesting_nodes are models over the "
            "symbolic revision table"),
    "C07": ("autopack planning",
            "L1: pack_distribution/_max_pack_count for every total with <= 3/5 decimal digits; L2: plan_autopack_combinations "
            "for <= 4/5 packs with UNBOUNDED positive revision counts against an arbitrary valid distribution; L3: the real "
            "_do_autopack over stub packs. L1 and L2 together give the property for every collection within those bounds.",
            "total = sum of per-pack counts (CombinedGraphIndex.key_count); plan execution (packer, I/O) outside"),
    "C11": ("smart add versions exactly the intended paths (the walk of inventory trees)",
            "The real MutableInventoryTree.smart_add / _SmartAddHelper over a table of file-system nodes (bounded tree "
            "shapes) whose facts are SYMBOLIC per node - already versioned, matches an ignore pattern, nested tree, newline "
            "in the name, kind of a leaf - with <= 2 named paths in any order (or none), recursion on/off, an optional "
            "control directory and conflict helper file: named paths and their unversioned parents are added even when "
            "ignored; a control file name or an unversionable named file is refused with nothing applied; the recursive "
            "walk adds exactly the unversioned children that are not ignored / control / unversionable / ill-named / "
            "helper files / nested trees, descends only into versioned or just-added directories, reports the ignored "
            "ones, and the applied delta carries one correct row per added path. Real trees, the ignore matcher (C48), "
            "unicode normalisation, case-insensitive file systems, git trees are outside.",
            "file system, inventory lookups, ignore answers and nested-tree detection are stubs over the node table; "
            "inventory entries are the real compiled ones built from concrete names"),
    "C12": ("'remove' never deletes uncommitted work without --force; revert's backup-or-keep decision (kernels)",
            "The real InventoryWorkingTree.remove over a table of files with SYMBOLIC names, each unchanged / modified / "
            "newly added / unknown / versioned-but-missing, with keep or delete and with / without force: keeping touches "
            "nothing on disk; deleting without force moves every unknown, newly added or modified file to a backup name "
            "that is free in the TREE (an earlier backup NAME.~1~ is never overwritten, whatever the process's working "
            "directory) instead of deleting it and deletes only unchanged versioned files; force deletes; versioned files "
            "(and only they) are unversioned. The real _alter_files (the body of revert) over reported changes whose "
            "working / target kinds, versioned flags, presence in the basis and content hashes of working tree, basis, target "
            "and merge record are SYMBOLIC: a file whose content differs from the basis and was not written by a merge is "
            "never deleted unless backups were switched off - it is moved to the first free backup name and the reverted "
            "content gets a fresh path, or stays in place when the target has no such file. Directories, what the transform "
            "does with the recorded operations (C13), files the basis lacks but the target has, and merge helpers are outside.",
            "tree queries and osutils file operations are stubs over the table; is_inside_any is a validated model; the "
            "compiled InventoryDelta class is replaced by a list"),
    "C13": ("rename journal, rollback and the apply phases (single failure)",
            "The real InventoryTreeTransform.apply / _apply_removals / _apply_insertions and the real _FileMover over an "
            "abstract flat file system with ONE failure injected at a SYMBOLIC operation index (symbolic errno): a failure in "
            "any rename restores the file system exactly and leaves the metadata untouched, success yields exactly the "
            "transformed layout with updated metadata, files missing on disk are handled; a failure while discarding "
            "replaced content is the recorded known finding. Construction of the transform's bookkeeping, directories "
            "with children, limbo cleanup and the git copy of apply are outside.",
            "transform object = stub instance of the real class with hand-filled bookkeeping; os.rename / delete_any = "
            "abstract file system; a second failure during rollback is outside"),
    "C16": ("uncommit tip / pending-merge arithmetic",
            "Decides the second sentence of C16 (tip moves to the requested left-hand ancestor, removed merges re-recorded "
            "as pending merges, bound-branch ordering, dry run, locks released) for the real breezy.uncommit.uncommit over "
            "stub branch / tree / graph objects with symbolic revno and symbolic revision ids. Commit-then-uncommit on a real "
            "tree and tag removal (src/uncommit.rs) are outside.",
            "branch, master, working tree and graph are interface stubs; history = left-hand chain with <= 2 merges per revision"),
    "C17": ("three-way laws for name / directory and executable bit (kernels)",
            "The real Merge3Merger._merge_names and _merge_executable (with the real _three_way as resolver) over a stub "
            "transform: the name and directory of an entry in BASE / OTHER / THIS are SYMBOLIC comparators. OTHER = BASE "
            "leaves THIS alone, THIS = BASE takes OTHER's value, identical changes do nothing and never conflict, changes "
            "of different attributes by the two sides are both applied (union), different changes of the same attribute "
            "are recorded as one path conflict describing both sides; same for the executable bit incl. file status and "
            "final kind. The per-entry loop of _compute_transform over a symbolic sequence of entries (changed / unchanged / "
            "copied, any content status): every entry's name, content and executable steps run once, in order, and the "
            "executable step sees the content status of that entry alone. Contents / kinds (_do_merge_contents), entry "
            "enumeration over real trees, LCA / weave merge types and entries missing from a tree are outside.",
            "trees and transform are recording stubs; the entry exists in all three trees"),
    "C18": ("merge decision rules",
            "Full property for Merge3Merger._three_way and _lca_multi_way: values are unbounded integers standing for "
            "arbitrary hashable values, <= 4/6 LCAs, both allow_overriding_lca settings.",
            "values compared only with == / in"),
    "C19": ("text merge conflict recording (kernel)",
            "The real Merge3Merger.text_merge together with the (pure-python, lifted) merge3 package on symbolic texts: "
            "BASE of <= 2/3 lines, THIS and OTHER derived by per-line edit scripts with symbolic line contents; a text "
            "conflict is recorded exactly when the three-way merge has conflicting regions, helper files get exactly "
            "BASE/OTHER/THIS, clean merges produce the region-wise merged text, and the unchanged-side / identical-change "
            "laws hold. For the weave / lca merge types: WeaveMerger.text_merge records a conflict (with helper files carrying "
            "the reconstructed base) exactly when the merge plan reported one, also when that base text is empty. Real "
            "trees, the plan-based merges themselves, helper files on disk and conflict resolution are outside.",
            "the compiled patience matcher is replaced by the alignment of the edit scripts; trees / transform are stubs"),
    "C20": ("conflict selection kernel",
            "The real ConflictList.select_conflicts over real TextConflict / PathConflict objects with SYMBOLIC paths and file "
            "ids, symbolic paths to resolve (versioned or not) and recursion: exactly the conflicts whose path, conflict "
            "path or file id matches are selected, the two result lists partition the list in order - also for two conflicts "
            "that compare equal (same class, path and file id) and differ only in their conflict path. Persistence of "
            "conflict lists / merge hashes (rio stanzas, Rust, real trees) is outside.",
            "osutils.is_inside_any (Rust) replaced by a validated python model; tree.path2id is a stub"),
    "C21": ("tip movement decision kernel (pull / push without fetching)",
            "The real GenericInterBranch._update_revisions / _pull / _basic_push, Branch._check_if_descendant_or_diverged / "
            "_revision_relations and BzrBranch.set_last_revision_info / _check_history_violation over a family of histories "
            "with SYMBOLIC sizes (common trunk, extra revisions on each side, optional merge of the target tip into the "
            "source, requested revision anywhere on the source's left-hand history): tip moves iff the requested revision "
            "properly descends from it (or overwrite), stays when already contained, DivergedBranches otherwise, the "
            "recorded revno is the left-hand length, append-only refuses moves that drop the old tip from the left-hand "
            "history, revisions are fetched before the tip moves. GenericInterBranch.push into a branch bound to a master "
            "(the bound branch any number of revisions behind it): the master decides first, and when it refuses neither tip "
            "moves. The real graph algorithms, arbitrary DAGs, ghosts, pull into bound branches and fetching are outside.",
            "graph answers (heads, distance, left-hand ancestry) are computed from the symbolic sizes; branches are stubs "
            "around the real classes"),
    "C22": ("numeric revision specifiers (kernel)",
            "RevisionSpec.from_string(...).in_history(branch) for revno:n, bare n, negative n, last:n, before:n, "
            "before:revno:n, dotted revno:a.b.c and arbitrary short malformed text after 'revno:', with SYMBOLIC n, symbolic "
            "history length and symbolic text, against the definitions in the specifier help; before:<dotted revno> on a merged "
            "revision with 0..3 parents names its left-hand parent, through in_history and as_revision_id alike; the real "
            "Branch dotted-number lookup over an arbitrary one-to-one numbering, and again after the tip moved and the revisions "
            "carry new (symbolic) numbers: no per-branch cache answers with a number from before. Merge-sorted numbering (compiled) and the "
            "revid:/tag:/ancestor:/mainline:/date: specifiers are outside.",
            "branch is a stub with a symbolic number of mainline revisions"),
    "C23": ("bound-branch commit kernel (first sentence of C23) and the master lookup it relies on",
            "The real Commit._check_bound_branch, _check_out_of_date_tree and _update_branches, called in commit()'s order over "
            "stub branches with SYMBOLIC revision ids and revision numbers: a bound non-local commit is refused "
            "(BoundBranchOutOfDate / OutOfDateTree / CommitToDoubleBoundBranch) without changing either branch when the "
            "master moved or the tree is stale, otherwise the master is write-locked and updated first, the local branch "
            "second, to the same tip and old revno + 1; a --local commit never touches the master. The real get_master_branch / "
            "set_bound_location / get_bound_location of BzrBranch and BzrBranch8 on one branch object over a SYMBOLIC sequence "
            "of lookups, binds to two (possibly equal, symbolic) locations, unbinds and lock cycles: the master a commit "
            "would use is always the branch at the location bound NOW (the per-lock cache never answers stale). Update and "
            "pull in a checkout, the commit builder and the tree walk are outside.",
            "branches, tree, builder, config are recording stubs; the three methods are composed by the harness in the order "
            "commit() uses"),
    "C24": ("tag reconciliation kernel",
            "Decides the reconciliation sentence for the real _reconcile_tags with symbolic tag names and revision ids "
            "(<= 2/3 tags per dictionary), overwrite on/off, arbitrary selector; InterTags.merge over stub branches (master "
            "handling, reports, locks). Storage: BasicTags._set_tag_dict / get_tag_dict through the branch's tag bytes read a "
            "dictionary with symbolic unicode names (composed and decomposed spellings of one letter included) and symbolic "
            "revision ids back unchanged. The compiled bencode itself and the tag file I/O are outside.",
            "dict literals of the lifted module are association-list dictionaries; fastbencode replaced by a validated model"),
    "C25": ("log ordering laws",
            "Decides the ordering laws (permutation, mainline reversal, block contiguity, involution, depth rebasing) for the "
            "real reverse_by_depth / _rebase_merge_depth on views of <= 6/8 revisions with symbolic merge depths; the linear "
            "view, the per-file filter, the log generator's level / limit / omit-merges handling, and _generate_all_revisions: "
            "listing a range with the merge graph loaded lazily equals the listing with the graph loaded at once for every "
            "placement of merges on the mainline. Merge sorting (compiled) and real branches are outside.",
            "input is a merge-sorted view (depth increases by at most one per step)"),
    "C26": ("lock directory per-operation obligations",
            "One locker running the real LockDir code against an adversarial environment (other processes release / take / "
            "replace the lock between any two of our transport operations, symbolic nonces): acquisition only after a "
            "confirming read of our nonce, unlock only after confirm, force_break / steal-dead remove only the examined "
            "holder's lock. Full mutual exclusion over interleavings of several real lockers is not claimed.",
            "transport is a coherent in-memory state machine; LockHeldInfo (Rust) replaced by a record; nonces unique"),
    "C27": ("failed acquisition / injected transport errors",
            "The same environment with a transport error injected at any one (thorough: two) of our operations: a failed "
            "acquisition must not leave the lock held by us, held/ always carries readable info, info is written before the "
            "rename. Crash-prefix enumeration is not claimed.",
            "an injected fault has no partial effect"),
    "C28": ("reentrant lock counting",
            "Inductive step from an arbitrary invariant-satisfying state with an UNBOUNDED symbolic lock count for "
            "CountedLock, LockableFiles and PackRepository (covers call histories of any length), plus every call sequence "
            "of length <= 5/8 from the initial state against a reference counter.",
            "physical lock / control files / fallback repositories are recording stubs; representation invariant as stated"),
    "C29": ("smart protocol wire round trip",
            "All three protocol versions: encoders and decoders of the real protocol.py / message.py / medium.py / request.py "
            "run back to back on symbolic bodies, stream chunks, v1/v2 arguments, readv offsets and trailing bytes, for "
            "every segmentation of the byte stream into reads and symbolic short reads.",
            "v3 argument tuples / headers concrete (compiled bencode); recording request verb; in-memory media"),
    "C30": ("read-size obligation",
            "On the same executions as C29: before every read 0 < next_read_size() <= bytes remaining in the message, the "
            "real pipe medium and the real client medium request never ask for more than remains, completion exactly at the "
            "end of the message.",
            "a read returns between 1 and the requested number of bytes"),
    "C31": ("client path translation",
            "SmartServerRequest / VfsRequest.translate_client_path and _pre_open_hook with symbolic client paths over an "
            "alphabet with '.', '/', '%', '2', 'E', 'F', 'e', '~', NUL: result is rejected or is '.'/'./...' without '..' "
            "segments under the root; JailBreak exactly outside the jail. The enforcement inside dromedary transports is outside.",
            "urlutils.joinpath/escape/unescape (Rust) replaced by python models validated against the compiled functions"),
    "C33": ("search recipe construction and serialisation",
            "(1) search_result_from_parent_map over parent maps whose keys, parents and missing keys are SYMBOLIC ids - "
            "the solver decides which coincide, so every graph shape over them is covered: the (start, stop, count) recipe "
            "makes a reference server walk include exactly the map's keys (plus the null revision when reached and not "
            "stopped) and count equals the number of included keys. (2) The recipe bytes produced by "
            "RemoteRepository._serialise_search_recipe / SearchResult.get_network_struct are parsed back by the server "
            "into the same start keys, exclude keys and count. (3) SearchResult.refine between two repositories of a "
            "stack (graph shape and which repository holds which revision symbolic): the refined description makes the next "
            "repository walk exactly the continuation of the first walk - nothing missing, nothing sent twice, count "
            "consistent (one known finding: a wanted revision with an already seen parent). The compiled breadth-first "
            "searcher and limited_search_result_from_parent_map are outside.",
            "revision ids contain no space / newline; the server walk is a reference model in the harness"),
    "C34": ("git commit field round trip",
            "import_commit then export_commit on symbolic times, time zones, flags, author NAMES (letters and spaces before "
            "<email>), message (present/None) and the bzr "
            "metadata block (inject/extract), plus gpg signature and merge tags as ARBITRARY bytes through commits with "
            "no / utf-8 / iso8859-1 encoding header. Byte-for-byte identity of the serialised commit (dulwich) is outside.",
            "input commit is an attribute record; symbolic messages are ASCII; merge tags are carried by a stand-in for "
            "dulwich's Tag; no extra headers"),
    "C36": ("git identifier mappings (Python side)",
            "escape/unescape_file_id on arbitrary bytes, generate/parse_file_id, sha <-> revision id, branch/tag name <-> ref "
            "with symbolic names. URL conversions (Rust + dulwich) and GitBranch.set_parent are outside.",
            "names / paths ASCII"),
    "C37": ("conditional git ref updates (single updater)",
            "set_if_equals / remove_if_equals / add_if_new of the real TransportRefsContainer (with the real dulwich.refs "
            "follow / packed-refs parsing lifted too) over absent / loose / packed / peeled / loose+packed / symbolic refs "
            "with symbolic 40-hex values. Interleavings of two updaters are outside.",
            "in-memory transport; dulwich valid_hexsha / git_line replaced by equivalent python"),
    "C39": ("patch application / statistics",
            "iter_patched_from_hunks, Patch.stats_values / pos_in_mod / iter_inserted, parse_line, header formatting on "
            "symbolic edit scripts and line contents; perturbed old text must give PatchConflict; a hunk whose old and / or new "
            "text ends without a newline is written with the 'No newline' markers and parses back to the same lines; "
            "unified_diff_bytes -> iter_hunks -> patcher gives the new text. The compiled sequence matcher and header/range "
            "parsing are outside (iter_lines_handle_nl is a validated model).",
            "an edit script stands for the diff of its old and new side"),
    "C41": ("testament sensitivity",
            "Two revisions that differ in exactly one attested field (15 fields, 3 testament classes, symbolic values) must "
            "have different testament texts or be rejected. Cross-format determinism needs real repositories (outside).",
            "contains_whitespace/linebreaks (Rust) replaced by validated python models; one tree entry"),
    "C42": ("export entry selection kernel",
            "The real breezy.export._export_iter_entries over a stub tree with SYMBOLIC entry paths and a symbolic "
            "sub-directory: exactly the entries of the exported (sub-)tree are yielded, under the right relative path; "
            "special and filtered entries never. The directory exporter writes every selected file with its own executable "
            "bit, content and time stamp (symbolic), makes directories first and symlinks with their target, whatever "
            "order the tree delivers the contents in. The tar / zip writers and the real file system are outside.",
            "tree is a stub; paths are well-formed '/'-separated tree paths"),
    "C43": ("one incremental upload step over files with symbolic names",
            "The real BzrUploader.upload_tree (with rename_remote / finish_renames / upload_file / delete_remote_file and "
            "the uploaded-revision bookkeeping) from an arbitrary consistent state: the remote directory equals the "
            "previously uploaded tree, the new tree differs by any mix of unchanged / modified / removed / added / "
            "renamed / renamed-and-modified files and removed / renamed directories holding one file (unchanged or "
            "modified) whose names are SYMBOLIC (the solver decides swaps, chains and reuse of "
            "vacated names); afterwards the remote directory holds exactly the new tree's entries with the new contents "
            "and the uploaded revision id is recorded; each top-level name is upload-ignored or not (SYMBOLIC, inherited by "
            "the paths below it), ignored paths were never uploaded and are left out of the comparison, everything else must "
            "match exactly (a file renamed to an ignored name must not stay behind under its old name). Larger directories, "
            "symlinks, kind changes, executable bits and full uploads are outside; entries renamed FROM an ignored name are the "
            "input class of a known finding (the upload aborts with NoSuchFile), re-witnessed on every run.",
            "remote transport = flat map refusing renames onto occupied names; the tree delta is computed by the harness"),
    "C45": ("eol filter stack",
            "All 7 eol settings on content <= 6/9 arbitrary bytes, every chunk split: NUL content untouched, canonical text "
            "round-trips, writer output form, independence of chunking; the module's look-behind regex is interpreted by the "
            "generic regex walker; the file handed to filtered_input_file may return fewer bytes than asked for (symbolic short "
            "reads, as the io contract allows), so conversion must not depend on how the content arrives. The 'fresh "
            "checkout reports no changes' sentence needs a dirstate tree (outside).",
            "canonical form as stated in the evidence"),
    "C46": ("clean-tree selection and deletion kernel",
            "The real clean_tree / iter_deletables / _filter_out_nested_controldirs / delete_items over a stub tree whose "
            "unversioned paths have SYMBOLIC names (incl. names that are, or narrowly miss, the detritus suffixes), symbolic "
            "ignored / directory / nested-control-dir flags and every option combination: exactly the requested categories "
            "are deleted, nested control directories are kept (one that this version cannot open stops the command before "
            "anything is deleted), a dry run touches nothing. WorkingTree.extras and the real "
            "file system are outside.",
            "tree, file system and ui are recording stubs; extras() yields exactly the unversioned paths"),
    "C48": ("ignore pattern matching",
            "The super-regexes built by the real Globster / ExceptionGlobster / _OrderedGlobster for enumerated pattern "
            "lists (incl. 100-205 patterns, and '*.x/y' patterns that look like extension patterns) are interpreted over a SYMBOLIC file name and compared with a reference matcher "
            "written from 'brz help patterns'.",
            "pattern lists are enumerated; reference semantics as stated in the evidence"),
    "C49": ("location section matching",
            "LocationMatcher / _iter_for_location_by_parts / LocationSection.get over concrete section-name sets and a "
            "SYMBOLIC location: the matching sections, their specificity order, ignore_parents and relpath expansion agree "
            "with a reference; an empty value in a more specific section is a value (it hides the parent's), an option the "
            "section lacks yields the default. Store round trip through configobj is outside.",
            "section names enumerated; urlutils helpers modelled"),
    "C50": ("command line splitting",
            "Full property for breezy.cmdline.split: quote-then-split round trip for <= 2 arguments of <= 3/4 symbolic chars, "
            "conservation of characters for arbitrary command lines, both single-quote settings.",
            "reference quoter as stated in the evidence"),
    "C51": ("rebase plan generation (simple and transpose plans) and persistence",
            "(1) generate_simple_plan over histories whose SHAPE is symbolic (revisions and parents are symbolic ids; "
            "chains, diamonds inside the rebased set, merges from outside), with and without skip_full_merged: exactly the "
            "revisions of the set are rewritten (on request a merge one of whose parents is already in the new base's history "
            "may be left out, nothing else), a rewritten merge keeps its merged-in parent (or that parent's rewrite) unless the "
            "new base already contains it, every new parent is the new base, the new id of a rewritten revision or a revision outside the "
            "set - never the old id of a rewritten revision. (2) marshall_rebase_plan / unmarshall_rebase_plan round trip "
            "with symbolic revno, revision ids and parents. (3) generate_transpose_plan over the same symbolic histories "
            "with 1..2 replaced revisions listed in either order: exactly the descendants of replaced revisions are "
            "rewritten and every new parent is a revision that stays, a replacement, or the new id of a rewritten revision. "
            "rebase_todo and vcsgraph's own topological sort / heads are outside.",
            "graph answers computed from the symbolic parent table; topo_sort replaced by the table's id order"),
}

NOT_APPLICABLE = {
    "C02": "per-file graph heads over a real repository (vcsgraph + pack indices, compiled); histories are DAG structure, not values a solver can range over",
    "C03": "whole-repository streaming between formats through compiled (de)serialisers and I/O; only the shape of the history varies",
    "C08": "depends on which inventories/texts are physically present in two real repositories (CHK maps, groupcompress - Rust)",
    "C09": "dirstate (Rust) / git index (dulwich) mutations over a real file system; operation sequences are structure to enumerate (model-based testing target, not a solver target)",
    "C10": "the fast paths under comparison are compiled (dirstate ProcessEntry, CHK differ); inputs are tree shapes",
    "C11": "a directory walk over a real file system combined with the ignore matcher; the matcher itself is decided under C48",
    "C14": "compares a preview tree with a real applied working tree (inventory + file system); inputs are operation sequences",
    "C15": "composition of TreeTransform, merge and shelf serialisation (pack container + bencode, compiled) on a real working tree",
    "C19": "the decision goes through merge3.Merge3 with patiencediff.PatienceSequenceMatcher (compiled, hashes lines), so file lines cannot be symbolic",
    "C20": "persistence is rio.Stanza (Rust) on a real tree; selection is hash-set membership over concrete paths plus osutils.is_inside_any (Rust)",
    "C22": "dotted revnos come from vcsgraph merge-sort (compiled) over DAG structure; specifier resolution needs a real branch",
    "C32": "end-to-end equivalence of real repositories/branches over an in-process server; operation sequences and histories are structure (the wire codec itself is decided under C29/C30)",
    "C35": "tree/blob conversion over real repositories through dulwich object stores and the SHA-map cache",
    "C38": "differential behaviour of SQLite / TDB / index-file stores - storage engines and I/O",
    "C40": "bundle (de)serialisation over real repositories (pack container, bencode, multiparent diffs - compiled) and testaments of installed revisions",
    "C42": "tar/zip/dir writers over real revision trees (I/O, zlib)",
    "C44": "two whole-repository converters over real histories",
    "C46": "directory layouts on a real file system and WorkingTree.extras",
    "C47": "every function named (is_inside, minimum_path_selection, split_lines, chunks_to_lines, date helpers, pathjoin/splitpath) is implemented in Rust (crates/osutils); there is no symbolic engine for Rust in this sandbox",
    "C52": "converters over real on-disk formats and layouts",
}

STRETCH_NA = {
    "C16": "commit-then-uncommit needs a real commit, branch and working tree; tag removal is in src/uncommit.rs (Rust); the pure-Python tip arithmetic harness has not been built",
    "C33": "recipe construction and replay walk a concrete parent map with vcsgraph searchers (DAG structure, compiled); the serialisation-only harness has not been built",
    "C49": "store round trip goes through configobj (third-party parser) and section matching through urlutils (Rust); the matching harness has not been built",
}


def main():
    props = [json.loads(l)["id"] for l in open(os.path.join(ROOT, "properties.jsonl"))]
    built = {p for p in CLAIMED if os.path.exists(os.path.join(ROOT, "harness", p + ".py"))}
    try:
        fixes = subprocess.run(["git", "-C", "/repo", "log", "--format=%h %s", "--grep=^fix:"], capture_output=True,
                               text=True).stdout.strip().splitlines()
    except Exception:
        fixes = []
    checks = []
    for p in props:
        if p not in built:
            continue
        title, text, note = CLAIMED[p]
        checks.append({
            "property_id": p,
            "quick_cmd": "./check %s --tier quick" % p,
            "thorough_cmd": "./check %s --tier thorough" % p,
            "evidence_file": "evidence/%s.json" % p,
            "replay_cmd_template": "./check %s --replay {path}" % p,
            "engine": "symx",
            "level_claimed": {"category": "model_checking",
                              "text": "Bounded symbolic model checking of the real code (%s). %s Exit 0 means the z3-backed "
                                      "exploration exhausted every path within the stated bounds with every assertion "
                                      "discharged; a violation is reported only after the counterexample reproduced on the "
                                      "unlifted installed code." % (title, text),
                              "design_ref": "DESIGN.md section 2, " + p},
            "level_note": "Trusted base: z3, CPython executing the lifted module, the proxy/regex models (each completed "
                          "path is replayed concretely on the unlifted code and compared). Assumed: " + note +
                          ". Bounds, stubs and what lies outside are written to the evidence file on every run.",
            "technique": TECH,
        })
    na = []
    for p in props:
        if p in built:
            continue
        reason = NOT_APPLICABLE.get(p) or STRETCH_NA.get(p)
        if reason is None:
            raise SystemExit("no reason for " + p)
        na.append({"property_id": p, "reason": reason})
    manifest = {
        "version": 1,
        "setup_cmd": "./bootstrap.sh && ./.venv/bin/python -m symx.selftest",
        "hooks": {
            "guard": "BREEZY_VERIF",
            "enable": "no instrumentation is needed: every check parses /repo's current source files, lifts them into "
                      "shadow modules outside /repo and executes those; BREEZY_VERIF is not read by any code in /repo",
            "baseline_off_cmd": "cd /repo && /venv/bin/python -m pytest -ra -q -p no:cacheprovider --timeout=900 "
                                "--continue-on-collection-errors",
            "source_commits": fixes,
            "add_only": True,
        },
        "engines": [
            {"name": "symx", "path": "symx/", "serves_properties": sorted(built),
             "kind_free_text": "replay-based symbolic executor for real Python source on z3 (AST lifting pass, proxy values "
                               "with concrete-length symbolic sequences, generic regex walker, association-list "
                               "dicts/sets, parallel depth-first path exploration, per-path concrete replay)"},
        ],
        "checks": checks,
        "notes": "Solver-based checking only. source_commits lists the unguarded 'fix:' commits (repairs of genuine "
                 "defects found by the checks); no hook commits exist. See DESIGN.md and known_findings.json.",
        "not_applicable": na,
    }
    with open(os.path.join(ROOT, "MANIFEST.json"), "w") as f:
        json.dump(manifest, f, indent=1)
    print("claimed:", len(checks), "not applicable:", len(na))


if __name__ == "__main__":
    main()
