#!/bin/sh
# tools/mk_prompt.sh ID [SUFFIX] [EXTRA TEXT] -> worktree /tmp/wt/ID<SUFFIX> + prompt file for a seed sub-agent (property text only)
ID=$1; SUF=$2; EXTRA=$3
N=$ID$SUF
/verif/tools/mk_worktree.sh $N >/dev/null
mkdir -p /tmp/wt/$N.out
python3 - "$ID" "$N" "$EXTRA" <<'P'
import json, sys
pid, name, extra = sys.argv[1:4]
prop = [json.loads(l) for l in open('/verif/properties.jsonl') if json.loads(l)['id'] == pid][0]
json.dump(prop, open('/tmp/wt/%s.property.json' % name, 'w'), indent=1)
t = open('/verif/tools/seed_prompt_template.txt').read().replace('__ID__', name).replace('__PROPERTY__', json.dumps(prop, indent=1))
if extra:
    t += "\n\nADDITIONAL CONSTRAINT: " + extra + "\n"
open('/tmp/wt/%s.prompt.txt' % name, 'w').write(t)
print('/tmp/wt/%s.prompt.txt' % name)
P
