#!/bin/sh
# tools/mk_refactor_prompt.sh ID [EXTRA] -> worktree /tmp/wt/IDr + prompt for a behaviour-preserving refactoring sub-agent
ID=$1; EXTRA=$2
N=${ID}r
/verif/tools/mk_worktree.sh $N >/dev/null
mkdir -p /tmp/wt/$N.out
python3 - "$ID" "$N" "$EXTRA" <<'P'
import json, sys
pid, name, extra = sys.argv[1:4]
prop = [json.loads(l) for l in open('/verif/properties.jsonl') if json.loads(l)['id'] == pid][0]
t = open('/verif/tools/refactor_prompt_template.txt').read().replace('__ID__', name).replace('__PROPERTY__', json.dumps(prop, indent=1))
if extra:
    t += "\n\nADDITIONAL GUIDANCE: " + extra + "\n"
open('/tmp/wt/%s.prompt.txt' % name, 'w').write(t)
print('/tmp/wt/%s.prompt.txt' % name)
P
