#!/bin/sh
# tools/mk_worktree.sh NAME  -> scratch worktree of /repo HEAD at /tmp/wt/NAME with the compiled extensions hard-linked in
set -e
D=/tmp/wt/$1
mkdir -p /tmp/wt
git -C /repo worktree add -q --detach "$D" HEAD
(cd /repo && find breezy -name "*.so") | while read f; do ln "/repo/$f" "$D/$f"; done
echo "$D"
