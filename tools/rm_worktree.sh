#!/bin/sh
git -C /repo worktree remove --force /tmp/wt/$1 && echo removed /tmp/wt/$1
