#!/bin/sh
# run every claimed check (tier $1, default quick); print id, exit code, seconds
cd "$(dirname "$0")/.."
TIER=${1:-quick}
for id in $(python3 -c "import json;print(' '.join(c['property_id'] for c in json.load(open('MANIFEST.json'))['checks']))"); do
  s=$(date +%s)
  ./check $id --tier $TIER > /tmp/verif_run_$id.log 2>&1
  rc=$?
  e=$(date +%s)
  echo "$id rc=$rc $((e-s))s $(grep -c KNOWN-FINDING /tmp/verif_run_$id.log) known  $(tail -1 /tmp/verif_run_$id.log | cut -c1-150)"
done
