#!/bin/sh
# one-off: save the fourth-round seeded changes once tools/confirm_seed.sh <id> full has written /tmp/wt/<id>.out/suite_cmp.txt
cd "$(dirname "$0")/.."
s() { [ -f /tmp/wt/$1.out/suite_cmp.txt ] && python3 tools/save_seed.py "$1" "$2" "$3" "$4" || echo "not yet: $1"; }
s C01b C01-2 "C01/commit_pipeline (added after this change: the whole Commit.commit over stand-ins, symbolic selection forms and failure step)" "missed by the first build (only the change filters were claimed)"
s C04b C04-2 "NOT CAUGHT: GCCHKPacker repacking (real pack content, compiled groupcompress) is outside the claim of C04" "kept as a documented miss"
s C06b C06-2 "C06/suspend_resume (two suspend rounds, abort of the resumed group)" "caught as built"
s C12b C12-2 "C12/remove (after this change: tree-relative vs operating-system paths, earlier backups may exist, rename overwrites)" "first run inconclusive (compiled available_backup_name received a symbolic name); model added"
s C17b C17-2 "C17/entry_loop (added after this change: per-entry loop of _compute_transform)" "missed by the first build"
s C21b C21-2 "C21/bound_push (added after this change: GenericInterBranch.push into a bound branch)" "missed by the first build"
s C23b C23-2 "C23/bound_commit (the environment moves the master whenever it is not locked)" "caught as built"
s C33b C33-2 "C33/refine (added after this change: SearchResult.refine between two repositories of a stack)" "missed by the first build; the new obligation also found known finding C33-refine-reaches-seen-revision-through-unseen-one"
s C43b C43-2 "C43/incremental_upload (after this change: renamed directories holding a modified file)" "missed by the first build"
s C51b C51-2 "C51/transpose_plan (added after this change: generate_transpose_plan)" "missed by the first build"
s C11 C11-1 "C11/smart_add (after this change: the second root entry 'a-b' may hold an entry when two paths are named)" "missed by the first version of the new C11 harness (the trimmed tree shape gave the second directory no content)"
s C11b C11-2 "C11/smart_add (a versioned directory that is a nested tree is no longer probed and gets walked)" "caught as built"
