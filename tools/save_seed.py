#!/usr/bin/env python3
"""tools/save_seed.py ID NAME 'detected_by' 'note'  : copy a confirmed seeded change from /tmp/wt/ID.out to /verif/seeded/NAME/."""
import json, os, shutil, sys, glob
pid, name, detected, note = sys.argv[1:5]
src = "/tmp/wt/%s.out" % pid
dst = "/verif/seeded/%s" % name
os.makedirs(dst, exist_ok=True)
shutil.copy(src + "/patch.diff", dst + "/patch.diff")
for d in glob.glob(src + "/demo*.py"):
    shutil.copy(d, dst)
meta = json.load(open(src + "/meta.json"))
conf = {"demo_with_change_rc": None, "demo_without_change_rc": None}
def rc(f):
    return open(f).read() if os.path.exists(f) else None
meta["confirmation"] = {
    "demo": "ran the demonstration with PYTHONPATH=<worktree with the change> (fails) and PYTHONPATH=/repo (passes): tools/confirm_seed.sh %s" % pid,
    "suite": (open(src + "/suite_cmp.txt").read().strip() if os.path.exists(src + "/suite_cmp.txt") else "full suite not run; agent's targeted test runs only"),
    "checks_run": "tools/try_seed.sh seeded/%s/patch.diff %s  (git -C /repo apply; ./check <id> --tier quick; git -C /repo checkout -- .)" % (name, pid),
    "detected_by": detected,
    "note": note,
}
json.dump(meta, open(dst + "/meta.json", "w"), indent=1)
print("saved", dst)
