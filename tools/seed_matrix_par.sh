#!/bin/sh
# tools/seed_matrix_par.sh SEED... : run tools/seed_matrix.sh for the given seeds in parallel (one process per seed, each writing
# its own table) and merge the rows into seeded/MATRIX.md (rows of other seeds are kept).
cd "$(dirname "$0")/.."
D=$(mktemp -d)
for s in "$@"; do
  (OUT=$D/$s.md tools/seed_matrix.sh $s > $D/$s.log 2>&1) &
done
wait
T=$(mktemp)
grep -hE '^\| C[0-9]+-[0-9]+ ' seeded/MATRIX.md | while read -r line; do
  sd=$(echo "$line" | awk '{print $2}')
  case " $* " in *" $sd "*) ;; *) echo "$line" >> $T;; esac
done
cat $D/*.md | grep -hE '^\| C[0-9]+-[0-9]+ ' >> $T
{ sed -n '1,/^|---/p' seeded/MATRIX.md; sort $T; } > $D/new.md
cp $D/new.md seeded/MATRIX.md
cat $D/*.log
rm -rf $D $T
