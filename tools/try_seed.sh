#!/bin/sh
# tools/try_seed.sh PATCH ID [ID...]  : apply PATCH to /repo, run the quick check(s), undo the patch.
P=$1; shift
git -C /repo apply --check "$P" || { echo "patch does not apply"; exit 2; }
git -C /repo apply "$P"
trap 'git -C /repo checkout -- . ' EXIT
for id in "$@"; do
  s=$(date +%s)
  TIER=${TIER:-quick}
  /verif/check $id --tier $TIER > /tmp/seed_$id.log 2>&1
  rc=$?
  e=$(date +%s)
  echo "$id rc=$rc $((e-s))s :: $(grep -E 'VIOLATION|INCONCLUSIVE|^OK' /tmp/seed_$id.log | head -3 | cut -c1-220 | tr '\n' '|')"
done
