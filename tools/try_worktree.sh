#!/bin/sh
# tools/try_worktree.sh WORKTREE ID [ID...] : run the quick check(s) against the code in WORKTREE (a scratch worktree of /repo
# with the compiled extensions linked in) instead of /repo; /repo is not touched and no evidence file is written.
W=$1; shift
for id in "$@"; do
  s=$(date +%s)
  PYTHONPATH=$W VERIF_NO_EVIDENCE=1 /verif/check $id --tier ${TIER:-quick} > /tmp/wt_$id.log 2>&1
  rc=$?
  e=$(date +%s)
  echo "$id rc=$rc $((e-s))s :: $(grep -E 'VIOLATION|INCONCLUSIVE|^OK' /tmp/wt_$id.log | head -3 | cut -c1-200 | tr '\n' '|')"
done
