#!/bin/sh
# tools/validate_evidence.sh : validate MANIFEST.json and every evidence file against the given schemas (tooling venv has jsonschema)
python3-vt - <<'P'
import json, jsonschema, glob, sys
bad = 0
m = json.load(open('/verif/MANIFEST.json'))
jsonschema.validate(m, json.load(open('/root/.vp/MANIFEST.schema.json')))
s = json.load(open('/root/.vp/EVIDENCE.schema.json'))
claimed = {p['property_id'] for p in m['checks']}
for f in sorted(glob.glob('/verif/evidence/*.json')):
    e = json.load(open(f))
    try:
        jsonschema.validate(e, s)
        st = [r['status'] for r in e['coverage'].get('obligation_details', [])]
        flag = '' if all(x == 'ok' for x in st) and e.get('violations', 0) == 0 else '  <-- NOT CLEAN ' + str(st)
        if flag: bad += 1
        print(f.split('/')[-1], 'valid', e['tier'], flag)
    except Exception as x:
        bad += 1
        print(f.split('/')[-1], 'INVALID', str(x)[:120].replace('\n', ' '))
have = {f.split('/')[-1][:-5] for f in glob.glob('/verif/evidence/*.json')}
print('claimed without evidence:', sorted(claimed - have), ' evidence without claim:', sorted(have - claimed))
sys.exit(1 if bad else 0)
P
